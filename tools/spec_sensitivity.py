#!/usr/bin/env python3
"""Vacuity / sensitivity check of the specifications themselves (not a registered check).

Each entry mutates one operator of a spec module in a scratch copy of spec/ (under /tmp, removed afterwards)
and expects TLC to report a violation of the named invariant / property.  A mutation that TLC accepts means
the invariant does not constrain that part of the design.

usage: tools/spec_sensitivity.py            (prints one line per mutation; exit 1 if any mutation survives)
"""
import pathlib
import shutil
import subprocess
import sys
import tempfile

VERIF = pathlib.Path(__file__).resolve().parent.parent
sys.path.insert(0, str(VERIF))
from harness.tlc import run_tlc  # noqa: E402

KC_CFG = """CONSTANT RootKeys <- MC_Rk1
CONSTANT SDs <- MC_SD1
CONSTANT L0s <- MC_L0s
CONSTANT Positions <- MC_Pos3
CONSTANT Ops <- MC_Ops3
CONSTANT Clock <- MC_ClockFixed
CONSTANT DefaultRk = "rk1"
CONSTANT ReplyKinds <- MC_Both
CONSTANT LaterReplies = FALSE
CONSTANT Cancels = FALSE
CONSTANT SyncFlavours <- MC_Async
INIT Init
NEXT Next
VIEW view
INVARIANT EnvCovers
INVARIANT Transparent
INVARIANT RootKeyDecrypts
INVARIANT CacheWellFormed
INVARIANT ObtainedIsCached
PROPERTY NoRepeatRpc
PROPERTY RootKeyIsOffline
PROPERTY CacheMonotone
CHECK_DEADLOCK FALSE
"""

MUTATIONS = [
    # (module file, old text, new text, module to run, cfg file or cfg text, expected violated property)
    ("KeyCache.tla", "IF c[e.id].src = \"none\" \\/ PosGt(e.pos, c[e.id].pos) THEN [c EXCEPT ![e.id] = e] ELSE c",
     "IF c[e.id].src = \"none\" \\/ PosGt(c[e.id].pos, e.pos) THEN [c EXCEPT ![e.id] = e] ELSE c", "MC_KeyCache", KC_CFG, None),
    ("KeyCache.tla", "IF e.src # \"none\" /\\ PosGeq(e.pos, p) THEN <<TRUE, e, c>>", "IF e.src # \"none\" THEN <<TRUE, e, c>>", "MC_KeyCache", KC_CFG, None),
    ("KeyCache.tla", "ELSE IF t[1] \\in ld THEN <<TRUE, RootEntry(t), [c EXCEPT ![t] = RootEntry(t)]>>",
     "ELSE IF t[1] \\in ld THEN <<TRUE, (IF e.src # \"none\" THEN e ELSE RootEntry(t)), c>>", "MC_KeyCache", KC_CFG, None),
    ("KeyCache.tla", "storing == e.src = \"rpc\" /\\ op.rpc", "storing == op.rpc", "MC_KeyCache", KC_CFG, None),
    ("Gkdi.tla", "/\\ cl1' = IF env.b # Top /\\ env.a # r1 THEN cl1 - 1 ELSE cl1", "/\\ cl1' = cl1", "MC_Gkdi", "MC_Gkdi_live.cfg", None),
    ("Gkdi.tla", "/\\ reseed' = (env.b = Top \\/ env.a # r1)", "/\\ reseed' = (env.b = Top)", "MC_Gkdi", "MC_Gkdi_live.cfg", None),
    ("GkdiGraph.tla", "PosGeq(a, b, r1, r2) == a > r1 \\/ (a = r1 /\\ b >= r2)", "PosGeq(a, b, r1, r2) == a >= r1 \\/ (a = r1 /\\ b >= r2)", "MC_Gkdi", "MC_Gkdi_live.cfg", None),
    ("RpcRecv.tla", "LET n == IF Want < Head(chunks) THEN Want ELSE Head(chunks)", "LET n == Head(chunks)", "MC_RpcRecv", "MC_RpcRecv.cfg", None),
    ("RpcRecv.tla", "/\\ phase' = \"error\"\n  /\\ eofReads' = eofReads + 1", "/\\ phase' = phase\n  /\\ eofReads' = eofReads + 1", "MC_RpcRecv", "MC_RpcRecv.cfg", None),
    ("RpcBind.tla", "!.sign = s.sign /\\ r.sign, !.ackSign = r.sign,", "!.sign = s.sign, !.ackSign = r.sign,", "MC_RpcBind", "MC_RpcBind.cfg", None),
    ("RpcBind.tla", "IF Desired \\in s.accepted\n    THEN", "IF s.accepted # {}\n    THEN", "MC_RpcBind", "MC_RpcBind.cfg", None),
    ("RpcBind.tla", "ProvStep(s, prov, IF s.inTok = NoTok THEN NoTok ELSE s.inTok)", "ProvStep(s, prov, NoTok)", "MC_RpcBind", "MC_RpcBind.cfg", None),
    ("RpcSeal.tla", "/\\ signHeader => (m.hdrOK /\\ m.trOK)", "/\\ TRUE", "RpcSeal", "MC_RpcSeal.cfg", None),
    ("RpcSeal.tla", "/\\ m.trailer /\\ m.sealedBy = \"server\" /\\ m.seq = recvSeq", "/\\ m.sealedBy = \"server\" /\\ m.seq = recvSeq", "RpcSeal", "MC_RpcSeal.cfg", None),
    ("RpcSeal.tla", "/\\ m.trailer /\\ m.sealedBy = \"server\" /\\ m.seq = recvSeq", "/\\ m.trailer /\\ m.sealedBy = \"server\"", "RpcSeal", "MC_RpcSeal.cfg", None),
    ("RpcFraming.tla", "pad16 == IF auth THEN Pad(inner, 16) ELSE 0", "pad16 == IF auth THEN Pad(inner, 8) ELSE 0", "MC_RpcFraming", "MC_RpcFraming.cfg", None),
    ("RpcFraming.tla", "pad4 == IF vtLen > 0 THEN Pad(stubLen, 4) ELSE 0", "pad4 == 0", "MC_RpcFraming", "MC_RpcFraming.cfg", None),
    ("GkdiClock.tla", "l1 |-> (t \\div (Fan * Base)) % Fan", "l1 |-> (t \\div (Fan * Base + 1)) % Fan", "GkdiClock", "MC_GkdiClock.cfg", None),
    ("Blob.tla", "ELSE IF \"integrity\" \\in e THEN {<<\"error\">>}", "ELSE IF \"integrity\" \\in e THEN {<<\"plain\", \"forged\">>}", "MC_Blob", "MC_Blob_tamper.cfg", None),
    ("Blob.tla", "nonce == draws + 2", "nonce == 2", "MC_Blob", "MC_Blob_fresh.cfg", None),
    ("Gkdi.tla", "CoversReq == dl0 = 0 /\\ Covers(env, r1, r2)", "CoversReq == Covers(env, r1, r2)", "MC_Gkdi", "MC_Gkdi_live.cfg", None),
    ("OnlineFaults.tla", "  /\\ open' = {}\n  /\\ Finish(\"error\")", "  /\\ open' = {}\n  /\\ Finish(\"ok\")", "OnlineFaults", "MC_OnlineFaults.cfg", None),
    ("OnlineFaults.tla", "          THEN /\\ cache' = \"key\" /\\ Finish(\"ok\") /\\ UNCHANGED <<i>>", "          THEN /\\ cache' = \"empty\" /\\ Finish(\"ok\") /\\ UNCHANGED <<i>>", "OnlineFaults", "MC_OnlineFaults.cfg", None),
    ("RpcBind.tla", "Accepted(res, offered) == {c \\in offered : res[c + 1] = \"acc\"}", "Accepted(res, offered) == {c \\in offered : res[c + 1] \\in {\"acc\", \"nack\"}}", "MC_RpcBind", "MC_RpcBind.cfg", None),
    ("Kek.tla", "DecKek(h, mode, privLenBits) ==\n  IF mode = \"nonce\" THEN NonceKek(h) ELSE KekFromShared(h, mode, Shared(mode, PrivTerm(h, mode, privLenBits), <<\"Eph\">>))",
     "DecKek(h, mode, privLenBits) ==\n  IF mode = \"nonce\" THEN NonceKek(h) ELSE KekFromShared(h, \"DH\", Shared(mode, PrivTerm(h, mode, privLenBits), <<\"Eph\">>))", "MC_Kek", "MC_Kek.cfg", None),
]


def main() -> int:
    survived = 0
    for k, (mod, old, new, run_mod, cfg, _) in enumerate(MUTATIONS):
        d = pathlib.Path(tempfile.mkdtemp(prefix="specmut-", dir="/tmp"))
        try:
            spec = d / "spec"
            shutil.copytree(VERIF / "spec", spec)
            text = (spec / mod).read_text()
            if text.count(old) != 1:
                print(f"[{k:02d}] {mod}: MUTATION DOES NOT APPLY ({text.count(old)} matches)")
                survived += 1
                continue
            (spec / mod).write_text(text.replace(old, new))
            if "\n" in cfg and "CONSTANT" in cfg or cfg.startswith("CONSTANT"):
                cfgp = spec / "mut.cfg"
                cfgp.write_text(cfg)
            else:
                cfgp = spec / cfg
                if "MC_Blob_fresh" in cfg:
                    cfgp.write_text(cfgp.read_text().replace("MaxProtects = 5", "MaxProtects = 3"))
            r = run_tlc(run_mod, str(cfgp), rundir=d / "run", spec_dir=spec, timeout=900, heap="6g")
            killed = (r.violated is not None) or any(("violated" in e or "ssumption" in e or "invariant" in e.lower()) for e in r.errors)
            print(f"[{k:02d}] {mod}: {'KILLED by ' + str(r.violated or r.errors[:1]) if killed else 'SURVIVED'}  ({old[:50]!r} -> {new[:50]!r})")
            if not killed:
                survived += 1
        finally:
            shutil.rmtree(d, ignore_errors=True)
    print(f"{len(MUTATIONS) - survived}/{len(MUTATIONS)} specification mutations killed")
    return 1 if survived else 0


if __name__ == "__main__":
    sys.exit(main())
