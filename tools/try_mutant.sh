#!/bin/sh
# usage: tools/try_mutant.sh <patch.diff> <CHECK-ID>...   (scratch worktree outside /repo and /verif, removed afterwards)
set -u
patch="$1"; shift
wt=$(mktemp -d /tmp/mut-XXXXXX)
rmdir "$wt"
git -C /repo worktree add -q --detach "$wt" HEAD || exit 2
if ! git -C "$wt" apply "$patch"; then echo "PATCH DOES NOT APPLY"; git -C /repo worktree remove --force "$wt"; exit 2; fi
for id in "$@"; do
  out=$(cd /verif && VERIF_REPO="$wt" VERIF_EVIDENCE_DIR="$wt.ev" VERIF_RUN_DIR="$wt.run" VERIF_REPLAY_DIR="$wt.rp" ./check "$id" --tier quick 2>&1); rc=$?
  echo "== $id rc=$rc $(echo "$out" | grep -c '^VIOLATION') violation keys"; echo "$out" | grep -A1 '^VIOLATION' | grep clause | head -4
done
git -C /repo worktree remove --force "$wt"
rm -rf "$wt.ev" "$wt.run" "$wt.rp"
