#!/usr/bin/env python3
"""Confirm a seeded change (from an independent sub-agent) and run checks against it.

usage: tools/seed_eval.py <dir with patch.diff, demo.py, notes.txt> <PROPERTY-ID> [more check ids...]

Steps (all in a scratch worktree of /repo outside /repo and /verif, removed afterwards):
  pristine: demo exits 0;  patched: suite 276 passed, demo exits non-zero;  then ./check <ids> with VERIF_REPO=<worktree>.
Writes /verif/seeded/<name>/{patch.diff, demo.py, notes.txt, meta.json}.
"""
import json
import pathlib
import re
import shutil
import subprocess
import sys
import tempfile
import time

src = pathlib.Path(sys.argv[1])
prop = sys.argv[2]
checks = [prop] + sys.argv[3:]
name = src.name
wt = pathlib.Path(tempfile.mkdtemp(prefix="seedev-", dir="/tmp"))
wt.rmdir()


def sh(cmd, **kw):
    return subprocess.run(cmd, shell=True, capture_output=True, text=True, **kw)


meta = {"name": name, "property": prop, "confirmed": False, "checks": {}, "ran": []}
try:
    r = sh(f"git -C /repo worktree add -q --detach {wt} HEAD")
    assert r.returncode == 0, r.stderr
    env = f"PYTHONPATH={wt}/src"
    d0 = sh(f"cd {src} && {env} timeout 120 /venv/bin/python demo.py")
    meta["demo_pristine_rc"] = d0.returncode
    a = sh(f"git -C {wt} apply {src}/patch.diff")
    meta["patch_applies"] = a.returncode == 0
    if a.returncode != 0:
        meta["error"] = a.stderr[-500:]
    else:
        t = sh(f"cd {wt} && {env} /venv/bin/python -m pytest -q -p no:cacheprovider 2>&1 | tail -3")
        m = re.search(r"(\d+) passed", t.stdout)
        meta["suite"] = t.stdout.strip().splitlines()[-1] if t.stdout.strip() else ""
        meta["suite_ok"] = bool(m and int(m.group(1)) == 276 and "failed" not in t.stdout)
        d1 = sh(f"cd {src} && {env} timeout 120 /venv/bin/python demo.py")
        meta["demo_patched_rc"] = d1.returncode
        meta["demo_patched_tail"] = (d1.stdout + d1.stderr)[-400:]
        meta["confirmed"] = meta["demo_pristine_rc"] == 0 and meta["suite_ok"] and d1.returncode != 0
        meta["ran"] = ["demo on pristine worktree", "git apply patch.diff", "pytest (276 expected)", "demo on patched worktree"]
        for c in checks:
            t0 = time.time()
            r = sh(f"cd /verif && VERIF_REPO={wt} VERIF_EVIDENCE_DIR={wt}.ev VERIF_RUN_DIR={wt}.run VERIF_REPLAY_DIR={wt}.rp ./check {c} --tier quick")
            keys = re.findall(r"key: (\S+)", r.stdout)
            meta["checks"][c] = {"rc": r.returncode, "violation_keys": keys[:12], "wall_s": round(time.time() - t0, 1),
                                 "tail": r.stdout.strip().splitlines()[-1] if r.stdout.strip() else r.stderr[-300:]}
            meta["ran"].append(f"VERIF_REPO=<patched worktree> ./check {c} --tier quick")
finally:
    sh(f"git -C /repo worktree remove --force {wt}")
    shutil.rmtree(wt, ignore_errors=True)
    for suffix in (".ev", ".run", ".rp"):
        shutil.rmtree(str(wt) + suffix, ignore_errors=True)
    # evidence files were rewritten by runs against the mutant: they must be regenerated on /repo before committing
out = pathlib.Path("/verif/seeded") / name
if meta["confirmed"]:
    out.mkdir(parents=True, exist_ok=True)
    for f in ("patch.diff", "demo.py", "notes.txt"):
        if (src / f).exists():
            shutil.copy(src / f, out / f)
    notes = (src / "notes.txt").read_text() if (src / "notes.txt").exists() else ""
    meta["needs_to_manifest"] = notes[:1500]
    meta["detected_by"] = [c for c, v in meta["checks"].items() if v["rc"] == 1]
    (out / "meta.json").write_text(json.dumps(meta, indent=1))
print(json.dumps({k: meta[k] for k in meta if k not in ("needs_to_manifest", "demo_patched_tail")}, indent=1))
