#!/bin/sh
# usage: tools/run_all.sh [quick|thorough] [parallelism]   -- runs every registered check on /repo, prints one line each
tier=${1:-quick}; par=${2:-4}
cd "$(dirname "$0")/.."
ids=$(python3 -c "import json;print(' '.join(c['property_id'] for c in json.load(open('MANIFEST.json'))['checks']))")
echo $ids | tr ' ' '\n' | xargs -P $par -I{} sh -c "./check {} --tier $tier > run/all-{}.log 2>&1; echo {} rc=\$? \$(tail -1 run/all-{}.log)"
