#!/usr/bin/env python3
"""Run checks against behaviour-preserving changes (from independent sub-agents): every check must exit 0.

usage: tools/benign_eval.py <dir with NN.diff + index.json> [--all] [--par N] [--tier quick]

For each patch: scratch worktree of /repo under /tmp (removed afterwards), git apply, suite (276 expected), then
./check <id> for every id in the patch's touches_properties (or all 20 with --all) with VERIF_REPO pointing at the
worktree and evidence/run/replay directories redirected next to it.  Prints one line per (patch, check); exit 1 if any
check did not exit 0 (= a false alarm or a machinery failure on code where the properties hold).
"""
import concurrent.futures as cf
import json
import pathlib
import re
import shutil
import subprocess
import sys
import tempfile

ALL = [f"C{i:02d}" for i in range(1, 21)]


def sh(cmd):
    return subprocess.run(cmd, shell=True, capture_output=True, text=True)


def one(src: pathlib.Path, entry: dict, all_checks: bool, tier: str) -> list[dict]:
    wt = pathlib.Path(tempfile.mkdtemp(prefix="benign-ev-", dir="/tmp"))
    wt.rmdir()
    out = []
    try:
        r = sh(f"git -C /repo worktree add -q --detach {wt} HEAD")
        assert r.returncode == 0, r.stderr
        a = sh(f"git -C {wt} apply {src / entry['file']}")
        if a.returncode != 0:
            return [{"patch": entry["file"], "check": "-", "rc": -1, "tail": "patch does not apply: " + a.stderr[-200:]}]
        t = sh(f"cd {wt} && PYTHONPATH={wt}/src /venv/bin/python -m pytest -q -p no:cacheprovider 2>&1 | tail -3")
        m = re.search(r"(\d+) passed", t.stdout)
        if not (m and int(m.group(1)) == 276 and "failed" not in t.stdout):
            return [{"patch": entry["file"], "check": "-", "rc": -1, "tail": "suite: " + t.stdout[-200:]}]
        ids = ALL if all_checks else sorted(set(entry.get("touches_properties", [])))
        for c in ids:
            r = sh(f"cd /verif && VERIF_REPO={wt} VERIF_EVIDENCE_DIR={wt}.ev VERIF_RUN_DIR={wt}.run VERIF_REPLAY_DIR={wt}.rp "
                   f"VERIF_PLAY_PROCS=4 ./check {c} --tier {tier}")
            lines = [ln for ln in r.stdout.strip().splitlines() if ln.strip()]
            keys = re.findall(r"key: (\S+)", r.stdout)
            out.append({"patch": entry["file"], "check": c, "rc": r.returncode, "keys": keys[:6],
                        "tail": (lines[-1] if lines else r.stderr[-400:])[:400], "err": r.stderr[-600:] if r.returncode not in (0, 1) else ""})
    finally:
        sh(f"git -C /repo worktree remove --force {wt}")
        shutil.rmtree(wt, ignore_errors=True)
        for suffix in (".ev", ".run", ".rp"):
            shutil.rmtree(str(wt) + suffix, ignore_errors=True)
    return out


def main() -> int:
    args = sys.argv[1:]
    src = pathlib.Path(args[0]).resolve()
    all_checks = "--all" in args
    par = int(args[args.index("--par") + 1]) if "--par" in args else 3
    tier = args[args.index("--tier") + 1] if "--tier" in args else "quick"
    only = args[args.index("--only") + 1].split(",") if "--only" in args else None
    index = json.loads((src / "index.json").read_text())
    if only:
        index = [e for e in index if e["file"] in only]
    bad = 0
    with cf.ThreadPoolExecutor(max_workers=par) as ex:
        for res in ex.map(lambda e: one(src, e, all_checks, tier), index):
            for r in res:
                flag = "ok " if r["rc"] == 0 else "BAD"
                print(f"{flag} {r['patch']} {r['check']} rc={r['rc']} {r.get('keys', '')} {r['tail']}", flush=True)
                if r["rc"] != 0:
                    bad += 1
                    if r.get("err"):
                        print("    stderr:", r["err"].replace("\n", "\n    "), flush=True)
    print(f"{bad} non-zero results")
    return 1 if bad else 0


if __name__ == "__main__":
    sys.exit(main())
