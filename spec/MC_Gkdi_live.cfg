CONSTANT Fan = 4
CONSTANT EnvPositions <- MC_EnvAll
CONSTANT Requests <- MC_ReqAll
SPECIFICATION Spec
INVARIANT TypeOK
INVARIANT ResultIsRequested
INVARIANT NeverGarbage
INVARIANT RejectIffNotCovered
INVARIANT BoundedKdf
INVARIANT CoverIsDerivable
PROPERTY StepsAreEdges
PROPERTY Terminates
CHECK_DEADLOCK FALSE
