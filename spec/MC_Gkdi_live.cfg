CONSTANT Fan = 4
CONSTANT EnvPositions <- MC_EnvAll
CONSTANT Requests <- MC_ReqAll
CONSTANT L0Offsets <- MC_L0Offsets
SPECIFICATION Spec
INVARIANT TypeOK
INVARIANT ResultIsRequested
INVARIANT NeverGarbage
INVARIANT RejectIffNotCovered
INVARIANT OtherL0Rejected
INVARIANT BoundedKdf
INVARIANT CoverIsDerivable
PROPERTY StepsAreEdges
PROPERTY Terminates
CHECK_DEADLOCK FALSE
