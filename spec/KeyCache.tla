------------------------------ MODULE KeyCache ------------------------------
(***************************************************************************)
(* The KeyCache of dpapi-ng shared by protect / unprotect calls.           *)
(*                                                                         *)
(* One API call is three steps, exactly where the code can be interleaved: *)
(*   Begin(o)    blob parse + cache lookup (nothing awaits: atomic); on a  *)
(*               miss the GetKey arguments go to the DC                    *)
(*   DcReply(o)  the DC's answer is delivered (the asyncio flavour is      *)
(*               suspended between Begin and here, and again until the     *)
(*               connection is torn down)                                  *)
(*   Finish(o)   store + derive + encrypt/decrypt (atomic)                 *)
(* Sync calls take the three steps contiguously (variable busy).           *)
(*                                                                         *)
(* Keys are symbolic: an entry/envelope carries the triple <<rk, sd, l0>>  *)
(* it was derived for (its provenance) and its position; deriving the key  *)
(* for position p from it gives Key(provenance, p) when it covers p.       *)
(***************************************************************************)
EXTENDS Integers, Sequences, FiniteSets, TLC

CONSTANTS RootKeys, SDs, L0s, Positions, Ops,
          Clock,               \* the instants the clock passes through: sequence of [l0, pos] (client and DC agree);
                               \* Tick moves to the next one, also across an L0 boundary
          DefaultRk,           \* root key the DC uses when the caller names none
          ReplyKinds,          \* subset of {"rpc", "pub", "err"}: seed-key reply / public-key-only reply / GetKey failure
          Cancels,             \* BOOLEAN: async calls may be cancelled while suspended
          LaterReplies,        \* TRUE: the DC may answer with a later position than requested
          SyncFlavours         \* subset of BOOLEAN: which API flavours are explored

VARIABLES loaded, cache, ops, obtained, busy, tick, rpcLog, hist
vars == <<loaded, cache, ops, obtained, busy, tick, rpcLog, hist>>
view == <<loaded, cache, ops, obtained, busy, tick>>
NowL0 == Clock[tick].l0
NowPos == Clock[tick].pos

NoRk == "norootkey"
NoPos == <<-1, -1>>
Triples == RootKeys \X SDs \X L0s

PosGeq(p, q) == p[1] > q[1] \/ (p[1] = q[1] /\ p[2] >= q[2])
PosGt(p, q)  == p[1] > q[1] \/ (p[1] = q[1] /\ p[2] > q[2])
TopPos == <<31, 31>>

NoEntry == [pos |-> NoPos, src |-> "none", id |-> <<>>]
RootEntry(t) == [pos |-> TopPos, src |-> "root", id |-> t]
IdleOp == [st |-> "idle", kind |-> "-", rk |-> NoRk, sd |-> "-", l0 |-> -1, pos |-> NoPos, sync |-> TRUE,
           env |-> NoEntry, res |-> <<"none">>, rpc |-> FALSE, at |-> <<-1, NoPos>>, hadRoot |-> FALSE]

(* positions a blob can name at L0 = l0 (nothing from the future)            *)
Nameable(l0, p) == l0 < NowL0 \/ (l0 = NowL0 /\ PosGeq(NowPos, p))

Init ==
  /\ loaded = {}
  /\ cache = [t \in Triples |-> NoEntry]
  /\ ops = [o \in Ops |-> IdleOp]
  /\ obtained = [t \in Triples |-> NoPos]
  /\ busy = "none"
  /\ tick = 1
  /\ rpcLog = <<>>
  /\ hist = <<>>

(* time passes (never while a sync call is running: it blocks its thread)             *)
Tick ==
  /\ busy = "none"
  /\ tick < Len(Clock)
  /\ tick' = tick + 1
  /\ hist' = Append(hist, <<"tick", Clock[tick + 1].l0, Clock[tick + 1].pos>>)
  /\ UNCHANGED <<loaded, cache, ops, obtained, busy, rpcLog>>

CanStep(o) == busy \in {"none", o}

LoadRoot(rk) ==
  /\ busy = "none"
  /\ rk \notin loaded
  /\ loaded' = loaded \cup {rk}
  /\ hist' = Append(hist, <<"load", rk>>)
  /\ UNCHANGED <<cache, ops, obtained, busy, tick, rpcLog>>

(* The cache operations as functions of explicit state, so that the trace       *)
(* specification (TraceCache) folds the very same operators over recorded events. *)
(* cache lookup for triple t and position p: <<found, envelope, cache'>>          *)
LookupIn(c, ld, t, p) ==
  LET e == c[t]
  IN IF e.src # "none" /\ PosGeq(e.pos, p) THEN <<TRUE, e, c>>
     ELSE IF t[1] \in ld THEN <<TRUE, RootEntry(t), [c EXCEPT ![t] = RootEntry(t)]>>
     ELSE <<FALSE, NoEntry, c>>
(* store a seed-key envelope obtained from the DC: keep the later position          *)
StoreIn(c, e) ==
  IF c[e.id].src = "none" \/ PosGt(e.pos, c[e.id].pos) THEN [c EXCEPT ![e.id] = e] ELSE c
ObtainIn(ob, e) ==
  IF ob[e.id] = NoPos \/ PosGt(e.pos, ob[e.id]) THEN [ob EXCEPT ![e.id] = e.pos] ELSE ob
CoversIn(ob, t, p) == ob[t] # NoPos /\ PosGeq(ob[t], p)

Lookup(t, p) == LookupIn(cache, loaded, t, p)
ObtainedCovers(t, p) == CoversIn(obtained, t, p)

BeginWith(o, kind, rk, sd, l0, pos, sync) ==
  LET named == kind = "unprotect" \/ rk # NoRk
      t == IF kind = "unprotect" THEN <<rk, sd, l0>> ELSE <<rk, sd, NowL0>>
      p == IF kind = "unprotect" THEN pos ELSE NowPos
      lk == IF named THEN Lookup(t, p) ELSE <<FALSE, NoEntry, cache>>
      base == [IdleOp EXCEPT !.kind = kind, !.rk = rk, !.sd = sd, !.l0 = l0, !.pos = pos, !.sync = sync, !.at = <<NowL0, NowPos>>,
                               !.hadRoot = (rk \in loaded)]
  IN /\ cache' = lk[3]
     /\ IF lk[1]
          THEN /\ ops' = [ops EXCEPT ![o] = [base EXCEPT !.st = "replied", !.env = lk[2]]]
               /\ UNCHANGED rpcLog
          ELSE /\ ops' = [ops EXCEPT ![o] = [base EXCEPT !.st = "await", !.rpc = TRUE]]
               /\ rpcLog' = Append(rpcLog, IF kind = "unprotect" THEN <<o, rk, sd, l0, pos>> ELSE <<o, rk, sd, -1, NoPos>>)
     /\ busy' = IF sync THEN o ELSE "none"
     /\ hist' = Append(hist, <<"begin", o, kind, rk, sd, l0, pos, sync>>)
     /\ UNCHANGED <<loaded, obtained, tick>>

Begin(o) ==
  /\ busy = "none"
  /\ ops[o].st = "idle"
  /\ \E sync \in SyncFlavours :
       \/ \E rk \in RootKeys, sd \in SDs, l0 \in L0s, pos \in Positions :
            Nameable(l0, pos) /\ BeginWith(o, "unprotect", rk, sd, l0, pos, sync)
       \/ \E rk \in RootKeys \cup {NoRk}, sd \in SDs :
            BeginWith(o, "protect", rk, sd, -1, NoPos, sync)

(* A conforming DC: seed keys at a position at or after the requested one (never  *)
(* from the future), or only the group public key.                                *)
DcReply(o) ==
  /\ CanStep(o)
  /\ ops[o].st = "await"
  /\ \E k \in ReplyKinds :
       LET op == ops[o]
           rk == IF op.rk = NoRk THEN DefaultRk ELSE op.rk
       IN IF op.kind = "unprotect"
            THEN \E q \in (IF LaterReplies THEN Positions \cup {TopPos, NowPos} ELSE {op.pos}) :
                   /\ PosGeq(q, op.pos) /\ Nameable(op.l0, q)
                   /\ ops' = [ops EXCEPT ![o].st = "replied",
                                         ![o].env = [pos |-> q, src |-> k, id |-> <<rk, op.sd, op.l0>>]]
                   /\ hist' = Append(hist, <<"reply", o, k, q>>)
            ELSE /\ ops' = [ops EXCEPT ![o].st = "replied", ![o].at = <<NowL0, NowPos>>,
                                       ![o].env = [pos |-> NowPos, src |-> k, id |-> <<rk, op.sd, NowL0>>]]
                 /\ hist' = Append(hist, <<"reply", o, k, NowPos>>)
  /\ UNCHANGED <<loaded, cache, obtained, busy, tick, rpcLog>>

(* an asyncio call cancelled while it is suspended (waiting for the DC or for the connection to close): it ends  *)
(* without a result and without having touched the cache                                                      *)
Cancel(o) ==
  /\ Cancels /\ busy = "none"
  /\ ops[o].st \in {"await", "replied"} /\ ops[o].rpc /\ ~ops[o].sync
  /\ ops' = [ops EXCEPT ![o].st = "done", ![o].res = <<"cancelled">>]
  /\ hist' = Append(hist, <<"cancel", o>>)
  /\ UNCHANGED <<loaded, cache, obtained, busy, tick, rpcLog>>

Key(t, p) == <<"key", t, p>>

ResultOf(op) ==
  LET e == op.env
  IN IF e.src = "err" THEN <<"dc_error">>
     ELSE IF op.kind = "unprotect"
       THEN IF e.src = "pub" THEN <<"unauthorized">>
            ELSE IF e.id = <<op.rk, op.sd, op.l0>> /\ PosGeq(e.pos, op.pos)
                   THEN <<"plain", Key(e.id, op.pos)>>
                   ELSE <<"BAD">>
       ELSE \* protect: the blob names a position and is wrapped under the key of that position
            IF op.rpc THEN <<"blob", e.id, e.pos, Key(e.id, e.pos)>>
            ELSE IF e.id = <<op.rk, op.sd, op.at[1]>> /\ PosGeq(e.pos, op.at[2])
                   THEN <<"blob", e.id, op.at[2], Key(e.id, op.at[2])>>
                   ELSE <<"BAD">>

Finish(o) ==
  /\ CanStep(o)
  /\ ops[o].st = "replied"
  /\ LET op == ops[o]
         e == op.env
         storing == e.src = "rpc" /\ op.rpc
     IN /\ cache' = IF storing THEN StoreIn(cache, e) ELSE cache
        /\ obtained' = IF storing THEN ObtainIn(obtained, e) ELSE obtained
        /\ ops' = [ops EXCEPT ![o].st = "done", ![o].res = ResultOf(op)]
        /\ hist' = Append(hist, <<"finish", o>>)
  /\ busy' = "none"
  /\ UNCHANGED <<loaded, tick, rpcLog>>

Next == \/ Tick
        \/ \E rk \in RootKeys : LoadRoot(rk)
        \/ \E o \in Ops : Begin(o) \/ DcReply(o) \/ Finish(o) \/ Cancel(o)

Spec == Init /\ [][Next]_vars /\ \A o \in Ops : WF_vars(DcReply(o)) /\ WF_vars(Finish(o))

AllDone == \A o \in Ops : ops[o].st \in {"idle", "done"}

(* ---- properties ------------------------------------------------------------- *)
TypeOK ==
  /\ loaded \subseteq RootKeys
  /\ \A t \in Triples : cache[t].src \in {"none", "root", "rpc"}
  /\ \A o \in Ops : ops[o].st \in {"idle", "await", "replied", "done"}

(* whatever is handed to Finish for decryption covers the requested position on   *)
(* the right triple, so the derivation of C02 terminates with the right key        *)
EnvCovers ==
  \A o \in Ops : (ops[o].st = "replied" /\ ops[o].kind = "unprotect" /\ ops[o].env.src # "pub")
                   => (ops[o].env.id = <<ops[o].rk, ops[o].sd, ops[o].l0>> /\ PosGeq(ops[o].env.pos, ops[o].pos))

(* results are those of a fresh cache: the canonical key of the named position      *)
Transparent ==
  \A o \in Ops : ops[o].st = "done" =>
     LET op == ops[o] r == op.res
     IN /\ r # <<"BAD">>
        /\ (op.kind = "unprotect" /\ r[1] = "plain") => r[2] = Key(<<op.rk, op.sd, op.l0>>, op.pos)
        /\ (r[1] = "unauthorized") => op.env.src = "pub"
        /\ (r[1] = "dc_error") => op.env.src = "err"
        /\ (r[1] = "blob") => (r[4] = Key(r[2], r[3]) /\ r[2][2] = op.sd /\ (op.rk # NoRk => r[2][1] = op.rk)
                               /\ r[2][3] = op.at[1] /\ r[3] = op.at[2])   \* the interval of the instant the key was chosen

(* once material covering p has been obtained for a triple by a completed call,      *)
(* later calls at or before p on that triple do not contact the DC                   *)
NoRepeatRpc ==
  [][\A o \in Ops :
       (ops[o].st = "idle" /\ ops'[o].st = "await") =>
          LET op == ops'[o]
          IN IF op.kind = "unprotect" THEN ~ObtainedCovers(<<op.rk, op.sd, op.l0>>, op.pos)
             ELSE (op.rk # NoRk => ~ObtainedCovers(<<op.rk, op.sd, NowL0>>, NowPos))]_vars

(* a call for a root key that was loaded when it began is answered from that key: it decrypts  *)
RootKeyDecrypts ==
  \A o \in Ops : (ops[o].st = "done" /\ ops[o].kind = "unprotect" /\ ops[o].hadRoot) => ops[o].res[1] = "plain"

(* with a loaded root key nothing goes to the DC for that key                         *)
RootKeyIsOffline ==
  [][\A o \in Ops : (ops[o].st = "idle" /\ ops'[o].st = "await") => ops'[o].rk \notin loaded]_vars

(* a call that failed, was refused the seed keys or was cancelled leaves the cache as it was               *)
FailedCallsLeaveCacheUnchanged ==
  [][\A o \in Ops : (ops[o].st # "done" /\ ops'[o].st = "done" /\ ops'[o].res[1] \in {"dc_error", "unauthorized", "cancelled"})
        => (cache' = cache /\ obtained' = obtained)]_vars

CacheMonotone ==
  [][\A t \in Triples : cache[t].src # "none" => (cache'[t].src # "none" /\ PosGeq(cache'[t].pos, cache[t].pos))]_vars

CacheWellFormed ==
  \A t \in Triples : cache[t].src # "none" =>
     /\ cache[t].src \in {"root", "rpc"}      \* never an envelope without seed material (public key only, failure)
     /\ cache[t].id = t
     /\ cache[t].src = "root" => (t[1] \in loaded /\ cache[t].pos = TopPos)
     /\ Nameable(t[3], cache[t].pos) \/ cache[t].src = "root"

ObtainedIsCached ==
  \A t \in Triples : obtained[t] # NoPos => (cache[t].src # "none" /\ PosGeq(cache[t].pos, obtained[t]))

EventuallyDone == []<>AllDone
=============================================================================
