CONSTANTS MaxLen = 3
          EmitFrom = 1
INIT Init
NEXT Next
INVARIANT RefIsBest
INVARIANT PermutationInvariant
CONSTRAINT Emit
CHECK_DEADLOCK FALSE
