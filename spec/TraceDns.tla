------------------------------ MODULE TraceDns ------------------------------
(* Case traces for C20.  One line = one answer sequence given (through the     *)
(* resolver taps) to the real dpapi_ng._dns.lookup_dc and async_lookup_dc for   *)
(* one domain setting:                                                          *)
(*   domain   code points of the domain argument, <<>> when none was given      *)
(*   answers  the SRV rdata handed to the code: [prio, weight, port, target]    *)
(*   s, a     what the sync / async flavour did:                                *)
(*            [n      |-> number of resolver calls,                             *)
(*             qname  |-> owner name asked (code points), rdtype |-> "SRV",...  *)
(*             search |-> "true" | "false" | "absent",                          *)
(*             out    |-> "record" | exception type,                            *)
(*             res    |-> [prio, weight, port, target] (when out = "record")]   *)
(* TLC evaluates Dns.tla's QueryName / IsBest on each line.                     *)
EXTENDS Dns, TLC, Json, IOUtils, FiniteSetsExt
VARIABLE dummy
TInit == dummy = 0
TNext == UNCHANGED dummy

WellFormedLine(ln) ==
  /\ Len(ln.answers) >= 1
  /\ \A i \in 1 .. Len(ln.answers) :
        /\ ln.answers[i].prio \in 0 .. 65535 /\ ln.answers[i].weight \in 0 .. 65535
        /\ ln.answers[i].port \in 0 .. 65535 /\ Len(ln.answers[i].target) >= 1

(* why a returned record is not acceptable                                      *)
WhyNotBest(r, A) ==
  IF IsBest(r, A) THEN {}
  ELSE IF \E i \in 1 .. Len(A) : r = StripRec(A[i])
       THEN (IF \E j \in 1 .. Len(A) : A[j].prio < r.prio
               THEN {"result_is_not_lowest_priority"}
               ELSE {"result_is_not_highest_weight_among_lowest_priority"})
  ELSE IF \E i \in 1 .. Len(A) : r = A[i] THEN {"trailing_dot_not_removed"}
  ELSE IF \E i \in 1 .. Len(A) : r.target \in {A[i].target, Strip(A[i].target)}
       THEN {"port_weight_or_priority_altered"}
  ELSE {"result_is_not_a_record_of_the_answer"}

(* the resolver reported NXDOMAIN / no answer for the first query: the lookup fails and no other name is asked for *)
FailureFails(ln, f, sfx) ==
  IF f.n = 0 THEN {"no_srv_query_made" \o sfx}
  ELSE (IF \E i \in 1 .. Len(f.qnames) : f.qnames[i] # QueryName(ln.domain)
          THEN {"asks_for_another_name_after_the_locator_name_failed" \o sfx} ELSE {})
       \cup (IF f.out = "record" THEN {"failed_lookup_returns_a_record" \o sfx} ELSE {})

FlavourFails(ln, f, sfx) ==
  IF ln.fail # "none" THEN FailureFails(ln, f, sfx)
  ELSE IF f.n = 0 THEN {"no_srv_query_made" \o sfx}
  ELSE
    (IF f.qname # QueryName(ln.domain) THEN {"query_name_is_not_the_dc_locator_name" \o sfx} ELSE {})
    \cup (IF f.rdtype # "SRV" THEN {"query_type_is_not_SRV" \o sfx} ELSE {})
    \cup (IF NeedsSearchList(ln.domain) /\ f.search # "true"
            THEN {"bare_prefix_not_resolved_through_search_list" \o sfx} ELSE {})
    \cup (IF f.out # "record" THEN {"lookup_failed_on_nonempty_answer" \o sfx}
          ELSE {c \o sfx : c \in WhyNotBest(f.res, ln.answers)})

Fails(ln) ==
  IF ~WellFormedLine(ln) THEN {"MACHINERY_bad_line"}
  ELSE FlavourFails(ln, ln.s, "") \cup FlavourFails(ln, ln.a, "_async")
       \cup (IF ln.s.out = "record" /\ ln.a.out = "record" /\ ln.s.res # ln.a.res
               THEN {"sync_and_async_disagree"} ELSE {})
       \cup (IF ln.s.n >= 1 /\ ln.a.n >= 1 /\ (ln.s.qname # ln.a.qname \/ ln.s.rdtype # ln.a.rdtype)
               THEN {"sync_and_async_ask_different_names"} ELSE {})

TieBreakDiffers(ln) ==
  WellFormedLine(ln) /\ ln.s.out = "record" /\ IsBest(ln.s.res, ln.answers) /\ ln.s.res # RefChoice(ln.answers)

Result ==
  LET L == ndJsonDeserialize(IOEnv.TRACE_FILE)
      N == Len(L)
      F == [i \in 1 .. N |-> Fails(L[i])]
  IN <<"RESULT",
       [n |-> N,
        ties |-> Cardinality({i \in 1 .. N : WellFormedLine(L[i]) /\ Cardinality(BestIdx(L[i].answers)) > 1}),
        tiebreak_differs |-> Cardinality({i \in 1 .. N : TieBreakDiffers(L[i])}),
        extra_queries |-> Cardinality({i \in 1 .. N : L[i].s.n > 1 \/ L[i].a.n > 1})],
       {<<L[i].id, F[i]>> : i \in {j \in 1 .. N : F[j] # {}}}>>
ASSUME PrintT(Result)
=============================================================================
