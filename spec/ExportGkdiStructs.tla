-------------------------- MODULE ExportGkdiStructs --------------------------
(* Renders, with the layouts of GkdiStructs.tla, the bytes that are fed to the   *)
(* real decoders in C11: for every case of IN_FILE (ndjson) the encoding of its  *)
(* fields -- for the GetKey stubs with the filler / referent bytes chosen by the *)
(* case -- is written to OUT_FILE as {id, bytes}.  The replay driver therefore   *)
(* holds no encoder of its own.                                                  *)
EXTENDS GkdiStructs, TLC, Json, IOUtils
VARIABLE dummy
XInit == dummy = 0
XNext == UNCHANGED dummy

Render(ln) ==
  CASE ln.kind = "kid"  -> KidPack(ln.x)
    [] ln.kind = "env"  -> EnvPack(ln.x)
    [] ln.kind = "kdf"  -> KdfPack(ln.x)
    [] ln.kind = "ffcp" -> FfcParamsPack(ln.x)
    [] ln.kind = "ffck" -> FfcKeyPack(ln.x)
    [] ln.kind = "ecdh" -> EcdhPack(ln.x)
    [] ln.kind = "req"  -> ReqRender(ln.x, ln.fill4, ln.fillp, ln.ref)
    [] ln.kind = "resp" -> RespRender(EnvPack(ln.x), ln.fill4, ln.ref, ln.fillq, ln.hresult)

Out ==
  LET L == ndJsonDeserialize(IOEnv.IN_FILE)
  IN [i \in 1 .. Len(L) |-> [id |-> L[i].id, bytes |-> Render(L[i])]]
ASSUME ndJsonSerialize(IOEnv.OUT_FILE, Out)
ASSUME PrintT(<<"EXPORTED", IOEnv.OUT_FILE>>)
=============================================================================
