CONSTANT MaxStub = 1
CONSTANT VtLens <- T_Vt
CONSTANT SigLens <- T_Sig
CONSTANT MaxReply = 1
INIT TInit
NEXT TNext
