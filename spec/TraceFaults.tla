---------------------------- MODULE TraceFaults ----------------------------
(* One line per scenario of harness/faultsim.py: a protect / unprotect call  *)
(* through the public API whose peer commits fault (step, kind), followed by *)
(* the same call against a healthy peer with the same KeyCache.              *)
(*   res / retry   "ok" | "wrong" | "error" | "hang"                          *)
(*   injected      the fault was actually delivered (else: harness problem)   *)
(*   leaked        connections the first call left open                       *)
(*   getkeys / retryGetkeys   GetKey requests that reached the DC             *)
(* Expected values come from OnlineFaults' table; clause names carry the      *)
(* property whose statement they instantiate (EXT = extended behaviour).      *)
EXTENDS OnlineFaults, Json, IOUtils, FiniteSetsExt
TInit == Init
TNext == UNCHANGED vars

PropOf(step, kind) ==
  CASE kind = "eof" -> "C14"
    [] step \in {"bind1", "bind2", "alter"} -> "C15"
    [] step = "eptmap" /\ kind \in {"no_towers", "no_tcp_floor", "status"} -> "C18"
    [] OTHER -> "EXT"

Fails(ln) ==
  LET f == <<ln.step, ln.kind>>
      p == PropOf(ln.step, ln.kind)
  IN (IF ~ln.injected THEN {"MACHINERY_fault_not_injected"} ELSE {})
     \cup (IF ln.step \notin AllSteps \/ ln.kind \notin Kinds(ln.step) THEN {"MACHINERY_unknown_fault"} ELSE {})
     \cup (IF ln.res = "hang" THEN {(IF p = "C14" THEN "C14_connection_ended_early_but_the_call_never_returns" ELSE "C10_call_does_not_terminate")} ELSE {})
     \cup (IF ln.res \in {"ok", "wrong"} /\ Outcome(f) = "error"
             THEN {CASE p = "C14" -> "C14_connection_ended_early_is_not_an_error"
                     [] p = "C15" -> "C15_rejection_during_binding_is_ignored"
                     [] p = "C18" -> "C18_ept_map_reply_without_usable_tower_is_not_an_error"
                     [] OTHER -> "EXT_peer_fault_does_not_surface_as_error"} ELSE {})
     \cup (IF ln.retry = "hang" THEN {"C10_call_does_not_terminate"} ELSE {})
     \cup (IF ln.retry \in {"wrong", "error"} THEN {"C10_call_after_failed_call_differs_from_fresh_cache"} ELSE {})
     \cup (IF ln.leaked # 0 \/ ln.retryLeaked # 0 THEN {"EXT_connection_left_open"} ELSE {})
     \cup (IF ln.getkeys # ReachesDc("empty", f) THEN {"EXT_getkey_requests_reaching_dc_differ"} ELSE {})
     \cup (IF ln.retry = "ok" /\ ln.retryGetkeys # ReachesDc(IF StoresKey(f) THEN "key" ELSE "empty", NoFault)
             THEN {"EXT_failed_call_left_something_in_the_cache"} ELSE {})

Result ==
  LET L == ndJsonDeserialize(IOEnv.TRACE_FILE)
      N == Len(L)
      F == [k \in 1 .. N |-> Fails(L[k])]
  IN <<"RESULT", [n |-> N], {<<L[k].id, F[k]>> : k \in {j \in 1 .. N : F[j] # {}}}>>
ASSUME PrintT(Result)
=============================================================================
