CONSTANT MinTowers = 0
CONSTANT MaxTowers = 3
CONSTANT AdvMax = 2
SPECIFICATION Spec
INVARIANT IterationsBounded
INVARIANT WellFormedIsDecoded
INVARIANT AbsurdCountIsRejected
INVARIANT Aligned
INVARIANT PortRule
PROPERTY Terminates
INVARIANT EmitCase
