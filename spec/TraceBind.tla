----------------------------- MODULE TraceBind -----------------------------
(***************************************************************************)
(* Trace validation for C15.  One line = one execution of the real client  *)
(* (whole public API or SyncRpcClient/AsyncRpcClient) against a scripted   *)
(* server with a scripted authentication provider installed at the         *)
(* spnego.client boundary:                                                 *)
(*   prov    the provider script          script  the server's responses   *)
(*   sent    PDUs decoded at the server: type, tok (-1 none, 0 empty),     *)
(*           sign (PFC_SUPPORT_HEADER_SIGN), ctxs                          *)
(*   steps   provider calls: tin (-1 = no argument), out, wasComplete      *)
(*   wrapSign  sign_header used when sealing the request ("none" if no     *)
(*           request was sealed)                                           *)
(*   end     "done" | "error"                                              *)
(* Clauses are the statement's; the comparison with RpcBind's React fold   *)
(* is reported separately as drift.                                        *)
(***************************************************************************)
EXTENDS RpcBind, Json, IOUtils, FiniteSetsExt, SequencesExt
T_Codes == {"acc"}
T_Toks == {0}
TInit == Init
TNext == UNCHANGED vars

RECURSIVE Fold(_, _, _, _)
Fold(s, p, scr, i) == IF i > Len(scr) \/ Terminal(s) THEN s ELSE Fold(React(s, p, scr[i]), p, scr, i + 1)

Delivered(ln) == SubSeq(ln.script, 1, ln.delivered)
AckToksOf(ln) == LET a == SelectSeq(Delivered(ln), LAMBDA r : r.k = "ack") IN [i \in 1 .. Len(a) |-> a[i].tok]
AuthPdus(ln) == SelectSeq(ln.sent, LAMBDA p : p.type \in {"bind", "alter"})
SentToks(ln) == LET a == SelectSeq(AuthPdus(ln), LAMBDA p : p.tok > 0) IN [i \in 1 .. Len(a) |-> a[i].tok]
ProvToks(ln) == LET a == SelectSeq(ln.steps, LAMBDA x : x.out > 0) IN [i \in 1 .. Len(a) |-> a[i].out]
Requests(ln) == SelectSeq(ln.sent, LAMBDA p : p.type = "request")
FirstAck(ln) == LET a == SelectSeq(Delivered(ln), LAMBDA r : r.k = "ack") IN IF Len(a) = 0 THEN [res |-> <<"none", "none">>, sign |-> FALSE] ELSE a[1]
Rejected(ln) ==
  \/ \E j \in 1 .. ln.delivered : ln.script[j].k \in {"nak", "fault", "eof"}
  \/ \E j \in 1 .. ln.delivered : ln.script[j].k = "wrongack" /\ (Len(Requests(ln)) = 0 \/ j < ln.delivered)     \* an ack of the wrong type during binding
  \/ \E j \in 1 .. ln.delivered : ln.script[j].k = "response" /\ (Len(Requests(ln)) = 0 \/ j < ln.delivered)
  \/ (Len(SelectSeq(Delivered(ln), LAMBDA r : r.k = "ack")) > 0 /\ FirstAck(ln).res[1] # "acc")
Consistent(ln) == \A i, j \in 1 .. ln.delivered :
                    (ln.script[i].k = "ack" /\ ln.script[j].k = "ack") => ln.script[i].sign = ln.script[j].sign
ClientAdvertised(ln) == Len(ln.sent) > 0 /\ ln.sent[1].sign
(* the provider stopped the handshake itself by yielding an empty token while incomplete: *)
(* what follows is outside the statement                                                  *)
DontCare(ln) == \E i \in 1 .. Len(ln.steps) : ln.steps[i].out = 0 /\ ~ln.steps[i].completeAfter

Fails(ln) ==
  (IF SentToks(ln) # ProvToks(ln) THEN {"provider_tokens_sent_exactly_once_in_order"} ELSE {})
  \cup (IF ln.prov.auth /\ \E i \in 1 .. Len(AuthPdus(ln)) : AuthPdus(ln)[i].type = "alter" /\ AuthPdus(ln)[i].tok <= 0
          THEN {"alter_context_sent_without_a_provider_token"} ELSE {})
  \cup (IF \E i \in 1 .. Len(AuthPdus(ln)) : (AuthPdus(ln)[i].type = "bind") # (i = 1)
          THEN {"first_token_in_bind_then_alter_context"} ELSE {})
  \cup (IF ln.prov.auth /\ Len(ln.steps) > 0 /\
           (ln.steps[1].tin # -1 \/ \E i \in 2 .. Len(ln.steps) :
               i - 1 > Len(AckToksOf(ln)) \/ ln.steps[i].tin # AckToksOf(ln)[i - 1])
          THEN {"server_tokens_fed_back_in_order"} ELSE {})
  \cup (IF \E i \in 1 .. Len(ln.steps) : ln.steps[i].wasComplete THEN {"stops_when_context_complete"} ELSE {})
  \cup (IF ~DontCare(ln) /\ Len(Requests(ln)) > 0 /\ ln.prov.auth /\ ln.steps[Len(ln.steps)].completeAfter = FALSE
          THEN {"request_before_context_complete"} ELSE {})
  \cup (IF Len(Requests(ln)) > 0 /\ (\E i \in 1 .. Len(Requests(ln)) : \E j \in 1 .. Len(Requests(ln)[i].ctxs) :
                                        Requests(ln)[i].ctxs[j] \notin Accepted(FirstAck(ln).res, {0, 1}))
          THEN {"request_only_on_accepted_context"} ELSE {})
  \cup (IF ~DontCare(ln) /\ ln.wrapSign = "true" /\ ~(ClientAdvertised(ln) /\ FirstAck(ln).sign)
          THEN {"header_signing_only_if_both_advertised"} ELSE {})
  \cup (IF ~DontCare(ln) /\ Consistent(ln) /\ ln.wrapSign = "false" /\ ClientAdvertised(ln) /\ FirstAck(ln).sign
          THEN {"header_signing_used_when_both_advertised"} ELSE {})
  \cup (IF Rejected(ln) /\ ln.end # "error" THEN {"rejection_must_surface_as_error"} ELSE {})
  \cup (IF ln.end = "hang" THEN {"handshake_must_terminate"} ELSE {})
  (* the server accepted at every step (nothing in Rejected was delivered), the provider still had tokens to exchange or *)
  (* the request to make, and RpcBind's client would have carried on - but the real client gave up: the server's token  *)
  (* was not fed back / the remaining tokens were not sent although the context was incomplete                           *)
  \cup (IF ~DontCare(ln) /\ ~Rejected(ln) /\ ln.end = "error"
           /\ Fold(Start(ln.prov), ln.prov, Delivered(ln), 1).pc # "error"
          THEN {"handshake_abandoned_although_the_server_accepted"} ELSE {})
  (* extended behaviour, beyond the listed property: reported as drift *)
  \cup (IF ~ln.allClosed THEN {"EXT_every_connection_is_closed_whatever_the_outcome"} ELSE {})
  \cup (IF ~ln.ctxReqOK THEN {"EXT_security_context_for_host_service_of_the_server_with_dce_style"} ELSE {})

Drift(ln) ==
  LET f == Fold(Start(ln.prov), ln.prov, ln.script, 1)
  IN ~DontCare(ln) /\ (f.pc # ln.end \/ Len(f.sent) # Len(ln.sent))

Result ==
  LET L == ndJsonDeserialize(IOEnv.TRACE_FILE)
      N == Len(L)
      F == [i \in 1 .. N |-> Fails(L[i])]
  IN <<"RESULT", [n |-> N, drift |-> Cardinality({i \in 1 .. N : Drift(L[i])})],
       {<<L[i].id, F[i]>> : i \in {j \in 1 .. N : F[j] # {}}}>>
ASSUME PrintT(Result)
=============================================================================
