CONSTANT Fan = 32
CONSTANT EnvPositions <- MC_EnvEdge
CONSTANT Requests <- MC_ReqAll
CONSTANT L0Offsets <- MC_L0Offsets
INIT Init
NEXT Next
INVARIANT TypeOK
INVARIANT ResultIsRequested
INVARIANT NeverGarbage
INVARIANT RejectIffNotCovered
INVARIANT OtherL0Rejected
INVARIANT BoundedKdf
INVARIANT CoverIsDerivable
INVARIANT CountersInLattice
INVARIANT MinimalWork
PROPERTY StepsAreEdges
CHECK_DEADLOCK FALSE
