------------------------------- MODULE Gkdi -------------------------------
(***************************************************************************)
(* The L2-key derivation algorithm of dpapi-ng (compute_l2_key) as a step  *)
(* machine over the derivation graph: one action per control-flow step of  *)
(* the code, one KDF application per key-changing step, an explicit Reject *)
(* step for requests the envelope does not cover or that are out of range. *)
(*                                                                         *)
(* A scaled clock (ticks of one L2 interval each = TicksPerL2 sub-ticks)   *)
(* with a Protect-naming action is included for the "names the interval    *)
(* containing now" property (MC_GkdiClock).                                *)
(***************************************************************************)
EXTENDS GkdiGraph, TLC

CONSTANTS EnvPositions,   \* set of <<a, b>> envelope positions explored
          Requests,       \* set of <<r1, r2>> requested positions explored (may be out of range)
          L0Offsets       \* requested L0 minus the L0 of the seed material (0 = same L0 interval)

VARIABLES dl0, env, r1, r2, pc, cl1, cl2, k1, k2, reseed, calls

vars == <<dl0, env, r1, r2, pc, cl1, cl2, k1, k2, reseed, calls>>

StartEnvs == UNION {Shapes(p[1], p[2]) : p \in EnvPositions} \cup {RootEnv}

(* seed material of another L0 interval covers nothing: the hierarchies of two L0s are unrelated *)
CoversReq == dl0 = 0 /\ Covers(env, r1, r2)

Init ==
  /\ dl0 \in L0Offsets
  /\ env \in StartEnvs
  /\ \E q \in Requests : r1 = q[1] /\ r2 = q[2]
  /\ pc = "start"
  /\ cl1 = env.a /\ cl2 = env.b
  /\ k1 = env.l1 /\ k2 = env.l2
  /\ reseed = FALSE
  /\ calls = 0

(* range + coverage check (intended behaviour; the statement of C02 says    *)
(* "reports an error; it neither returns a key nor loops")                  *)
Start ==
  /\ pc = "start"
  /\ IF CoversReq
       THEN /\ pc' = "adjust"
            /\ reseed' = (env.b = Top \/ env.a # r1)
       ELSE /\ pc' = "reject"
            /\ UNCHANGED reseed
  /\ UNCHANGED <<dl0, env, r1, r2, cl1, cl2, k1, k2, calls>>

(* "if l2 != 31 and l1 != request_l1: l1 -= 1"  (l1_key is for a-1)          *)
Adjust ==
  /\ pc = "adjust"
  /\ cl1' = IF env.b # Top /\ env.a # r1 THEN cl1 - 1 ELSE cl1
  /\ pc' = "l1walk"
  /\ UNCHANGED <<dl0, env, r1, r2, cl2, k1, k2, reseed, calls>>

(* "while l1 != request_l1: l1 -= 1; l1_key = kdf(l1_key, ctx(l0, l1, -1))"  *)
L1Step ==
  /\ pc = "l1walk"
  /\ cl1 # r1
  /\ cl1' = cl1 - 1
  /\ k1' = Derive(k1, cl1 - 1, -1)          \* the KDF is applied to the key in hand with the counter's context
  /\ calls' = calls + 1
  /\ UNCHANGED <<dl0, env, r1, r2, pc, cl2, k2, reseed>>

L1Done ==
  /\ pc = "l1walk"
  /\ cl1 = r1
  /\ pc' = "reseed"
  /\ UNCHANGED <<dl0, env, r1, r2, cl1, cl2, k1, k2, reseed, calls>>

(* "if reseed_l2: l2 = 31; l2_key = kdf(l1_key, ctx(l0, l1, 31))"            *)
Reseed ==
  /\ pc = "reseed"
  /\ IF reseed
       THEN /\ cl2' = Top
            /\ k2' = Derive(k1, cl1, Top)
            /\ calls' = calls + 1
       ELSE UNCHANGED <<cl2, k2, calls>>
  /\ pc' = "l2walk"
  /\ UNCHANGED <<dl0, env, r1, r2, cl1, k1, reseed>>

(* "while l2 != request_l2: l2 -= 1; l2_key = kdf(l2_key, ctx(l0, l1, l2))"  *)
L2Step ==
  /\ pc = "l2walk"
  /\ cl2 # r2
  /\ cl2' = cl2 - 1
  /\ k2' = Derive(k2, cl1, cl2 - 1)
  /\ calls' = calls + 1
  /\ UNCHANGED <<dl0, env, r1, r2, pc, cl1, k1, reseed>>

L2Done ==
  /\ pc = "l2walk"
  /\ cl2 = r2
  /\ pc' = "done"
  /\ UNCHANGED <<dl0, env, r1, r2, cl1, cl2, k1, k2, reseed, calls>>

Next == Start \/ Adjust \/ L1Step \/ L1Done \/ Reseed \/ L2Step \/ L2Done

Spec == Init /\ [][Next]_vars /\ WF_vars(Next)

Terminal == pc \in {"done", "reject"}

(* ---- properties ---------------------------------------------------------- *)
TypeOK ==
  /\ pc \in {"start", "adjust", "l1walk", "reseed", "l2walk", "done", "reject"}
  /\ k1 \in Nodes \cup {None, Garbage} /\ k2 \in Nodes \cup {None, Garbage}
  /\ calls \in 0 .. MaxKdfCalls

(* the key returned is the key requested                                     *)
ResultIsRequested == pc = "done" => k2 = L2(r1, r2)

(* error exactly when the seed material does not cover the request            *)
RejectIffNotCovered == Terminal => (pc = "reject" <=> ~CoversReq)

(* seed material of another L0 interval never yields a key (stated independently of CoversReq) *)
OtherL0Rejected == (Terminal /\ dl0 # 0) => pc = "reject"

(* bounded work                                                              *)
BoundedKdf == calls <= MaxKdfCalls

(* the walk never leaves the lattice (the pinned code counts down past 0)     *)
CountersInLattice == pc \notin {"start", "reject"} => (cl1 \in -1 .. Top /\ cl2 \in 0 .. Top)

(* every key-changing step is one edge of the derivation graph, taken from a  *)
(* key that is actually in hand                                              *)
NeverGarbage == k1 # Garbage /\ k2 # Garbage
StepsAreEdges ==
  [][ /\ (k1' # k1 => (k1 # None /\ k1' # Garbage /\ Parent(k1') = k1))
      /\ (k2' # k2 => (k2' # Garbage /\ ((Parent(k2') = k2 /\ k2 # None) \/ (Parent(k2') = k1 /\ k1 # None))))
      /\ ((k1' # k1 \/ k2' # k2) => calls' = calls + 1)
      /\ calls' \in {calls, calls + 1} ]_vars

(* at most one KDF application more than the shortest walk (the reseed from   *)
(* L1(a) when the envelope at b = Top also carried L2(a, Top))                *)
MinimalWork == pc = "done" => calls <= MinSteps(env, r1, r2) + 1

(* the cover test is exactly reachability in the derivation graph (checked on  *)
(* every initial state so that TLC's workers share the work)                  *)
CoverIsDerivable == pc = "start" => (Covers(env, r1, r2) <=> Derivable(env, r1, r2))

Terminates == <>Terminal

=============================================================================
