---- MODULE T ----
(***************************************************************************)
(* ASN.1 DER (X.690) as constant-level operators over Seq(0..255).         *)
(*                                                                         *)
(* A *value* is a record                                                   *)
(*   [k, cls, pc, num, ...]   cls 0..3 (universal, application, context,   *)
(*                            private), pc 0/1 (primitive/constructed bit  *)
(*                            of the identifier octet), num = tag number   *)
(*   k = "int"  : neg (BOOLEAN), mag (big-endian magnitude bytes, minimal, *)
(*                <<>> for zero)        -- integers of any size            *)
(*   k = "bool" : b                                                        *)
(*   k = "oid"  : arcs, each arc a big-endian base-128 digit sequence      *)
(*                (minimal, <<0>> for zero) -- arcs of any size            *)
(*   k = "oct"  : bytes                 -- OCTET STRING or any raw content *)
(*   k = "utf8" : cps (code points)     -- UTF8String, GeneralizedTime ... *)
(*   k = "cons" : kids (values)         -- SEQUENCE / SET / explicit tags  *)
(* DerEnc(v) is *the* DER encoding (definite minimal length, minimal       *)
(* integer and sub-identifier octets).  DerDec(ty, b) is a strict,         *)
(* type-directed decoder: it returns <<value, octets consumed>> or         *)
(* <<DerErr, 0>> for anything that is not the minimal encoding of a value  *)
(* of type ty at the head of b.  Lengths and tag numbers are TLC integers  *)
(* (< 2^31); integer magnitudes and OID arcs are digit sequences.          *)
(* No zero-arity definition here is expensive (TLC evaluates them all).    *)
(***************************************************************************)
EXTENDS Integers, Sequences, FiniteSets

Byte == 0 .. 255
SMin(S) == CHOOSE x \in S : \A y \in S : x <= y
SMax(S) == CHOOSE x \in S : \A y \in S : y <= x
Fill(b, n) == [i \in 1 .. n |-> b]

RECURSIVE Cat(_)
Cat(ss) == IF ss = <<>> THEN <<>> ELSE Head(ss) \o Cat(Tail(ss))

(* big-endian digits of a natural number in base B (at least one digit) *)
RECURSIVE Digits(_, _)
Digits(n, B) == IF n < B THEN <<n>> ELSE Digits(n \div B, B) \o <<n % B>>

RECURSIVE FromDigits(_, _)
FromDigits(d, B) == IF d = <<>> THEN 0 ELSE FromDigits(SubSeq(d, 1, Len(d) - 1), B) * B + d[Len(d)]

AllZero(s) == \A i \in 1 .. Len(s) : s[i] = 0
StripZeros(s) == IF AllZero(s) THEN <<>> ELSE SubSeq(s, SMin({i \in 1 .. Len(s) : s[i] # 0}), Len(s))
NormDigits(d) == IF AllZero(d) THEN <<0>> ELSE StripZeros(d)

(*************************** identifier octets ****************************)
ContBits(d) == [i \in 1 .. Len(d) |-> IF i < Len(d) THEN d[i] + 128 ELSE d[i]]
IdOctets(cls, pc, num) ==
  IF num < 31 THEN <<cls * 64 + pc * 32 + num>>
  ELSE <<cls * 64 + pc * 32 + 31>> \o ContBits(Digits(num, 128))

(***************************** length octets ******************************)
LenOctets(n) == IF n < 128 THEN <<n>> ELSE LET d == Digits(n, 256) IN <<128 + Len(d)>> \o d

MinimalLenOctets(lo) ==
  \/ Len(lo) = 1 /\ lo[1] < 128
  \/ /\ Len(lo) >= 2 /\ lo[1] = 128 + Len(lo) - 1
     /\ lo[2] # 0
     /\ (Len(lo) = 2 => lo[2] >= 128)

(******************************** INTEGER *********************************)
(* two's complement of a non-zero byte string over its own width *)
Neg2c(m) ==
  LET n == Len(m)
      p == SMax({i \in 1 .. n : m[i] # 0})
  IN [i \in 1 .. n |-> IF i < p THEN 255 - m[i] ELSE IF i = p THEN 256 - m[i] ELSE 0]

WfInt(neg, mag) == /\ \A i \in 1 .. Len(mag) : mag[i] \in Byte
                   /\ (mag # <<>> => mag[1] # 0)
                   /\ (neg => mag # <<>>)

IntContent(neg, mag) ==
  IF mag = <<>> THEN <<0>>
  ELSE IF ~neg THEN (IF mag[1] >= 128 THEN <<0>> \o mag ELSE mag)
  ELSE LET t == Neg2c(mag) IN IF t[1] >= 128 THEN t ELSE <<255>> \o t

(* no redundant leading 0x00 / 0xFF octet *)
IntMinimal(c) ==
  /\ Len(c) >= 1
  /\ (Len(c) >= 2 => ~((c[1] = 0 /\ c[2] < 128) \/ (c[1] = 255 /\ c[2] >= 128)))

IntValue(c) == IF c[1] < 128 THEN [neg |-> FALSE, mag |-> StripZeros(c)]
               ELSE [neg |-> TRUE, mag |-> StripZeros(Neg2c(c))]

(* small TLC integers <-> sign/magnitude *)
SM(i) == IF i = 0 THEN [neg |-> FALSE, mag |-> <<>>]
         ELSE IF i > 0 THEN [neg |-> FALSE, mag |-> Digits(i, 256)]
         ELSE [neg |-> TRUE, mag |-> Digits(0 - i, 256)]

(*************************** OBJECT IDENTIFIER ****************************)
RECURSIVE AddSmall(_, _)     \* base-128 digits + small constant
AddSmall(d, c) ==
  IF c = 0 THEN d
  ELSE IF d = <<>> THEN <<c>>
  ELSE LET n == Len(d)
           s == d[n] + c
       IN AddSmall(SubSeq(d, 1, n - 1), s \div 128) \o <<s % 128>>

RECURSIVE SubSmall(_, _)     \* base-128 digits - small constant (result >= 0 assumed)
SubSmall(d, c) ==
  IF c = 0 THEN d
  ELSE LET n == Len(d)
       IN IF d[n] >= c THEN SubSeq(d, 1, n - 1) \o <<d[n] - c>>
          ELSE SubSmall(SubSeq(d, 1, n - 1), 1) \o <<d[n] + 128 - c>>

WfArc(a) == /\ Len(a) >= 1 /\ \A i \in 1 .. Len(a) : a[i] \in 0 .. 127
            /\ (Len(a) > 1 => a[1] # 0)
WfOid(arcs) ==
  /\ Len(arcs) >= 2 /\ \A i \in 1 .. Len(arcs) : WfArc(arcs[i])
  /\ arcs[1] \in {<<0>>, <<1>>, <<2>>}
  /\ (arcs[1] # <<2>> => Len(arcs[2]) = 1 /\ arcs[2][1] < 40)

FirstSubId(arcs) == NormDigits(AddSmall(arcs[2], 40 * arcs[1][1]))
OidContent(arcs) ==
  ContBits(FirstSubId(arcs)) \o Cat([i \in 1 .. Len(arcs) - 2 |-> ContBits(arcs[i + 2])])

RECURSIVE SplitSubIds(_)     \* content whose last octet is < 128 -> digit sequences
SplitSubIds(c) ==
  IF c = <<>> THEN <<>>
  ELSE LET e == SMin({i \in 1 .. Len(c) : c[i] < 128})
       IN <<[i \in 1 .. e |-> c[i] % 128]>> \o SplitSubIds(SubSeq(c, e + 1, Len(c)))

OidContentOk(c) ==
  /\ Len(c) >= 1 /\ c[Len(c)] < 128
  /\ \A i \in 1 .. Len(c) : c[i] = 128 => (i > 1 /\ c[i - 1] >= 128)   \* no padded sub-identifier

OidArcs(c) ==
  LET s == SplitSubIds(c)
      x == s[1]
      two == IF Len(x) = 1 /\ x[1] < 40 THEN << <<0>>, x >>
             ELSE IF Len(x) = 1 /\ x[1] < 80 THEN << <<1>>, <<x[1] - 40>> >>
             ELSE << <<2>>, NormDigits(SubSmall(x, 80)) >>
  IN two \o Tail(s)

(********************************* UTF-8 **********************************)
WfCp(c) == c \in 0 .. 1114111 /\ c \notin 55296 .. 57343
Utf8Char(c) ==
  IF c < 128 THEN <<c>>
  ELSE IF c < 2048 THEN <<192 + c \div 64, 128 + c % 64>>
  ELSE IF c < 65536 THEN <<224 + c \div 4096, 128 + (c \div 64) % 64, 128 + c % 64>>
  ELSE <<240 + c \div 262144, 128 + (c \div 4096) % 64, 128 + (c \div 64) % 64, 128 + c % 64>>
====