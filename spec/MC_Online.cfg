CONSTANT Fan = 32
CONSTANT Positions <- MC_Pos
CONSTANT NowPositions <- MC_Now
INIT Init
NEXT Next
INVARIANT ConversationAccepted
INVARIANT RequestedKeyIsNamedKey
INVARIANT ResultCorrect
INVARIANT FlavourIndependent
CHECK_DEADLOCK FALSE
