--------------------------- MODULE MC_GkdiStructs ---------------------------
(* Lemmas about GkdiStructs.tla evaluated by TLC on enumerated shapes: every      *)
(* decoder inverts its layout (Unpack(Pack(x)) = x), lengths are consistent, the  *)
(* NDR64 stubs put every 8-byte item at an offset = 0 mod 8 and every LONG /      *)
(* HRESULT at an offset = 0 mod 4, for every SD / envelope length residue mod 8,  *)
(* with arbitrary filler and referent values.  Lemmas take a dummy argument so    *)
(* TLC evaluates them once.                                                       *)
EXTENDS GkdiStructs, TLC
VARIABLE dummy
LInit == dummy = 0
LNext == UNCHANGED dummy

Max32 == <<4, 2, 9, 4, 9, 6, 7, 2, 9, 5>>
U32Vals == {<<0>>, <<1>>, <<2, 5, 6>>, <<3, 6, 1>>, <<2, 1, 4, 7, 4, 8, 3, 6, 4, 8>>, Max32}
S32Vals == {0, 1, 0 - 1, 31, 361, 2147483647, (0 - 2147483647) - 1, 0 - 2147483647, 255, 256, 0 - 256, 65536}
(* empty, ASCII, BMP edge, non-BMP (first, last, emoji), mixed, embedded NUL        *)
Texts == {<<>>, <<65>>, <<100, 46, 116>>, <<65535>>, <<55295, 57344>>, <<65536>>, <<1114111>>, <<128512>>,
          <<97, 65536, 98, 1114111, 233>>, <<83, 72, 65, 53, 49, 50>>, <<97, 0, 98>>}
ByteFields == {<<>>, <<7>>, <<0>>, <<1, 2, 3>>, <<0, 0, 255, 0>>, <<255, 254, 253, 252, 251>>,
               [i \in 1 .. 9 |-> (i * 29) % 256], [i \in 1 .. 32 |-> 255 - i]}
Guids == {Zeros(16), [i \in 1 .. 16 |-> i], [i \in 1 .. 16 |-> 255], [i \in 1 .. 16 |-> (i * 37) % 256]}
Mags == {<<>>, <<1>>, <<255>>, <<1, 0>>, <<128, 0, 0, 1>>, <<1, 0, 0, 0, 0>>}
KeyLens == {5, 6, 8, 32}

ScalarLemma(u) ==
  /\ \A d \in U32Vals : IsU32(d) /\ Len(U32(d)) = 4 /\ FromU32(U32(d)) = d
  /\ U32(Max32) = <<255, 255, 255, 255>> /\ U32(<<3, 6, 1>>) = <<105, 1, 0, 0>>
  /\ \A v \in S32Vals : Len(S32(v)) = 4 /\ IsByteSeq(S32(v)) /\ FromS32(S32(v)) = v
  /\ S32(0 - 1) = <<255, 255, 255, 255>> /\ S32((0 - 2147483647) - 1) = <<0, 0, 0, 128>>
  /\ S32(2147483647) = <<255, 255, 255, 127>> /\ S32(0 - 256) = <<0, 255, 255, 255>>
  /\ \A g \in Guids : FromGuidLE(GuidLE(g)) = g /\ Len(GuidLE(g)) = 16
  /\ GuidLE([i \in 1 .. 16 |-> i]) = <<4, 3, 2, 1, 6, 5, 8, 7, 9, 10, 11, 12, 13, 14, 15, 16>>
  /\ \A n \in 0 .. 40 : \A m \in {4, 8} : (n + PadLen(n, m)) % m = 0 /\ PadLen(n, m) \in 0 .. (m - 1)

TextLemma(u) ==
  /\ \A t \in Texts : /\ \A i \in 1 .. Len(t) : IsScalar(t[i])
                      /\ IsByteSeq(Utf16z(t)) /\ ZTerminated(Utf16z(t)) /\ TextOfZ(Utf16z(t)) = t
  /\ Utf16z(<<>>) = <<0, 0>>
  /\ Utf16z(<<65>>) = <<65, 0, 0, 0>>
  /\ Utf16(<<65536>>) = <<0, 216, 0, 220>>                  \* D800 DC00
  /\ Utf16(<<1114111>>) = <<255, 219, 255, 223>>            \* DBFF DFFF
  /\ Utf16(<<128512>>) = <<61, 216, 0, 222>>                \* U+1F600 = D83D DE00
  /\ Utf16(<<65535>>) = <<255, 255>> /\ Utf16(<<233>>) = <<233, 0>>
  /\ \A m \in Mags : IsMag(m) /\ \A k \in KeyLens : Len(m) <= k =>
        Len(FixedBE(m, k)) = k /\ MagOf(FixedBE(m, k)) = m

SmallStructLemma(u) ==
  /\ \A t \in Texts : LET x == [hash_name |-> t] r == KdfUnpack(KdfPack(x)) IN r.ok /\ r.x = x /\ Len(KdfPack(x)) = 18 + Len(Utf16(t))
  /\ KdfPack([hash_name |-> <<83, 72, 65, 53, 49, 50>>])
       = <<0, 0, 0, 0, 1, 0, 0, 0, 14, 0, 0, 0, 0, 0, 0, 0, 83, 0, 72, 0, 65, 0, 53, 0, 49, 0, 50, 0, 0, 0>>
  /\ \A k \in KeyLens \cup {0} : \A p \in Mags : \A g \in Mags : Len(p) <= k /\ Len(g) <= k =>
        /\ LET x == [key_length |-> k, field_order |-> p, generator |-> g]
               b == FfcParamsPack(x)
               r == FfcParamsUnpack(b)
           IN r.ok /\ r.x = x /\ Len(b) = 12 + 2 * k /\ IsByteSeq(b)
        /\ \A y \in {<<>>, <<9>>, <<1, 0, 0, 0, 0>>} : Len(y) <= k =>
             LET x == [key_length |-> k, field_order |-> p, generator |-> g, public_key |-> y]
                 b == FfcKeyPack(x)
                 r == FfcKeyUnpack(b)
             IN r.ok /\ r.x = x /\ Len(b) = 8 + 3 * k
        /\ \A c \in Curves :
             LET x == [curve_name |-> c, key_length |-> k, x |-> p, y |-> g]
                 b == EcdhPack(x)
                 r == EcdhUnpack(b)
             IN r.ok /\ r.x = x /\ Len(b) = 8 + 2 * k
  /\ FfcParamsPack([key_length |-> 2, field_order |-> <<7>>, generator |-> <<>>])
       = <<16, 0, 0, 0, 68, 72, 80, 77, 2, 0, 0, 0, 0, 7, 0, 0>>
  /\ EcdhPack([curve_name |-> "P384", key_length |-> 1, x |-> <<1>>, y |-> <<>>]) = <<69, 67, 75, 51, 1, 0, 0, 0, 1, 0>>

Kid(v, t1, t2, kb, g) ==
  [version |-> v, flags |-> v, l0 |-> v, l1 |-> <<3, 1>>, l2 |-> v, root_key_identifier |-> g, key_info |-> kb,
   domain_name |-> t1, forest_name |-> t2]
KidLemma(u) ==
  \A v \in {<<0>>, Max32, <<3, 6, 1>>} : \A t1 \in Texts : \A t2 \in {<<>>, <<100, 46, 116>>, <<128512>>} :
    \A kb \in ByteFields : \A g \in {Zeros(16), [i \in 1 .. 16 |-> i]} :
      LET x == Kid(v, t1, t2, kb, g)
          b == KidPack(x)
          r == KidUnpack(b)
      IN r.ok /\ r.x = x /\ IsByteSeq(b)
         /\ Len(b) = 52 + Len(kb) + Len(Utf16z(t1)) + Len(Utf16z(t2))
         /\ ~KidUnpack(SubSeq(b, 1, Len(b) - 1)).ok /\ ~KidUnpack(b \o <<0>>).ok

Env(v, t, kp, sp, k1, k2) ==
  [version |-> <<1>>, flags |-> v, l0 |-> v, l1 |-> <<1, 7>>, l2 |-> <<3, 1>>, root_key_identifier |-> [i \in 1 .. 16 |-> i],
   kdf_algorithm |-> t, kdf_parameters |-> kp, secret_algorithm |-> <<68, 72>>, secret_parameters |-> sp,
   private_key_length |-> v, public_key_length |-> <<2, 0, 4, 8>>, domain_name |-> t, forest_name |-> <<100, 46, 116>>,
   l1_key |-> k1, l2_key |-> k2]
EnvLemma(u) ==
  \A v \in {<<0>>, Max32} : \A t \in {<<>>, <<65>>, <<128512>>, <<97, 65536, 98, 1114111, 233>>} :
    \A kp \in {<<>>, <<1, 2, 3>>} : \A sp \in {<<>>, <<7>>, <<0, 0, 255, 0>>} :
      \A k1 \in ByteFields : \A k2 \in ByteFields :
        LET x == Env(v, t, kp, sp, k1, k2)
            b == EnvPack(x)
            r == EnvUnpack(b)
        IN r.ok /\ r.x = x /\ IsByteSeq(b)
           /\ Len(b) = 80 + 2 * Len(Utf16z(t)) + Len(kp) + 6 + Len(sp) + 8 + Len(k1) + Len(k2)
(* distinct field values are told apart: swapping two adjacent fields changes the bytes   *)
OrderLemma(u) ==
  LET x == Env(<<7>>, <<65>>, <<1>>, <<2>>, <<3>>, <<4>>)
  IN /\ EnvPack(x) # EnvPack([x EXCEPT !.l1_key = <<4>>, !.l2_key = <<3>>])
     /\ EnvPack(x) # EnvPack([x EXCEPT !.kdf_parameters = <<2>>, !.secret_parameters = <<1>>])
     /\ EnvPack(x) # EnvPack([x EXCEPT !.domain_name = <<100, 46, 116>>, !.forest_name = <<65>>])
     /\ EnvPack(x) # EnvPack([x EXCEPT !.l0 = <<1, 7>>, !.l1 = <<7>>])

SdBytesOfLen(n) == [i \in 1 .. n |-> (i * 7) % 256]
Refs == {<<0, 0, 2, 0, 0, 0, 0, 0>>, <<1, 0, 0, 0, 0, 0, 0, 0>>, <<0, 0, 0, 0, 0, 0, 0, 128>>, [i \in 1 .. 8 |-> 255]}
ReqLemma(u) ==
  \A n \in 0 .. 25 : \A has \in BOOLEAN : \A ref \in Refs : \A fb \in {0, 171} :
    \A l \in {<<0 - 1, 0 - 1, 0 - 1>>, <<361, 31, 0>>, <<2147483647, (0 - 2147483647) - 1, 5>>} :
      LET a == [target_sd |-> SdBytesOfLen(n), has_root_key |-> has,
                root_key_id |-> IF has THEN [i \in 1 .. 16 |-> i] ELSE Zeros(16), l0 |-> l[1], l1 |-> l[2], l2 |-> l[3]]
          fill4 == [i \in 1 .. 4 |-> fb]
          fillp == [i \in 1 .. PadLen(n, 8) |-> fb]
          b == ReqRender(a, fill4, fillp, ref)
          r == ReqParse(b)
      IN /\ ReqFillersOK(a, fill4, fillp, ref)
         /\ ReqMatches(b, a) /\ Len(b) = ReqLen(a) /\ IsByteSeq(b)
         /\ r.ok /\ r.a = a
         /\ ReqMaxCountOffset(a) % 8 = 0 /\ ReqPointerOffset(a) % 8 = 0 /\ ReqLongsOffset(a) % 4 = 0
         /\ (has => (ReqPointerOffset(a) + 8) % 4 = 0)                    \* the GUID is 4-aligned
         /\ ~ReqMatches(b, [a EXCEPT !.l1 = 7]) /\ ~ReqMatches(b, [a EXCEPT !.has_root_key = ~has])
         /\ ~ReqMatches(b \o <<0>>, a)
         /\ (n > 0 => ~ReqMatches([b EXCEPT ![17] = (b[17] + 1) % 256], a))
         /\ ~ReqMatches([b EXCEPT ![9] = (b[9] + 1) % 256], a)            \* max count must equal cbTargetSD
(* the test-suite's request vector (tests/test_gkdi.py test_get_key_pack)                     *)
ReqVector(u) ==
  ReqRender([target_sd |-> <<1, 2, 3, 4>>, has_root_key |-> TRUE,
             root_key_id |-> <<115, 41, 68, 32, 145, 127, 65, 106, 158, 195, 134, 8, 42, 250, 251, 158>>,
             l0 |-> 0 - 1, l1 |-> 1, l2 |-> 31], Zeros(4), Zeros(4), <<0, 0, 2, 0, 0, 0, 0, 0>>)
  = <<4, 0, 0, 0, 0, 0, 0, 0, 4, 0, 0, 0, 0, 0, 0, 0, 1, 2, 3, 4, 0, 0, 0, 0, 0, 0, 2, 0, 0, 0, 0, 0,
      32, 68, 41, 115, 127, 145, 106, 65, 158, 195, 134, 8, 42, 250, 251, 158,
      255, 255, 255, 255, 1, 0, 0, 0, 31, 0, 0, 0>>

RespLemma(u) ==
  \A m \in 0 .. 25 : \A ref \in Refs : \A fb \in {0, 171} : \A hr \in {Zeros(4), <<87, 0, 7, 128>>} :
    LET env == SdBytesOfLen(m)
        fill4 == [i \in 1 .. 4 |-> fb]
        fillq == [i \in 1 .. PadLen(m, 4) |-> fb]
        b == RespRender(env, fill4, ref, fillq, hr)
        r == RespParse(b)
    IN /\ RespFillersOK(env, fill4, ref, fillq)
       /\ RespMatches(b, env, hr) /\ Len(b) = RespLen(m) /\ IsByteSeq(b)
       /\ r.ok /\ r.env = env /\ r.hresult = hr
       /\ RespPointerOffset % 8 = 0 /\ RespMaxCountOffset % 8 = 0 /\ RespHresultOffset(m) % 4 = 0
       /\ RespHresultOffset(m) + 4 = Len(b)
       /\ ~RespMatches(b \o <<0>>, env, hr)
       /\ (m > 0 => ~RespMatches(b, SubSeq(env, 1, m - 1), hr))

ASSUME ScalarLemma(0)
ASSUME TextLemma(0)
ASSUME SmallStructLemma(0)
ASSUME KidLemma(0)
ASSUME EnvLemma(0)
ASSUME OrderLemma(0)
ASSUME ReqLemma(0)
ASSUME ReqVector(0)
ASSUME RespLemma(0)
ASSUME PrintT(<<"LEMMAS", [texts |-> Cardinality(Texts), bytefields |-> Cardinality(ByteFields), sd_lengths |-> 26,
                           env_lengths |-> 26, refs |-> Cardinality(Refs)]>>)
=============================================================================
