CONSTANT Fan = 8
INIT LInit
NEXT LNext
