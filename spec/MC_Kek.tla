------------------------------- MODULE MC_Kek -------------------------------
EXTENDS Kek, Json
CONSTANTS Groups    \* set of <<p, g, keyLen>>
VARIABLES grp, x, y
Init == /\ grp \in Groups /\ x \in 1 .. grp[1] - 2 /\ y \in 1 .. grp[1] - 2
Next == UNCHANGED <<grp, x, y>>
P == grp[1]
G == grp[2]
KL == grp[3]
(* both sides compute the same fixed-width shared secret, of exactly key_length octets,        *)
(* leading zeros kept; public values likewise                                                  *)
BothSidesAgree == FixedWidth(PowMod(PowMod(G, x, P), y, P), KL) = FixedWidth(PowMod(PowMod(G, y, P), x, P), KL)
WidthExact == Len(FixedWidth(PowMod(PowMod(G, x, P), y, P), KL)) = KL /\ Len(FixedWidth(PowMod(G, x, P), KL)) = KL
TermsAgree == \A h \in Hashes, m \in Modes, pl \in {256, 384, 512, 521} : EncKek(h, m, pl) = DecKek(h, m, pl)
MC_Groups == {<<23, 5, 1>>, <<23, 5, 2>>, <<23, 5, 4>>, <<251, 6, 1>>, <<251, 6, 3>>}
(* terms exported for the evaluator                                                            *)
ASSUME TermsAgree
ASSUME PrintT(<<"TERMS", ToJson([m \in Modes |-> [h \in Hashes |-> DecKekConcrete(h, m, IF m = "ECDH_P384" THEN 384 ELSE IF m = "ECDH_P256" THEN 256 ELSE 512)]])>>)
=============================================================================
