------------------------------ MODULE MC_Online ------------------------------
(***************************************************************************)
(* Composition checked by TLC: the intended client (a generator of the     *)
(* conversation) against a conforming DC model, over the configuration     *)
(* product op x named position x DC clock x reply kind x auth protocol x   *)
(* handshake legs x root key named or not.  Invariants: the generated      *)
(* conversation is accepted by Online!Accept, the key requested is the key *)
(* named, the reply covers it and the result is the key of the named /     *)
(* current position (GkdiGraph!Covers), the same for both API flavours.    *)
(***************************************************************************)
EXTENDS Online, GkdiGraph

CONSTANTS Positions, NowPositions
MC_Pos == {<<0, 0>>, <<5, 3>>, <<5, 31>>, <<10, 0>>, <<31, 31>>}
MC_Now == {<<10, 0>>, <<31, 31>>, <<0, 0>>}
VARIABLES call, conv, pc, legsLeft, reply, result, flavour
mvars == <<call, conv, pc, legsLeft, reply, result, flavour>>

Ev(r) == r
Connect(p) == [ev |-> "connect", port |-> p, host |-> "dc"]
Close == [ev |-> "close"]
BindEv(kind, ctxs, at, lvl, sign, complete) ==
  [ev |-> kind, flags |-> IF sign THEN 7 ELSE 3, ctxs |-> ctxs, authType |-> at, authLevel |-> lvl, sign |-> sign,
   fragOK |-> TRUE, authLenOK |-> TRUE, completeAfter |-> complete, accepted |-> TRUE]
EptMapEv == [ev |-> "request", ctx |-> 0, opnum |-> 3, obj |-> FALSE, fragOK |-> TRUE, acceptedCtx |-> TRUE, authType |-> -1,
             authLevel |-> 0, unseal |-> "none", sealed |-> FALSE, aligned16 |-> TRUE, authLenOK |-> TRUE, kind |-> "ept_map",
             floors |-> ExpectedTower, objNull |-> TRUE, handleNull |-> TRUE, maxTowers |-> 4, towerLenOK |-> TRUE, consumedAll |-> TRUE]
GetKeyEv(c) ==
  LET rq == RequestFor(c.op, <<c.l0n, c.pos[1], c.pos[2]>>)
  IN [ev |-> "request", ctx |-> 0, opnum |-> 0, obj |-> FALSE, fragOK |-> TRUE, acceptedCtx |-> TRUE, authType |-> AuthTypeOf(c.proto),
      authLevel |-> PKT_PRIVACY, unseal |-> "ok", sealed |-> TRUE, aligned16 |-> TRUE, authLenOK |-> TRUE, kind |-> "get_key",
      sd |-> c.sd, rkid |-> c.rkid, l0 |-> rq[1], l1 |-> rq[2], l2 |-> rq[3], cbEqMaxc |-> TRUE, padsZero |-> TRUE,
      vtPresent |-> TRUE, vtOffsetOK |-> TRUE, vtCmds |-> ExpectedVt, vtEndsAtStubEnd |-> TRUE]

Calls == {[op |-> o, pos |-> p, l0n |-> l0, now |-> n, kind |-> k, proto |-> pr, legs |-> lg, rkid |-> rk, sd |-> "sd", isdPort |-> 49664, host |-> "dc", qname |-> "none",
           dcSign |-> ds,
           l0 |-> IF o = "unprotect" THEN l0 ELSE -1, l1 |-> IF o = "unprotect" THEN p[1] ELSE -1, l2 |-> IF o = "unprotect" THEN p[2] ELSE -1] :
            o \in {"protect", "unprotect"}, p \in Positions, l0 \in {1, 2}, n \in NowPositions, k \in {"seed", "pub"},
            pr \in {"ntlm", "negotiate"}, lg \in 1 .. 3, rk \in {"none", "rk1"}, ds \in BOOLEAN}

Init == /\ call \in {c \in Calls : c.op = "protect" \/ c.l0n = 1 \/ PosGeq(c.now[1], c.now[2], c.pos[1], c.pos[2])}
        /\ flavour \in {"sync", "async"}
        /\ conv = <<>> /\ pc = "start" /\ legsLeft = call.legs /\ reply = <<>> /\ result = <<"none">>

Emit1(e, npc) == conv' = Append(conv, e) /\ pc' = npc /\ UNCHANGED <<call, legsLeft, reply, result, flavour>>
Next ==
  \/ pc = "start" /\ Emit1(Connect(135), "b1")
  \/ pc = "b1" /\ Emit1(BindEv("bind", EpmContexts, -1, 0, FALSE, TRUE), "r1")
  \/ pc = "r1" /\ Emit1(EptMapEv, "x1")
  \/ pc = "x1" /\ Emit1(Close, "c2")
  \/ pc = "c2" /\ Emit1(Connect(call.isdPort), "b2")
  \/ /\ pc = "b2"
     /\ conv' = Append(conv, BindEv("bind", IsdContexts, AuthTypeOf(call.proto), PKT_PRIVACY, TRUE, call.legs = 1))
     /\ legsLeft' = legsLeft - 1 /\ pc' = "auth" /\ UNCHANGED <<call, reply, result, flavour>>
  \/ /\ pc = "auth" /\ legsLeft > 0
     /\ conv' = Append(conv, BindEv("alter_context", AlterContexts, AuthTypeOf(call.proto), PKT_PRIVACY, call.dcSign, legsLeft = 1))
     /\ legsLeft' = legsLeft - 1 /\ UNCHANGED <<call, pc, reply, result, flavour>>
  \/ /\ pc = "auth" /\ legsLeft = 0
     /\ conv' = Append(conv, GetKeyEv(call))
     (* a conforming DC: seed keys at the requested (or, for protect, the current) position, or the public key *)
     /\ reply' = [kind |-> call.kind,
                  l0 |-> IF call.op = "protect" THEN 2 ELSE call.l0n,
                  pos |-> IF call.op = "protect" THEN call.now ELSE call.pos]
     /\ pc' = "x2" /\ UNCHANGED <<call, legsLeft, result, flavour>>
  \/ /\ pc = "x2"
     /\ conv' = Append(conv, Close)
     /\ result' = IF call.op = "unprotect"
                    THEN IF reply.kind = "pub" THEN <<"unauthorized">>
                         ELSE IF PosGeq(reply.pos[1], reply.pos[2], call.pos[1], call.pos[2]) /\ reply.l0 = call.l0n
                                THEN <<"key", call.l0n, call.pos>> ELSE <<"BAD">>
                    ELSE <<"blob", reply.l0, reply.pos>>
     /\ pc' = "done" /\ UNCHANGED <<call, legsLeft, reply, flavour>>

ConversationAccepted == pc = "done" => ConversationFails(call, conv) = {}
RequestedKeyIsNamedKey ==
  pc \in {"x2", "done"} =>
    LET g == conv[Len(conv) - (IF pc = "done" THEN 1 ELSE 0)]
    IN IF call.op = "unprotect" THEN <<g.l0, g.l1, g.l2>> = <<call.l0n, call.pos[1], call.pos[2]>> ELSE <<g.l0, g.l1, g.l2>> = <<-1, -1, -1>>
ResultCorrect ==
  pc = "done" => /\ result # <<"BAD">>
                 /\ (call.op = "unprotect" /\ call.kind = "seed") => result = <<"key", call.l0n, call.pos>>
                 /\ (call.op = "protect") => result = <<"blob", 2, call.now>>
FlavourIndependent == \A i \in 1 .. Len(conv) : "flavour" \notin DOMAIN conv[i]
=============================================================================
