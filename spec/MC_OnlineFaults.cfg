CONSTANT UseDns = TRUE
CONSTANT Legs = 2
SPECIFICATION Spec
INVARIANT TypeOK
INVARIANT FaultSurfaces
INVARIANT NothingStoredByFailedCall
INVARIANT NoLeak
INVARIANT RetryAsFresh
INVARIANT DcContacts
INVARIANT OneConnectionAtATime
PROPERTY Terminates
CONSTRAINT Emit
