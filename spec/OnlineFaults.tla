---------------------------- MODULE OnlineFaults ----------------------------
(***************************************************************************)
(* What one protect / unprotect call does when the peer misbehaves at any  *)
(* step of the online conversation of Online.tla, and what the next call   *)
(* sharing the same KeyCache sees.                                         *)
(*                                                                         *)
(* The conversation is the step sequence                                   *)
(*    [dns] connect1 bind1 eptmap connect2 bind2 alter^Legs getkey         *)
(* Each step either succeeds (the conforming DC of Online.tla) or the peer *)
(* fault of Kinds(step) happens - at most one fault per call.  The client  *)
(* reacts to a fault by abandoning the call: it closes the connections it  *)
(* has open, stores nothing and raises.  Only a call whose every step      *)
(* succeeded stores the GetKey result and returns.                         *)
(*                                                                         *)
(* The listed properties each speak about one slice of this table:         *)
(*   C14  a connection that ends early is an error, promptly               *)
(*   C15  bind_nak / fault / unexpected PDU during binding is an error     *)
(*   C18  an endpoint-mapper reply with an error status or without a TCP   *)
(*        floor is an error                                                *)
(*   C10  every call terminates, and a call after a failed call behaves as *)
(*        with a fresh cache                                               *)
(* The remainder (DNS failures, faults in the request phase, connections   *)
(* closed on every path, nothing stored by a failed call) is extended      *)
(* behaviour.                                                              *)
(***************************************************************************)
EXTENDS Integers, Sequences, FiniteSets, TLC

CONSTANTS UseDns,      \* the server is discovered with an SRV query first
          Legs         \* alter_context round trips the security provider needs (NTLM: 1)

Steps == (IF UseDns THEN <<"dns">> ELSE <<>>) \o <<"connect1", "bind1", "eptmap", "connect2", "bind2">>
         \o [k \in 1 .. Legs |-> "alter"] \o <<"getkey">>

Kinds(step) ==
  CASE step = "dns" -> {"nxdomain", "noanswer", "empty"}
    [] step \in {"connect1", "connect2"} -> {"refused"}
    [] step \in {"bind1", "bind2", "alter"} -> {"eof", "nak", "fault", "wrongtype"}
    [] step = "eptmap" -> {"eof", "fault", "wrongtype", "no_towers", "no_tcp_floor", "status"}
    [] step = "getkey" -> {"eof", "fault", "wrongtype", "hresult"}

AllSteps == {"dns", "connect1", "bind1", "eptmap", "connect2", "bind2", "alter", "getkey"}
NoFault == <<"none", "none">>

(* ---- the table the trace module uses ------------------------------------------------ *)
Outcome(fault) == IF fault = NoFault THEN "ok" ELSE "error"
StoresKey(fault) == fault = NoFault
(* GetKey requests that reach the DC in a call that starts with cache state c            *)
ReachesDc(c, fault) ==
  IF c = "key" THEN 0
  ELSE IF fault = NoFault \/ fault[1] = "getkey" THEN 1 ELSE 0

(* ---- state machine --------------------------------------------------------------------- *)
VARIABLES phase,       \* "first" | "retry" | "end"
          pc,          \* "lookup" | "step" | "abort" | "done"
          i,           \* index into Steps of the step in progress
          open,        \* connections currently open (1 = endpoint mapper, 2 = ISD_KEY)
          cache,       \* "empty" | "key": what the shared KeyCache holds for the call's triple
          res,         \* [first |-> ..., retry |-> ...] results: "none" | "ok" | "error"
          fault,       \* fault injected into the first call
          reached      \* [first, retry] GetKey requests that reached the DC
vars == <<phase, pc, i, open, cache, res, fault, reached>>

Init == /\ phase = "first" /\ pc = "lookup" /\ i = 1 /\ open = {} /\ cache = "empty"
        /\ res = [first |-> "none", retry |-> "none"] /\ fault = NoFault
        /\ reached = [first |-> 0, retry |-> 0]

Finish(r) == /\ res' = [res EXCEPT ![phase] = r] /\ pc' = "done"

Lookup ==
  /\ pc = "lookup"
  /\ IF cache = "key"
       THEN /\ Finish("ok") /\ UNCHANGED <<phase, i, open, cache, fault, reached>>
       ELSE /\ pc' = "step" /\ i' = 1 /\ UNCHANGED <<phase, open, cache, res, fault, reached>>

Effect(step) ==   \* what a successful step does to the connections
  CASE step = "connect1" -> open \cup {1}
    [] step = "eptmap" -> open \ {1}          \* the endpoint-mapper connection is closed once the port is known
    [] step = "connect2" -> open \cup {2}
    [] step = "getkey" -> open \ {2}
    [] OTHER -> open

StepOk ==
  /\ pc = "step"
  /\ LET s == Steps[i] IN
     /\ open' = Effect(s)
     /\ reached' = IF s = "getkey" THEN [reached EXCEPT ![phase] = @ + 1] ELSE reached
     /\ IF i = Len(Steps)
          THEN /\ cache' = "key" /\ Finish("ok") /\ UNCHANGED <<i>>
          ELSE /\ i' = i + 1 /\ UNCHANGED <<cache, res, pc>>
  /\ UNCHANGED <<phase, fault>>

StepFault ==
  /\ pc = "step" /\ phase = "first" /\ fault = NoFault
  /\ \E k \in Kinds(Steps[i]) :
       /\ fault' = <<Steps[i], k>>
       /\ UNCHANGED open                          \* a refused connection never opened; the others are closed by Abort
       /\ reached' = IF Steps[i] = "getkey" THEN [reached EXCEPT ![phase] = @ + 1] ELSE reached
  /\ pc' = "abort"
  /\ UNCHANGED <<phase, i, cache, res>>

Abort ==
  /\ pc = "abort"
  /\ open' = {}
  /\ Finish("error")
  /\ UNCHANGED <<phase, i, cache, fault, reached>>

NextCall ==
  /\ pc = "done" /\ phase = "first"
  /\ phase' = "retry" /\ pc' = "lookup" /\ i' = 1
  /\ UNCHANGED <<open, cache, res, fault, reached>>

End ==
  /\ pc = "done" /\ phase = "retry"
  /\ phase' = "end"
  /\ UNCHANGED <<pc, i, open, cache, res, fault, reached>>

Finished == phase = "end" /\ UNCHANGED vars
Next == Lookup \/ StepOk \/ StepFault \/ Abort \/ NextCall \/ End \/ Finished
Spec == Init /\ [][Next]_vars /\ WF_vars(Next)

(* ---- properties ---------------------------------------------------------------------- *)
TypeOK ==
  /\ phase \in {"first", "retry", "end"} /\ pc \in {"lookup", "step", "abort", "done"}
  /\ i \in 1 .. Len(Steps) /\ open \subseteq {1, 2} /\ cache \in {"empty", "key"}
  /\ fault = NoFault \/ (fault[1] \in AllSteps /\ fault[2] \in Kinds(fault[1]))

FaultSurfaces == (pc = "done" /\ phase = "first") => res.first = Outcome(fault)
NothingStoredByFailedCall == (fault # NoFault /\ phase = "first") => cache = "empty"
NoLeak == pc = "done" => open = {}
RetryAsFresh == phase = "end" => res.retry = "ok"
DcContacts == phase = "end" => /\ reached.first = ReachesDc("empty", fault)
                               /\ reached.retry = ReachesDc(IF StoresKey(fault) THEN "key" ELSE "empty", NoFault)
OneConnectionAtATime == Cardinality(open) <= 1
Terminates == <>(phase = "end")

(* every (step, kind) of the table, for the conformance harness *)
Emit == IF phase = "end" THEN PrintT(<<"CASE", fault[1], fault[2]>>) ELSE TRUE
=============================================================================
