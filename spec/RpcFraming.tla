----------------------------- MODULE RpcFraming -----------------------------
(***************************************************************************)
(* Framing of an authenticated request PDU (MS-RPCE 2.2.2.11/2.2.2.13,     *)
(* C706 ch.12/13) and of the reply path.                                   *)
(*                                                                         *)
(*   0        16        24                                                 *)
(*   | header | hint/ctx/opnum | stub | pad4 | VT | pad16 | trailer8 | sig *)
(*                              \______ sealed region _____/                *)
(* The sender computes the layout from (stub length, VT length, signature  *)
(* size); an independent receiver recomputes every boundary from frag_len  *)
(* and auth_len and the pad_length byte only.                               *)
(***************************************************************************)
EXTENDS Integers, Sequences, TLC

HeaderLen == 16
StubStart == 24
TrailerHdr == 8

Pad(n, m) == (m - (n % m)) % m

(* ---- sender ------------------------------------------------------------- *)
Layout(stubLen, vtLen, sigLen, auth) ==
  LET pad4 == IF vtLen > 0 THEN Pad(stubLen, 4) ELSE 0
      inner == stubLen + pad4 + vtLen
      pad16 == IF auth THEN Pad(inner, 16) ELSE 0
      sealedLen == inner + pad16
  IN [stubOff |-> StubStart, vtOff |-> IF vtLen > 0 THEN StubStart + stubLen + pad4 ELSE -1,
      pad4 |-> pad4, pad16 |-> pad16, sealedOff |-> StubStart, sealedLen |-> sealedLen,
      trailerOff |-> IF auth THEN StubStart + sealedLen ELSE -1,
      fragLen |-> StubStart + sealedLen + (IF auth THEN TrailerHdr + sigLen ELSE 0),
      authLen |-> IF auth THEN sigLen ELSE 0,
      padLength |-> pad16]

(* which byte ranges go to the security context, and how                         *)
Regions(lay, signHeader) ==
  [sealed |-> <<lay.sealedOff, lay.sealedOff + lay.sealedLen>>,
   header |-> <<0, StubStart>>, trailer |-> <<lay.trailerOff, lay.trailerOff + TrailerHdr>>,
   clearMode |-> IF signHeader THEN "sign_only" ELSE "data_readonly"]

(* ---- independent receiver ------------------------------------------------------ *)
Receive(fragLen, authLen, padLength, stubLen, vtLen) ==
  LET trailerOff == fragLen - authLen - TrailerHdr
      sealedLen == trailerOff - StubStart
      plainLen == sealedLen - padLength
      vtOff == IF vtLen > 0 THEN StubStart + stubLen + Pad(stubLen, 4) ELSE -1
  IN [trailerOff |-> trailerOff, sealedLen |-> sealedLen, plainLen |-> plainLen, vtOff |-> vtOff,
      stubRecovered |-> plainLen >= stubLen,
      vtFits |-> vtLen = 0 \/ vtOff + vtLen = StubStart + plainLen]

(* ---- reply path: stub || pad(padLen) sealed; the client strips exactly padLen ---- *)
ReplyStripped(bodyLen, padLen) == bodyLen - padLen

(* ---- enumeration for TLC --------------------------------------------------------- *)
CONSTANTS MaxStub, VtLens, SigLens, MaxReply
VARIABLES cfg
Init == \/ \E s \in 0 .. MaxStub, v \in VtLens, g \in SigLens, h \in BOOLEAN :
              cfg = [kind |-> "request", stub |-> s, vt |-> v, sig |-> g, sign |-> h]
        \/ \E n \in 0 .. MaxReply, p \in 0 .. 15 : cfg = [kind |-> "reply", stub |-> n, pad |-> p]
Next == UNCHANGED cfg

Lay == Layout(cfg.stub, cfg.vt, cfg.sig, TRUE)
Rx == Receive(Lay.fragLen, Lay.authLen, Lay.padLength, cfg.stub, cfg.vt)

FramingOK ==
  cfg.kind = "request" =>
    /\ Lay.authLen = cfg.sig
    /\ Lay.fragLen = StubStart + cfg.stub + Lay.pad4 + cfg.vt + Lay.pad16 + TrailerHdr + cfg.sig
    /\ (cfg.vt > 0 => ((Lay.vtOff - StubStart) % 4 = 0 /\ Lay.vtOff - (StubStart + cfg.stub) \in 0 .. 3))
    /\ (Lay.trailerOff - StubStart) % 16 = 0
    /\ Lay.padLength \in 0 .. 15
    /\ Lay.padLength = Lay.trailerOff - (StubStart + cfg.stub + Lay.pad4 + cfg.vt)
    /\ Lay.sealedLen = cfg.stub + Lay.pad4 + cfg.vt + Lay.pad16
ReceiverAgrees ==
  cfg.kind = "request" =>
    /\ Rx.trailerOff = Lay.trailerOff /\ Rx.sealedLen = Lay.sealedLen
    /\ Rx.plainLen = cfg.stub + Lay.pad4 + cfg.vt
    /\ Rx.vtOff = Lay.vtOff /\ Rx.stubRecovered /\ Rx.vtFits
RegionsOK ==
  cfg.kind = "request" =>
    LET r == Regions(Lay, cfg.sign)
    IN /\ r.sealed = <<StubStart, Lay.trailerOff>>
       /\ r.header[2] = r.sealed[1] /\ r.trailer[1] = r.sealed[2]
       /\ r.trailer[2] + cfg.sig = Lay.fragLen
       /\ (r.clearMode = "sign_only") <=> cfg.sign
ReplyOK == cfg.kind = "reply" => ReplyStripped(cfg.stub + cfg.pad, cfg.pad) = cfg.stub
=============================================================================
