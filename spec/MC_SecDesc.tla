----------------------------- MODULE MC_SecDesc -----------------------------
(* Lemmas about SecDesc.tla evaluated by TLC: decimal arithmetic on digit       *)
(* sequences is right (checked against TLC's own integers where those reach),   *)
(* the range constants are 256^4 and 256^6, the SID encoding is inverted by the *)
(* independent reader for every sub-authority count 1..15 at boundary values    *)
(* (hence distinct SIDs => distinct bytes), the target SD has consistent        *)
(* offsets / sizes / counts for every count, and the string grammar classes     *)
(* are disjoint and contain what they should.                                   *)
EXTENDS SecDesc, TLC
VARIABLE dummy
LInit == dummy = 0
LNext == UNCHANGED dummy

(* Lemmas take a dummy argument so that TLC evaluates them once (in the ASSUME), not also
   as zero-arity constants at start-up. *)
(* ---- decimal arithmetic vs machine integers ---------------------------------- *)
Small == 0 .. 330
LessLemma(u) ==
  \A a \in Small : \A b \in Small :
     /\ DecLess(NatDigits(a), NatDigits(b)) <=> a < b
     /\ DecLess(<<0, 0>> \o NatDigits(a), NatDigits(b)) <=> a < b
     /\ DecLess(NatDigits(a), <<0>> \o NatDigits(b)) <=> a < b
Wide == (0 .. 1100) \cup (65000 .. 66100) \cup {16777215, 16777216, 16777217, 2147483646, 2147483647}
BytesLemma(u) ==
  \A a \in Wide :
     /\ ToBytesLE(NatDigits(a), 4) = LE32(a)
     /\ ToBytesBE(NatDigits(a), 4) = Rev(LE32(a))
     /\ ToBytesLE(NatDigits(a), 2) = LE16(a)
     /\ Fits(NatDigits(a), 2) <=> a < 65536
     /\ Fits(NatDigits(a), 1) <=> a < 256
     /\ Fits(NatDigits(a), 3) <=> a < 16777216
     /\ BytesToDigits(Rev(LE32(a))) = NatDigits(a)
     /\ BytesToDigits(<<0, 0>> \o Rev(LE32(a))) = NatDigits(a)
     /\ FromLE32(LE32(a)) = a
     /\ DivMod256(NatDigits(a)).r = a % 256
     /\ StripZeros(DivMod256(NatDigits(a)).q) = NatDigits(a \div 256)
     /\ MulAdd256(NatDigits(a % 8000000), a % 256) = NatDigits(((a % 8000000) * 256) + (a % 256))

(* ---- the range constants ------------------------------------------------------- *)
Pow2_64 == <<1, 8, 4, 4, 6, 7, 4, 4, 0, 7, 3, 7, 0, 9, 5, 5, 1, 6, 1, 6>>
Max32   == <<4, 2, 9, 4, 9, 6, 7, 2, 9, 5>>
Max48   == <<2, 8, 1, 4, 7, 4, 9, 7, 6, 7, 1, 0, 6, 5, 5>>
ConstLemma(u) ==
  /\ BytesToDigits(<<1, 0, 0, 0, 0>>) = Pow2_32
  /\ BytesToDigits(<<1, 0, 0, 0, 0, 0, 0>>) = Pow2_48
  /\ BytesToDigits(<<1, 0, 0, 0, 0, 0, 0, 0, 0>>) = Pow2_64
  /\ BytesToDigits(<<255, 255, 255, 255>>) = Max32
  /\ BytesToDigits(<<255, 255, 255, 255, 255, 255>>) = Max48
  /\ ToBytesLE(Max32, 4) = <<255, 255, 255, 255>> /\ ToBytesBE(Max48, 6) = <<255, 255, 255, 255, 255, 255>>
  /\ Fits(Max32, 4) /\ ~Fits(Pow2_32, 4) /\ Fits(Max48, 6) /\ ~Fits(Pow2_48, 6) /\ ~Fits(Pow2_64, 8)
  /\ DecLess(Max32, Pow2_32) /\ ~DecLess(Pow2_32, Pow2_32) /\ DecLess(Max48, Pow2_48) /\ ~DecLess(Pow2_48, Pow2_48)
  /\ ToBytesBE(<<1, 0, 9, 9, 5, 1, 1, 6, 2, 7, 7, 7, 6>>, 6) = <<1, 0, 0, 0, 0, 0>>       \* 2^40
  /\ ToBytesLE(<<2, 1, 8, 5, 4, 9, 6, 6, 0, 2>>, 4) = <<26, 8, 68, 130>>                  \* 2185496602 = 0x8244081A

(* boundary numbers, as digits                                                        *)
SubVals  == << <<0>>, <<1>>, <<2, 5, 5>>, <<2, 5, 6>>, <<6, 5, 5, 3, 5>>, <<6, 5, 5, 3, 6>>,
               <<2, 1, 4, 7, 4, 8, 3, 6, 4, 7>>, <<2, 1, 4, 7, 4, 8, 3, 6, 4, 8>>, Max32,
               <<1, 6, 7, 7, 7, 2, 1, 6>>, <<2, 1>> >>
AuthVals == << <<0>>, <<1>>, <<5>>, <<2, 5, 6>>, Max32, Pow2_32,
               <<1, 0, 9, 9, 5, 1, 1, 6, 2, 7, 7, 7, 6>>, Max48 >>
RangeLemma(u) ==
  /\ \A i \in 1 .. Len(SubVals) : Fits(SubVals[i], 4) /\ DecLess(SubVals[i], Pow2_32)
  /\ \A i \in 1 .. Len(AuthVals) : Fits(AuthVals[i], 6) /\ DecLess(AuthVals[i], Pow2_48)
  /\ \A i \in 1 .. Len(AuthVals) : \A j \in 1 .. Len(AuthVals) :
        (Fits(AuthVals[i], 4) <=> DecLess(AuthVals[i], Pow2_32))
        /\ (ToBytesBE(AuthVals[i], 6) = ToBytesBE(AuthVals[j], 6) <=> i = j)

(* ---- SIDs: every count 1..15, boundary values rotated through the positions ------- *)
K == Len(SubVals)
SidFor(r, a, n, p) == [rev |-> r, auth |-> AuthVals[a], subs |-> [i \in 1 .. n |-> SubVals[((i + p) % K) + 1]]]
Sids == {SidFor(r, a, n, p) : r \in {0, 1, 9}, a \in 1 .. Len(AuthVals), n \in 1 .. 15, p \in 0 .. (K - 1)}

SidLemma(u) ==
  \A x \in Sids :
     LET b == SidBytes(x)
         s == SidString(x)
     IN /\ WellFormedSid(x)
        /\ Len(b) = 8 + 4 * Len(x.subs)
        /\ \A i \in 1 .. Len(b) : b[i] \in 0 .. 255
        /\ SidParse(b) = x
        /\ SidParse(b \o <<0>>) = NoSid /\ SidParse(SubSeq(b, 1, Len(b) - 1)) = NoSid
        /\ Canonical(s) /\ ~MustReject(s) /\ SidOfString(s) = x
Injective(u) == Cardinality({SidBytes(x) : x \in Sids}) = Cardinality(Sids)

SdLemma(u) ==
  \A x \in Sids :
     LET b == TargetSd(x)
         p == SdParse(b)
         n == Len(x.subs)
     IN /\ SdDefects(b, x) = {}
        /\ p.ok /\ p.od = 20 /\ p.os = 0 /\ p.control = 32772
        /\ p.aces[1].size = 16 + 4 * n /\ p.aces[2].size = 20
        /\ p.aclsize = 8 + 16 + 4 * n + 20 /\ p.count = 2
        /\ p.oo = 20 + p.aclsize /\ p.og = p.oo + 12 /\ Len(b) = p.og + 12
        /\ p.owner.sid = SystemSid /\ p.group.sid = SystemSid
        /\ p.aces[1].sid = x /\ p.aces[2].sid = EveryoneSid
        /\ \A i \in 1 .. Len(b) : b[i] \in 0 .. 255
(* a defect in any single header byte / size / offset is seen by the reader              *)
SdSensitive(u) ==
  LET x == SidFor(1, 3, 5, 2)
      b == TargetSd(x)
  IN \A i \in 1 .. Len(b) : SdDefects([b EXCEPT ![i] = (b[i] + 1) % 256], x) # {}

(* ---- string grammar ------------------------------------------------------------- *)
Str(x) == SidString(x)
S518 == <<83, 45, 49, 45, 53, 45, 49, 56>>            \* "S-1-5-18"
GrammarLemma(u) ==
  /\ Classify(S518) = "canonical" /\ SidOfString(S518) = SystemSid
  /\ Classify(S518 \o <<10>>) = "reject"                                  \* trailing newline
  /\ Classify(<<32>> \o S518) = "reject" /\ Classify(S518 \o <<32>>) = "reject"
  /\ Classify(<<83, 45, 49, 45, 53, 45, 43, 49, 56>>) = "reject"           \* S-1-5-+18
  /\ Classify(<<83, 45, 49, 45, 53, 45, 45, 49, 56>>) = "reject"           \* S-1-5--18
  /\ Classify(<<83, 45, 49, 45, 53, 45>>) = "reject"                       \* S-1-5-
  /\ Classify(<<83, 45, 49, 45, 53>>) = "reject"                           \* S-1-5 (no sub-authority)
  /\ Classify(<<83, 45, 49, 45, 53, 45, 1633, 1640>>) = "reject"           \* Arabic-Indic 18
  /\ Classify(<<83, 45, 65297, 45, 53, 45, 49, 56>>) = "reject"            \* fullwidth revision
  /\ Classify(<<83, 45, 49, 45, 53, 45>> \o DigitChars(Pow2_32)) = "reject"
  /\ Classify(<<83, 45, 49, 45, 53, 45>> \o DigitChars(Max32)) = "canonical"
  /\ Classify(<<83, 45, 49, 45>> \o DigitChars(Pow2_48) \o <<45, 49>>) = "reject"
  /\ Classify(<<83, 45, 49, 45>> \o DigitChars(Max48) \o <<45, 49>>) = "canonical"
  /\ Classify(<<83, 45, 49, 45>> \o DigitChars(Pow2_64) \o <<45, 49>>) = "reject"
  /\ Classify(<<83, 45, 49, 45, 53, 45>> \o <<48>> \o DigitChars(Pow2_32)) = "reject"   \* leading 0, still too big
  /\ Classify(<<83, 45, 49, 45, 53, 45, 48, 49, 56>>) = "dontcare"         \* S-1-5-018
  /\ Classify(<<83, 45, 49, 45, 48, 53, 45, 49, 56>>) = "dontcare"         \* S-1-05-18
  /\ Classify(<<115, 45, 49, 45, 53, 45, 49, 56>>) = "reject"              \* s-1-5-18     (not SID syntax)
  /\ Classify(<<383, 45, 49, 45, 53, 45, 49, 56>>) = "reject"              \* U+017F-1-5-18
  /\ Classify(<<83, 45, 49, 48, 45, 53, 45, 49, 56>>) = "reject"           \* S-10-5-18
  /\ Classify(<<83, 45, 49>>) = "reject"
  /\ Classify(<<83>>) = "reject" /\ Classify(<<83, 89>>) = "reject"        \* S, SY
  /\ Classify(<<83, 45, 49, 45, 48, 120, 53, 45, 49, 56>>) = "reject"      \* S-1-0x5-18
  /\ Classify(<<83, 45, 49, 45, 53, 45, 49, 56, 120>>) = "reject"          \* S-1-5-18x
  /\ Classify(<<>>) = "reject"
  /\ Classify(Str([rev |-> 1, auth |-> <<5>>, subs |-> [i \in 1 .. 16 |-> <<7>>]])) = "reject"
  /\ Classify(Str([rev |-> 1, auth |-> <<5>>, subs |-> [i \in 1 .. 15 |-> <<7>>]])) = "canonical"
  /\ \A c \in Whitespace : Classify(S518 \o <<c>>) = "reject" /\ Classify(<<83, 45, 49, 45, c, 53, 45, 49, 56>>) = "reject"
  /\ \A z \in NonAsciiZeros : Classify(<<83, 45, 49, 45, 53, 45, z + 1, z + 8>>) = "reject"

ASSUME LessLemma(0)
ASSUME BytesLemma(0)
ASSUME ConstLemma(0)
ASSUME RangeLemma(0)
ASSUME SidLemma(0)
ASSUME Injective(0)
ASSUME SdLemma(0)
ASSUME SdSensitive(0)
ASSUME GrammarLemma(0)
ASSUME PrintT(<<"LEMMAS", [sids |-> Cardinality(Sids), small |-> Cardinality(Small), wide |-> Cardinality(Wide)]>>)
=============================================================================
