------------------------------ MODULE RpcBind ------------------------------
(***************************************************************************)
(* The bind / authentication handshake of the connection-oriented RPC      *)
(* client against an arbitrary server, with a scripted authentication      *)
(* provider.                                                               *)
(*                                                                         *)
(* Provider script  prov = [legs |-> n, emptyAt |-> k, auth |-> BOOLEAN]   *)
(*   step number i yields client token i, or the empty token when          *)
(*   i = emptyAt; the context is complete after step number `legs`.        *)
(* Server responses (one per PDU the client sends):                        *)
(*   [k |-> "ack", res |-> <<r0, r1>>, sign |-> BOOLEAN,                    *)
(*    tok |-> 0 | server token id]   (bind_ack / alter_context_resp)        *)
(*   [k |-> "nak"] [k |-> "fault"] [k |-> "response"] [k |-> "eof"]         *)
(*   [k |-> "wrongack"]  a well-formed, accepting ack of the OTHER type: an *)
(*      alter_context_resp answering a bind, a bind_ack answering an        *)
(*      alter_context (an unexpected PDU type like "response")              *)
(* res: result per offered presentation context (0 = the interface with    *)
(* NDR64, 1 = bind-time feature negotiation): "acc" | "user" | "prov" |    *)
(* "nack" (negotiate_ack).                                                  *)
(*                                                                         *)
(* The client is a deterministic reaction function React(s, prov, resp):   *)
(* the same function drives the behaviour spec below and the trace fold in *)
(* TraceBind.tla.                                                           *)
(***************************************************************************)
EXTENDS Integers, Sequences, FiniteSets, TLC

NoTok == 0
Desired == 0          \* presentation context the caller wants to use

(* ---- client state ---------------------------------------------------------- *)
S0 == [pc |-> "start", leg |-> 0, complete |-> FALSE, inTok |-> -1, sign |-> FALSE, advertised |-> FALSE,
       accepted |-> {}, ackSign |-> FALSE, sent |-> <<>>, fed |-> <<>>, provOut |-> <<>>, stepsAfterComplete |-> 0]

TokenOf(prov, i) == IF i = prov.emptyAt \/ i > prov.legs THEN NoTok ELSE i

(* one provider step: feeds `tin` (-1 = no token argument), returns new state + token *)
ProvStep(s, prov, tin) ==
  LET i == s.leg + 1
      out == TokenOf(prov, i)
  IN [s EXCEPT !.leg = i, !.complete = (i >= prov.legs), !.fed = Append(@, tin), !.provOut = Append(@, out),
               !.stepsAfterComplete = @ + (IF s.complete THEN 1 ELSE 0)]

Pdu(type, tok, sign, ctxs) == [type |-> type, tok |-> tok, sign |-> sign, ctxs |-> ctxs]

(* first action: optional provider step, then the bind PDU                          *)
Start(prov) ==
  IF prov.auth
    THEN LET s1 == ProvStep(S0, prov, -1)
             tok == s1.provOut[Len(s1.provOut)]
         IN [s1 EXCEPT !.pc = "wait_bind_ack", !.sign = TRUE, !.advertised = TRUE,
                       !.sent = Append(@, Pdu("bind", tok, TRUE, {0, 1}))]
    ELSE [S0 EXCEPT !.pc = "wait_bind_ack", !.sent = Append(@, Pdu("bind", -1, FALSE, {0}))]

(* the caller's check that the desired context was accepted, then the request        *)
ToRequest(s) ==
  IF Desired \in s.accepted
    THEN [s EXCEPT !.pc = "wait_response", !.sent = Append(@, Pdu("request", -1, s.sign, {Desired}))]
    ELSE [s EXCEPT !.pc = "error"]

(* continue the authentication loop after an ack                                     *)
Continue(s, prov) ==
  IF ~prov.auth \/ s.complete THEN ToRequest(s)
  ELSE LET s1 == ProvStep(s, prov, IF s.inTok = NoTok THEN NoTok ELSE s.inTok)
           tok == s1.provOut[Len(s1.provOut)]
       IN IF tok = NoTok THEN ToRequest(s1)        \* empty token: the loop stops
          ELSE [s1 EXCEPT !.pc = "wait_alter", !.sent = Append(@, Pdu("alter", tok, s1.sign, s1.accepted))]

Accepted(res, offered) == {c \in offered : res[c + 1] = "acc"}

React(s, prov, r) ==
  CASE s.pc = "wait_bind_ack" ->
         IF r.k = "ack"
           THEN LET s1 == [s EXCEPT !.accepted = Accepted(r.res, IF prov.auth THEN {0, 1} ELSE {0}),
                                    !.sign = s.sign /\ r.sign, !.ackSign = r.sign,
                                    !.inTok = IF prov.auth THEN r.tok ELSE -1]
                IN Continue(s1, prov)
           ELSE [s EXCEPT !.pc = "error"]
    [] s.pc = "wait_alter" ->
         IF r.k = "ack"
           THEN Continue([s EXCEPT !.sign = s.sign /\ r.sign, !.inTok = r.tok], prov)
           ELSE [s EXCEPT !.pc = "error"]
    [] s.pc = "wait_response" ->
         IF r.k = "response" THEN [s EXCEPT !.pc = "done"] ELSE [s EXCEPT !.pc = "error"]
    [] OTHER -> s

Terminal(s) == s.pc \in {"done", "error"}

(* ---- behaviour spec: environment picks the scripts ----------------------------------- *)
CONSTANTS MaxLegs, ResultCodes, ServerTokens

VARIABLES st, prov, script
vars == <<st, prov, script>>

(* the empty token is explored as the final token ("empty final token") and at    *)
(* any leg after the first (an incomplete provider that stops the handshake)      *)
Provs == {[legs |-> n, emptyAt |-> e, auth |-> TRUE] : n \in 1 .. MaxLegs, e \in {0} \cup 2 .. MaxLegs}
           \cup {[legs |-> 0, emptyAt |-> 0, auth |-> FALSE]}

Acks == {[k |-> "ack", res |-> <<a, b>>, sign |-> sg, tok |-> tk] :
           a \in ResultCodes, b \in {"nack", "acc"}, sg \in BOOLEAN, tk \in ServerTokens}
AlterAcks == {r \in Acks : r.res = <<"acc", "nack">>}
Others == {[k |-> x] : x \in {"nak", "fault", "response", "eof", "wrongack"}}
Responses == Acks \cup Others

Init == /\ prov \in Provs /\ st = Start(prov) /\ script = <<>>
Next == /\ ~Terminal(st)
        /\ \E r \in (IF st.pc = "wait_bind_ack" THEN Responses ELSE AlterAcks \cup Others) :
              /\ st' = React(st, prov, r) /\ script' = Append(script, r)
        /\ UNCHANGED prov
Spec == Init /\ [][Next]_vars

(* ---- properties --------------------------------------------------------------------- *)
NonEmpty(seq) == SelectSeq(seq, LAMBDA x : x # NoTok)
SentTokens(s) == [i \in 1 .. Len(SelectSeq(s.sent, LAMBDA p : p.type \in {"bind", "alter"} /\ p.tok # -1)) |->
                    SelectSeq(s.sent, LAMBDA p : p.type \in {"bind", "alter"} /\ p.tok # -1)[i].tok]
AckToks == [i \in 1 .. Len(SelectSeq(script, LAMBDA r : r.k = "ack")) |->
              SelectSeq(script, LAMBDA r : r.k = "ack")[i].tok]

(* (a) every non-empty provider token is sent exactly once, in order; first in bind      *)
TokensRelayed ==
  /\ NonEmpty(SentTokens(st)) = NonEmpty(st.provOut)
  /\ \A i \in 1 .. Len(st.sent) : (st.sent[i].type = "bind") <=> (i = 1)
NoEmptyAlter == \A i \in 1 .. Len(st.sent) : st.sent[i].type = "alter" => st.sent[i].tok > 0
(* (b) the server's tokens are fed back in order, one per step after the first            *)
ServerTokensFed ==
  prov.auth => /\ Len(st.fed) >= 1 /\ st.fed[1] = -1
               /\ \A i \in 2 .. Len(st.fed) : i - 1 <= Len(AckToks) /\ st.fed[i] = AckToks[i - 1]
(* (c) no step once the context is complete                                               *)
StopsWhenComplete == st.stepsAfterComplete = 0 /\ st.leg <= prov.legs
(* (d) a request only on an accepted context                                              *)
(* stated on the server's own words (the result vector of its first ack), not on the client's bookkeeping *)
FirstAckIdx == CHOOSE j \in 1 .. Len(script) : script[j].k = "ack" /\ \A k \in 1 .. j - 1 : script[k].k # "ack"
RequestOnlyOnAccepted ==
  \A i \in 1 .. Len(st.sent) : st.sent[i].type = "request" =>
     /\ \E j \in 1 .. Len(script) : script[j].k = "ack"
     /\ \A c \in st.sent[i].ctxs : script[FirstAckIdx].res[c + 1] = "acc"
(* (e) header signing only when both sides advertised it; exactly then for consistent servers *)
ConsistentServer == \A i, j \in 1 .. Len(script) : (script[i].k = "ack" /\ script[j].k = "ack") => script[i].sign = script[j].sign
SignHeader ==
  \A i \in 1 .. Len(st.sent) : st.sent[i].type = "request" =>
     /\ st.sent[i].sign => (st.advertised /\ st.ackSign)
     /\ ConsistentServer => (st.sent[i].sign <=> (st.advertised /\ st.ackSign))
(* (f) rejections surface as errors                                                        *)
FailClosed ==
  (\E j \in 1 .. Len(script) : script[j].k \in {"nak", "fault", "eof"} \/ (script[j].k \in {"response", "wrongack"} /\ j < Len(script))
                               \/ (script[j].k = "wrongack" /\ st.pc # "done"))
     => st.pc = "error"
NoRequestAfterRejection ==
  (st.pc = "error" /\ \E i \in 1 .. Len(st.sent) : st.sent[i].type = "request")
     => script[Len(script)].k # "response"
BoundedExchange == Len(st.sent) <= MaxLegs + 2

Emit == Terminal(st) => PrintT(<<"CASE", prov, script, st>>)
=============================================================================
