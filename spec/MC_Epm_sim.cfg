CONSTANT MinTowers = 4
CONSTANT MaxTowers = 6
CONSTANT AdvMax = 6
INIT Init
NEXT Next
INVARIANT IterationsBounded
INVARIANT WellFormedIsDecoded
INVARIANT AbsurdCountIsRejected
INVARIANT Aligned
INVARIANT PortRule
INVARIANT EmitCase
