CONSTANTS MaxLen = 5
          EmitFrom = 5
INIT Init
NEXT Next
INVARIANT RefIsBest
INVARIANT PermutationInvariant
CONSTRAINT Emit
CHECK_DEADLOCK FALSE
