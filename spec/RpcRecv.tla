------------------------------ MODULE RpcRecv ------------------------------
(***************************************************************************)
(* Receiving one connection-oriented RPC PDU from a byte stream.           *)
(* The peer's reply of FragLen bytes (FragLen is also what its header      *)
(* announces in frag_len) arrives in TCP segments ("chunks"); a read for   *)
(* `want` bytes returns at most the bytes of the segment currently         *)
(* available; once the peer has closed, a read returns 0 bytes (EOF).      *)
(* The client reads exactly 16 header bytes, learns frag_len, then reads   *)
(* exactly frag_len - 16 body bytes.                                       *)
(*                                                                         *)
(* Bytes are abstracted to their index in the reply: buf is the sequence   *)
(* of indices the client has placed in its PDU buffer, in buffer order.    *)
(***************************************************************************)
EXTENDS Integers, Sequences, TLC

CONSTANTS FragLen,     \* length of the reply, >= 16
          MaxChunks,   \* segmentations explored have at most this many segments
          EofPoints    \* set of n: the peer closes after sending only n bytes (n < FragLen), or {} 

HeaderLen == 16
VARIABLES chunks,  \* sizes of the segments still to arrive (head = currently readable)
          sent,    \* bytes handed to the client so far
          limit,   \* total bytes the peer will send before closing (FragLen = complete reply)
          phase,   \* "hdr" | "body" | "done" | "error"
          buf,     \* indices placed in the client's buffer
          eofReads,\* reads that returned 0
          hist,    \* observation: the read results
          plan     \* observation: the segmentation chosen initially (for replay)

vars == <<chunks, sent, limit, phase, buf, eofReads, hist, plan>>

RECURSIVE Sum(_)
Sum(s) == IF s = <<>> THEN 0 ELSE Head(s) + Sum(Tail(s))

(* every way to cut `total` bytes into 1..MaxChunks non-empty segments          *)
RECURSIVE Cuts(_, _)
Cuts(total, k) ==
  IF total = 0 THEN {<<>>}
  ELSE IF k = 1 THEN {<<total>>}
  ELSE {<<total>>} \cup UNION {{<<n>> \o r : r \in Cuts(total - n, k - 1)} : n \in 1 .. total - 1}

Init ==
  /\ limit \in {FragLen} \cup EofPoints
  /\ chunks \in Cuts(limit, MaxChunks)
  /\ plan = chunks
  /\ sent = 0 /\ phase = "hdr" /\ buf = <<>> /\ eofReads = 0 /\ hist = <<>>

Want == IF phase = "hdr" THEN HeaderLen - Len(buf) ELSE FragLen - Len(buf)

(* a read returns the available part of the current segment                      *)
ReadReturns ==
  /\ phase \in {"hdr", "body"}
  /\ chunks # <<>>
  /\ LET n == IF Want < Head(chunks) THEN Want ELSE Head(chunks)
         nb == buf \o [i \in 1 .. n |-> sent + i]
     IN /\ n > 0
        /\ buf' = nb
        /\ sent' = sent + n
        /\ chunks' = IF n = Head(chunks) THEN Tail(chunks) ELSE <<Head(chunks) - n>> \o Tail(chunks)
        /\ phase' = IF phase = "hdr" /\ Len(nb) = HeaderLen
                      THEN (IF FragLen = HeaderLen THEN "done" ELSE "body")
                    ELSE IF phase = "body" /\ Len(nb) = FragLen THEN "done"
                    ELSE phase
        /\ hist' = Append(hist, n)
  /\ UNCHANGED <<limit, eofReads, plan>>

(* the peer has closed and nothing is left: the read returns 0 and the client     *)
(* gives up with an error                                                         *)
ReadEof ==
  /\ phase \in {"hdr", "body"}
  /\ chunks = <<>>
  /\ phase' = "error"
  /\ eofReads' = eofReads + 1
  /\ hist' = Append(hist, 0)
  /\ UNCHANGED <<chunks, sent, limit, buf, plan>>

Next == ReadReturns \/ ReadEof
Spec == Init /\ [][Next]_vars /\ WF_vars(Next)

Terminal == phase \in {"done", "error"}

(* ---- properties ---------------------------------------------------------------- *)
TypeOK == phase \in {"hdr", "body", "done", "error"} /\ sent <= limit /\ Len(buf) = sent

(* identical reassembly under any segmentation                                       *)
ReassembledInOrder == phase = "done" => buf = [i \in 1 .. FragLen |-> i]
PrefixInOrder == buf = [i \in 1 .. Len(buf) |-> i]
(* complete replies are decoded, truncated ones are errors after exactly one EOF read  *)
DoneIffComplete == Terminal => (phase = "done" <=> limit = FragLen)
PromptError == eofReads <= 1 /\ (phase = "error" => eofReads = 1)
NeverOverRead == sent <= FragLen
Terminates == <>Terminal

(* emission of every schedule for the replay driver                                  *)
Emit == Terminal => PrintT(<<"SCHED", limit, plan>>)
=============================================================================
