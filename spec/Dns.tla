-------------------------------- MODULE Dns --------------------------------
(***************************************************************************)
(* DC discovery (MS-ADTS 6.3.6 DC locator via DNS): the SRV owner name     *)
(* that is queried and which record of the answer may be returned.         *)
(* Constant level; MC_Dns (generator) and TraceDns EXTEND it.              *)
(*                                                                         *)
(* Text (names, targets) is a sequence of code points.  An SRV record is   *)
(* [prio, weight, port, target].                                           *)
(***************************************************************************)
EXTENDS Naturals, Sequences, FiniteSets

Dot == 46
(* "_ldap._tcp.dc._msdcs"                                                   *)
Prefix == <<95, 108, 100, 97, 112, 46, 95, 116, 99, 112, 46, 100, 99, 46, 95, 109, 115, 100, 99, 115>>

(* "no domain given" is the empty name (TLC cannot compare a tagged value with a sequence  *)
(* of code points; an empty domain cannot be asked for anyway)                              *)
NoDomain == <<>>
(* the owner name of the SRV query; without a domain the bare prefix is    *)
(* asked and the resolver's search list supplies the domain                *)
QueryName(domain) == IF domain = NoDomain THEN Prefix ELSE Prefix \o <<Dot>> \o domain
NeedsSearchList(domain) == domain = NoDomain

(* target as returned: the trailing dot of an absolute name removed         *)
Strip(t) == IF Len(t) >= 1 /\ t[Len(t)] = Dot THEN SubSeq(t, 1, Len(t) - 1) ELSE t
StripRec(r) == [r EXCEPT !.target = Strip(r.target)]

(* RFC 2782 as simplified by the property: lowest priority, among those the *)
(* highest weight; ties are free.                                           *)
BestIdx(answers) ==
  {i \in 1 .. Len(answers) :
     \A j \in 1 .. Len(answers) :
        \/ answers[j].prio > answers[i].prio
        \/ answers[j].prio = answers[i].prio /\ answers[j].weight <= answers[i].weight}

(* r may be returned for this answer: it is the stripped form of a best     *)
(* record, port / weight / priority unchanged                               *)
IsBest(r, answers) == \E i \in BestIdx(answers) : r = StripRec(answers[i])

(* a deterministic reference choice: the first best record in answer order  *)
RefIdx(answers) == CHOOSE i \in BestIdx(answers) : \A k \in BestIdx(answers) : i <= k
RefChoice(answers) == StripRec(answers[RefIdx(answers)])
=============================================================================
