CONSTANT Fan = 32
CONSTANT Plaintexts <- T_P
CONSTANT SidClasses <- T_S
CONSTANT Instants <- T_I
CONSTANT MaxProtects = 1
CONSTANT MaxTampers = 1
INIT TInit
NEXT TNext
