------------------------------- MODULE RpcPdu -------------------------------
(***************************************************************************)
(* Byte layout of the connection-oriented DCE/RPC PDUs the dpapi-ng client *)
(* uses (C706 chapter 12/13, MS-RPCE 2.2.2): common header, security       *)
(* trailer, bind / alter_context, bind_ack / alter_context_resp, bind_nak, *)
(* request, response, fault and the MS-RPCE verification trailer.          *)
(*                                                                         *)
(* Constant level (no VARIABLES): MC_RpcPdu, Epm and the Trace modules     *)
(* EXTEND it.  Messages are records, byte strings are Seq(0..255); UUIDs   *)
(* are 16-byte sequences in wire order; 32-bit quantities are 4-byte       *)
(* little-endian sequences (TLC ints are 32-bit signed), 16-bit and 8-bit  *)
(* quantities are naturals.  Optional parts are sequences of length 0 / 1. *)
(*                                                                         *)
(* Every decoder loop (context list, result list, version list, command    *)
(* list) is one *step operator* over a loop state                          *)
(*     [cur, left, iters, done, ok, items]                                 *)
(* cur   = offset of the next item, left = announced items still to read   *)
(* (or -1 for "until the END flag"), iters = work done so far.  The        *)
(* reference decoder never reads an item that is not completely inside the *)
(* data: an announced count or a missing end marker cannot make it iterate *)
(* more than  available / minimal item size + 1  times (MC_RpcPdu checks   *)
(* this and termination on the step machine; Run is the same step iterated)*)
(***************************************************************************)
EXTENDS Naturals, Sequences

Byte == 0 .. 255
Zeros(n) == [i \in 1 .. n |-> 0]
LE16(n) == <<n % 256, (n \div 256) % 256>>
LE32(n) == <<n % 256, (n \div 256) % 256, (n \div 65536) % 256, (n \div 16777216) % 256>>
BE16(n) == <<(n \div 256) % 256, n % 256>>
PadTo(n, m) == (m - (n % m)) % m                 \* bytes needed to make n a multiple of m
Has(b, o, n) == o + n <= Len(b)                   \* n bytes at 0-based offset o are inside b
Sub(b, o, n) == SubSeq(b, o + 1, o + n)           \* n bytes at 0-based offset o
Rd16(b, o) == b[o + 1] + 256 * b[o + 2]
Min2(a, b) == IF a <= b THEN a ELSE b
IsBytes(s) == \A i \in 1 .. Len(s) : s[i] \in Byte
RECURSIVE Cat(_)
Cat(ss) == IF Len(ss) = 0 THEN <<>> ELSE Head(ss) \o Cat(Tail(ss))

(* ---- packet types and flags -------------------------------------------- *)
PT_REQUEST == 0   PT_RESPONSE == 2   PT_FAULT == 3   PT_BIND == 11   PT_BIND_ACK == 12
PT_BIND_NAK == 13   PT_ALTER_CONTEXT == 14   PT_ALTER_CONTEXT_RESP == 15
PFC_OBJECT_UUID == 128
HasObjectFlag(flags) == (flags \div 128) % 2 = 1

KindOf(ptype) ==
  CASE ptype = 0 -> "request" [] ptype = 2 -> "response" [] ptype = 3 -> "fault"
    [] ptype = 11 -> "bind" [] ptype = 12 -> "bind_ack" [] ptype = 13 -> "bind_nak"
    [] ptype = 14 -> "alter_context" [] ptype = 15 -> "alter_context_resp" [] OTHER -> "unknown"
PtypeOf(kind) ==
  CASE kind = "request" -> 0 [] kind = "response" -> 2 [] kind = "fault" -> 3 [] kind = "bind" -> 11
    [] kind = "bind_ack" -> 12 [] kind = "bind_nak" -> 13 [] kind = "alter_context" -> 14
    [] kind = "alter_context_resp" -> 15 [] OTHER -> 255

(* ---- common header (16 bytes) ---------------------------------------------
   rpc_vers, rpc_vers_minor, PTYPE, pfc_flags, packed_drep[4], frag_length (LE16),
   auth_length (LE16), call_id (LE32)                                            *)
EncHeader(h) ==
  <<h.ver, h.minor, h.ptype, h.flags>> \o h.drep \o LE16(h.frag_len) \o LE16(h.auth_len) \o h.call_id
DecHeader(b) ==
  [ver |-> b[1], minor |-> b[2], ptype |-> b[3], flags |-> b[4], drep |-> Sub(b, 4, 4),
   frag_len |-> Rd16(b, 8), auth_len |-> Rd16(b, 10), call_id |-> Sub(b, 12, 4)]
WellFormedHeader(h) ==
  /\ h.ver = 5 /\ h.minor = 0
  /\ Len(h.drep) = 4 /\ h.drep[1] \div 16 = 1 /\ h.drep[3] = 0 /\ h.drep[4] = 0   \* little-endian integers
  /\ h.flags \in Byte /\ h.frag_len \in 16 .. 65535 /\ h.auth_len \in 0 .. 65535 /\ Len(h.call_id) = 4

(* ---- security trailer: auth_type, auth_level, auth_pad_length, auth_reserved = 0,
   auth_context_id (LE32), auth_value                                            *)
EncSec(s) == <<s.type, s.level, s.pad, 0>> \o s.ctx \o s.auth
DecSec(b) ==
  IF Len(b) < 8 THEN [ok |-> FALSE]
  ELSE [ok |-> TRUE, v |-> [type |-> b[1], level |-> b[2], pad |-> b[3], ctx |-> Sub(b, 4, 4),
                            auth |-> Sub(b, 8, Len(b) - 8)]]

(* ---- presentation syntax identifier: UUID (wire order) + version LE16 + minor LE16 *)
EncSyn(x) == x.uuid \o LE16(x.ver) \o LE16(x.minor)
DecSyn(b, o) == [uuid |-> Sub(b, o, 16), ver |-> Rd16(b, o + 16), minor |-> Rd16(b, o + 18)]

(* ---- generic decoder loop state -------------------------------------------------- *)
LoopInit(cur, left) == [cur |-> cur, left |-> left, iters |-> 0, done |-> FALSE, ok |-> TRUE, items |-> <<>>]
Stop(s, ok) == [s EXCEPT !.done = TRUE, !.ok = ok]
Advance(s, item, size, work) ==
  [s EXCEPT !.cur = @ + size, !.left = IF @ > 0 THEN @ - 1 ELSE @, !.iters = @ + work, !.items = Append(@, item)]

(* ---- bind / alter_context ------------------------------------------------------------
   max_xmit_frag LE16, max_recv_frag LE16, assoc_group_id LE32, n_context_elem (1) + 3 reserved,
   context elements: p_cont_id LE16, n_transfer_syn (1) + 1 reserved, abstract syntax,
   transfer syntaxes                                                                    *)
EncCtx(c) ==
  LE16(c.id) \o <<Len(c.transfer), 0>> \o EncSyn(c.abstract)
    \o Cat([j \in 1 .. Len(c.transfer) |-> EncSyn(c.transfer[j])])
EncBindBody(m) ==
  LE16(m.max_xmit) \o LE16(m.max_recv) \o m.assoc \o <<Len(m.ctxs), 0, 0, 0>>
    \o Cat([i \in 1 .. Len(m.ctxs) |-> EncCtx(m.ctxs[i])])

CtxMinItem == 20
CtxStep(b, s) ==
  IF s.left = 0 THEN Stop(s, TRUE)
  ELSE IF ~Has(b, s.cur, 24) THEN Stop([s EXCEPT !.iters = @ + 1], FALSE)
  ELSE LET nts == b[s.cur + 3]
       IN IF ~Has(b, s.cur + 24, 20 * nts) THEN Stop([s EXCEPT !.iters = @ + 1], FALSE)
          ELSE Advance(s, [id |-> Rd16(b, s.cur), abstract |-> DecSyn(b, s.cur + 4),
                           transfer |-> [j \in 1 .. nts |-> DecSyn(b, s.cur + 24 + 20 * (j - 1))]],
                       24 + 20 * nts, 1 + nts)

(* ---- bind_ack / alter_context_resp ---------------------------------------------------
   max_xmit LE16, max_recv LE16, assoc_group LE32, sec_addr: LE16 length + string incl. NUL
   (length 0 = no secondary address), pad so that 2 + length is a multiple of 4 (sa_pad: the pad octets are
   not interpreted; conforming senders are seen to leave arbitrary octets there, so they are a free wire value),
   n_results (1) + 3 reserved, results: result LE16, reason LE16, transfer syntax uuid + LE32 version *)
SecAddrWire(a) == IF Len(a) = 0 THEN <<>> ELSE a \o <<0>>
EncResult(r) == LE16(r.result) \o LE16(r.reason) \o r.uuid \o r.ver
EncBindAckBody(m) ==
  LET sa == SecAddrWire(m.sec_addr)
  IN LE16(m.max_xmit) \o LE16(m.max_recv) \o m.assoc \o LE16(Len(sa)) \o sa \o m.sa_pad
       \o <<Len(m.results), 0, 0, 0>> \o Cat([i \in 1 .. Len(m.results) |-> EncResult(m.results[i])])

ResMinItem == 24
ResStep(b, s) ==
  IF s.left = 0 THEN Stop(s, TRUE)
  ELSE IF ~Has(b, s.cur, 24) THEN Stop([s EXCEPT !.iters = @ + 1], FALSE)
  ELSE Advance(s, [result |-> Rd16(b, s.cur), reason |-> Rd16(b, s.cur + 2), uuid |-> Sub(b, s.cur + 4, 16),
                   ver |-> Sub(b, s.cur + 20, 4)], 24, 1)

(* ---- bind_nak: provider_reject_reason LE16, n_protocols (1), (major, minor) pairs, pad to 4 *)
EncBindNakBody(m) ==
  LE16(m.reason) \o <<Len(m.versions)>> \o Cat([i \in 1 .. Len(m.versions) |-> m.versions[i]])
    \o Zeros(PadTo(3 + 2 * Len(m.versions), 4))
VerMinItem == 2
VerStep(b, s) ==
  IF s.left = 0 THEN Stop(s, TRUE)
  ELSE IF ~Has(b, s.cur, 2) THEN Stop([s EXCEPT !.iters = @ + 1], FALSE)
  ELSE Advance(s, Sub(b, s.cur, 2), 2, 1)

(* ---- request / response / fault --------------------------------------------------------- *)
EncRequestBody(m) == m.alloc \o LE16(m.ctx) \o LE16(m.opnum) \o Cat(m.obj) \o m.stub
EncResponseBody(m) == m.alloc \o LE16(m.ctx) \o <<m.cancel, 0>> \o m.stub
EncFaultBody(m) == m.alloc \o LE16(m.ctx) \o <<m.cancel, m.fflags>> \o m.status \o Zeros(4) \o m.stub

(* ---- verification trailer (MS-RPCE 2.2.2.13) ------------------------------------------------
   signature, then commands: LE16 (type | 0x4000 END | 0x8000 MUST), LE16 length, value          *)
VtSignature == <<138, 227, 19, 113, 2, 244, 54, 113>>
SEC_VT_COMMAND_END == 16384
SEC_VT_MUST_PROCESS == 32768
IsEnd(flags) == (flags \div 16384) % 2 = 1
BitmaskValue(c) == c.bits                                                  \* 4 bytes
PContextValue(c) == EncSyn(c.iface) \o EncSyn(c.transfer)                  \* 40 bytes
Header2Value(c) == <<c.ptype, 0, 0, 0>> \o c.drep \o c.call_id \o LE16(c.ctx) \o LE16(c.opnum)  \* 16 bytes
CmdType(c) == CASE c.k = "bitmask" -> 1 [] c.k = "pcontext" -> 2 [] c.k = "header2" -> 3 [] OTHER -> c.type
CmdValue(c) ==
  CASE c.k = "bitmask" -> BitmaskValue(c) [] c.k = "pcontext" -> PContextValue(c)
    [] c.k = "header2" -> Header2Value(c) [] OTHER -> c.value
EncCmd(c) == LE16(CmdType(c) + c.flags) \o LE16(Len(CmdValue(c))) \o CmdValue(c)
EncVt(cmds) == VtSignature \o Cat([i \in 1 .. Len(cmds) |-> EncCmd(cmds[i])])

TypedCmd(type, flags, v) ==
  IF type = 1 /\ Len(v) = 4 THEN [k |-> "bitmask", flags |-> flags, bits |-> v]
  ELSE IF type = 2 /\ Len(v) = 40 THEN [k |-> "pcontext", flags |-> flags, iface |-> DecSyn(v, 0), transfer |-> DecSyn(v, 20)]
  ELSE IF type = 3 /\ Len(v) = 16 /\ v[2] = 0 /\ v[3] = 0 /\ v[4] = 0
    THEN [k |-> "header2", flags |-> flags, ptype |-> v[1], drep |-> Sub(v, 4, 4), call_id |-> Sub(v, 8, 4),
          ctx |-> Rd16(v, 12), opnum |-> Rd16(v, 14)]
  ELSE [k |-> "raw", type |-> type, flags |-> flags, value |-> v]
DecCmd(b, o) ==
  IF ~Has(b, o, 4) THEN [ok |-> FALSE]
  ELSE LET field == Rd16(b, o)
           n == Rd16(b, o + 2)
       IN IF ~Has(b, o + 4, n) THEN [ok |-> FALSE]
          ELSE [ok |-> TRUE, size |-> 4 + n,
                v |-> TypedCmd(field % 16384, (field \div 16384) * 16384, Sub(b, o + 4, n))]
CmdMinItem == 4
CmdStep(b, s) ==          \* s.left = -1: the list ends at the command carrying the END flag
  LET d == DecCmd(b, s.cur)
  IN IF ~d.ok THEN Stop([s EXCEPT !.iters = @ + 1], FALSE)      \* data exhausted before END: malformed
     ELSE LET t == Advance(s, d.v, d.size, 1) IN IF IsEnd(d.v.flags) THEN Stop(t, TRUE) ELSE t
WellFormedVt(cmds) ==
  /\ Len(cmds) >= 1
  /\ \A i \in 1 .. Len(cmds) : IsEnd(cmds[i].flags) <=> i = Len(cmds)
  /\ \A i \in 1 .. Len(cmds) : cmds[i].flags \in {0, 16384, 32768, 49152} /\ CmdType(cmds[i]) \in 0 .. 16383
                                /\ (cmds[i].k = "raw" => cmds[i].type \notin {1, 2, 3})

(* ---- the loops, uniformly -------------------------------------------------------------- *)
Step(kind, b, s) ==
  CASE kind = "ctx" -> CtxStep(b, s) [] kind = "res" -> ResStep(b, s)
    [] kind = "ver" -> VerStep(b, s) [] kind = "cmd" -> CmdStep(b, s)
MinItem(kind) ==
  CASE kind = "ctx" -> CtxMinItem [] kind = "res" -> ResMinItem [] kind = "ver" -> VerMinItem [] kind = "cmd" -> CmdMinItem
RECURSIVE Run(_, _, _)
Run(kind, b, s) == IF s.done THEN s ELSE Run(kind, b, Step(kind, b, s))
IterBound(kind, avail) == avail \div MinItem(kind) + 1

DecVt(b) ==
  IF ~Has(b, 0, 8) \/ Sub(b, 0, 8) # VtSignature THEN [ok |-> FALSE]
  ELSE LET r == Run("cmd", b, LoopInit(8, 0 - 1)) IN [ok |-> r.ok, cmds |-> r.items, end |-> r.cur, iters |-> r.iters]

(* ---- whole PDUs ------------------------------------------------------------------------ *)
EncBody(m) ==
  CASE m.kind \in {"bind", "alter_context"} -> EncBindBody(m)
    [] m.kind \in {"bind_ack", "alter_context_resp"} -> EncBindAckBody(m)
    [] m.kind = "bind_nak" -> EncBindNakBody(m)
    [] m.kind = "request" -> EncRequestBody(m)
    [] m.kind = "response" -> EncResponseBody(m)
    [] m.kind = "fault" -> EncFaultBody(m)
EncPdu(m) == EncHeader(m.hdr) \o EncBody(m) \o (IF Len(m.sec) = 0 THEN <<>> ELSE EncSec(m.sec[1]))

WellFormedPdu(m) ==
  /\ WellFormedHeader(m.hdr)
  /\ m.hdr.ptype = PtypeOf(m.kind)
  /\ m.hdr.frag_len = Len(EncPdu(m))
  /\ Len(m.sec) <= 1
  /\ IF Len(m.sec) = 0 THEN m.hdr.auth_len = 0
     ELSE Len(m.sec[1].auth) >= 1 /\ m.hdr.auth_len = Len(m.sec[1].auth) /\ m.kind # "bind_nak"
  /\ (m.kind = "request" => (Len(m.obj) <= 1 /\ (HasObjectFlag(m.hdr.flags) <=> Len(m.obj) = 1)))
  /\ (m.kind \in {"bind_ack", "alter_context_resp"} =>
        /\ \A i \in 1 .. Len(m.sec_addr) : m.sec_addr[i] # 0
        /\ Len(m.sa_pad) = PadTo(2 + Len(SecAddrWire(m.sec_addr)), 4))

Err == [kind |-> "error"]
DecBindBody(kind, h, sec, b) ==
  IF ~Has(b, 0, 12) THEN Err
  ELSE LET r == Run("ctx", b, LoopInit(12, b[9]))
       IN IF ~r.ok THEN Err
          ELSE [kind |-> kind, hdr |-> h, sec |-> sec, max_xmit |-> Rd16(b, 0), max_recv |-> Rd16(b, 2),
                assoc |-> Sub(b, 4, 4), ctxs |-> r.items]
DecBindAckBody(kind, h, sec, b) ==
  IF ~Has(b, 0, 10) THEN Err
  ELSE LET n == Rd16(b, 8)
           o == 10 + n + PadTo(2 + n, 4)
       IN IF ~Has(b, o, 4) THEN Err
          ELSE LET r == Run("res", b, LoopInit(o + 4, b[o + 1]))
               IN IF ~r.ok THEN Err
                  ELSE [kind |-> kind, hdr |-> h, sec |-> sec, max_xmit |-> Rd16(b, 0), max_recv |-> Rd16(b, 2),
                        assoc |-> Sub(b, 4, 4), sec_addr |-> IF n = 0 THEN <<>> ELSE Sub(b, 10, n - 1),
                        sa_pad |-> Sub(b, 10 + n, PadTo(2 + n, 4)),
                        results |-> r.items]
DecBindNakBody(h, b) ==
  IF ~Has(b, 0, 3) THEN Err
  ELSE LET r == Run("ver", b, LoopInit(3, b[3]))
       IN IF ~r.ok THEN Err ELSE [kind |-> "bind_nak", hdr |-> h, sec |-> <<>>, reason |-> Rd16(b, 0), versions |-> r.items]
DecRequestBody(h, sec, b) ==
  LET o == IF HasObjectFlag(h.flags) THEN 24 ELSE 8
  IN IF ~Has(b, 0, o) THEN Err
     ELSE [kind |-> "request", hdr |-> h, sec |-> sec, alloc |-> Sub(b, 0, 4), ctx |-> Rd16(b, 4), opnum |-> Rd16(b, 6),
           obj |-> IF o = 24 THEN <<Sub(b, 8, 16)>> ELSE <<>>, stub |-> Sub(b, o, Len(b) - o)]
DecResponseBody(h, sec, b) ==
  IF ~Has(b, 0, 8) THEN Err
  ELSE [kind |-> "response", hdr |-> h, sec |-> sec, alloc |-> Sub(b, 0, 4), ctx |-> Rd16(b, 4), cancel |-> b[7],
        stub |-> Sub(b, 8, Len(b) - 8)]
DecFaultBody(h, sec, b) ==
  IF ~Has(b, 0, 16) THEN Err
  ELSE [kind |-> "fault", hdr |-> h, sec |-> sec, alloc |-> Sub(b, 0, 4), ctx |-> Rd16(b, 4), cancel |-> b[7],
        fflags |-> b[8], status |-> Sub(b, 8, 4), stub |-> Sub(b, 16, Len(b) - 16)]

DecPdu(b) ==
  IF Len(b) < 16 THEN Err
  ELSE LET h == DecHeader(b)
       IN IF h.frag_len < 16 \/ h.frag_len > Len(b) THEN Err
          ELSE LET frag == Sub(b, 16, h.frag_len - 16)
                   tl == IF h.auth_len = 0 THEN 0 ELSE h.auth_len + 8
               IN IF tl > Len(frag) THEN Err
                  ELSE LET body == Sub(frag, 0, Len(frag) - tl)
                           sec == IF tl = 0 THEN <<>> ELSE <<DecSec(Sub(frag, Len(frag) - tl, tl)).v>>
                           kind == KindOf(h.ptype)
                       IN CASE kind \in {"bind", "alter_context"} -> DecBindBody(kind, h, sec, body)
                            [] kind \in {"bind_ack", "alter_context_resp"} -> DecBindAckBody(kind, h, sec, body)
                            [] kind = "bind_nak" -> DecBindNakBody(h, body)
                            [] kind = "request" -> DecRequestBody(h, sec, body)
                            [] kind = "response" -> DecResponseBody(h, sec, body)
                            [] kind = "fault" -> DecFaultBody(h, sec, body)
                            [] OTHER -> Err

(* ---- the work bound of the property's termination clause ------------------------------------
   "terminates after work proportional to its length": interpreter line events of the decoder
   (files of the library only) are at most 400 per input byte + 20,000 (DESIGN 4.5).          *)
WorkBound(len) == 400 * len + 20000
=============================================================================
