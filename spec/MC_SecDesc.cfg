INIT LInit
NEXT LNext
