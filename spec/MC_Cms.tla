------------------------------- MODULE MC_Cms -------------------------------
(***************************************************************************)
(* TLC checks on Cms.tla itself, one state per enumerated blob shape:      *)
(* ParseBlob(BlobBytes(x, layout)) gives x back with nothing left over     *)
(* (spec-level inverse; ParseBlob only accepts strict minimal DER, so all  *)
(* lengths are minimal and nested lengths add up), the templates hold      *)
(* exactly for the shapes they describe, and for Windows-shaped values the *)
(* bytes equal DerEnc of the whole blob as one Der.tla value tree, which   *)
(* DerDec decodes back and MinimalDer accepts.                             *)
(***************************************************************************)
EXTENDS Cms, TLC
CONSTANT BigLens          \* {65535, 65536} (quick) ; {65535, 65536, 70000} (thorough)
VARIABLE v

Pat(n, a) == [i \in 1 .. n |-> (i * a) % 256]
KeyInfoLens == {0, 1, 32, 127, 128, 255, 256, 600, 800}
NamePairs == {<<<<>>, <<>>>>,
              <<<<100, 111, 109, 97, 105, 110, 46, 116, 101, 115, 116>>, <<102, 46, 116, 101, 115, 116>>>>,
              <<<<100, 233, 8364, 128512, 46, 1114111>>, <<65536, 55295, 57344, 65535>>>>}
Nums == {[version |-> <<0, 1>>, flags |-> <<0, 0>>, l0 |-> <<0, 361>>, l1 |-> <<0, 31>>, l2 |-> <<0, 0>>],
         [version |-> <<0, 1>>, flags |-> <<0, 1>>, l0 |-> <<65535, 65535>>, l1 |-> <<0, 0>>, l2 |-> <<32768, 0>>],
         [version |-> <<65535, 65535>>, flags |-> <<32768, 2>>, l0 |-> <<0, 0>>, l1 |-> <<0, 65535>>, l2 |-> <<1, 0>>]}
Guid == [d1 |-> <<4660, 22136>>, d2 |-> 43981, d3 |-> 61185, d4 |-> <<1, 2, 3, 4, 5, 6, 7, 255>>]
Sid == <<83, 45, 49, 45, 53, 45, 50, 49, 45, 49, 48, 48, 49>>
Nonce == Pat(12, 9)
WinCt == [p |-> TRUE, raw |-> GcmParams(Nonce, 16)]
CekPars == {NoParams, [p |-> TRUE, raw |-> <<5, 0>>]}
CtPars == {WinCt, NoParams, [p |-> TRUE, raw |-> GcmParams(Pat(16, 3), 16)], [p |-> TRUE, raw |-> GcmParams(Nonce, 12)]}

X(num, kl, names, cp, tp, clen) ==
  [kid |-> [version |-> num.version, flags |-> num.flags, l0 |-> num.l0, l1 |-> num.l1, l2 |-> num.l2, g |-> Guid,
            key_info |-> Pat(kl, 7), domain |-> names[1], forest |-> names[2]],
   sid |-> Sid, enc_cek |-> Pat(40, 5), cek_alg |-> OidAesWrap, cek_par |-> cp,
   ct_alg |-> OidAesGcm, ct_par |-> tp, content |-> Pat(clen, 11)]

SmallShapes == {<<X(num, kl, names, cp, tp, clen), lay>> :
                  num \in Nums, kl \in KeyInfoLens, names \in NamePairs, cp \in CekPars, tp \in {WinCt, NoParams},
                  clen \in {0, 1, 127, 128, 255, 256}, lay \in Layouts}
ParamShapes == {<<X(CHOOSE n \in Nums : n.flags = <<0, 0>>, 32, <<<<>>, <<>>>>, cp, tp, 16), lay>> :
                  cp \in CekPars, tp \in CtPars, lay \in Layouts}
BigShapes == {<<X(CHOOSE n \in Nums : n.flags = <<0, 0>>, kl, <<<<>>, <<97>>>>, NoParams, tp, clen), lay>> :
                kl \in {0, 800}, tp \in {WinCt, NoParams}, clen \in BigLens, lay \in Layouts}
Shapes == SmallShapes \cup ParamShapes \cup BigShapes

Init == v \in Shapes
Next == UNCHANGED v

x == v[1]
layout == v[2]
IsWin == x.cek_alg = OidAesWrap /\ x.cek_par = NoParams /\ x.ct_alg = OidAesGcm /\ x.ct_par = WinCt

Inverse ==
  LET b == BlobBytes(x, layout)
      p == ParseBlob(b)
  IN /\ p.ok /\ p.x = x
     /\ p.present = (layout = "envelope")
     /\ (layout = "envelope" => p.trailing = <<>>)
     /\ (layout = "trailing" => p.trailing = x.content)
Templates ==
  LET p == ParseBlob(BlobBytes(x, layout))
  IN CmsTemplateP(p) /\ (WindowsTemplateP(p) <=> IsWin)
TreeRoute ==
  IsWin =>
    LET present == layout = "envelope"
        t == WinTree(x, Nonce, present)
        e == ContentInfo(x, present)
    IN /\ DerEnc(t) = e
       /\ DerDec(TypeOf(t), BlobBytes(x, layout)) = <<t, Len(e)>>
       /\ MinimalDer(t, e)
OptionalContent ==            \* omitted empty content parses to the same value
  x.content = <<>> => LET p == ParseBlob(ContentInfo(x, FALSE)) IN p.ok /\ p.x = x /\ ~p.present
KeyIdInverse == LET r == KeyIdParse(KeyIdBytes(x.kid)) IN r.ok /\ r.k = x.kid

(* known answer: KeyIdentifier of tests/test_blob.py style, and mutations the parse must reject *)
X0 == X(CHOOSE n \in Nums : n.flags = <<0, 0>>, 32, <<<<97>>, <<98>>>>, NoParams, WinCt, 300)
B0 == BlobBytes(X0, "envelope")
Put(b, i, val) == [j \in 1 .. Len(b) |-> IF j = i THEN val ELSE b[j]]
ASSUME /\ SubSeq(B0, 1, 2) = <<48, 130>> /\ SubSeq(B0, 5, 15) = <<6, 9, 42, 134, 72, 134, 247, 13, 1, 7, 3>>
       /\ SubSeq(B0, 16, 17) = <<160, 130>> /\ SubSeq(B0, 20, 21) = <<48, 130>> /\ SubSeq(B0, 24, 26) = <<2, 1, 2>>
       /\ SubSeq(B0, 27, 28) = <<49, 129>> /\ SubSeq(B0, 30, 31) = <<162, 129>> /\ SubSeq(B0, 33, 35) = <<2, 1, 4>>
       /\ CmsTemplate(B0) /\ WindowsTemplate(B0)
       /\ ~CmsTemplate(Put(B0, 26, 3))                      \* EnvelopedData version 3
       /\ ParseBlob(Put(B0, 26, 3)).ok
       /\ ~CmsTemplate(Put(B0, 35, 3))                      \* KEKRecipientInfo version 3
       /\ ~ParseBlob(Put(B0, 30, 161)).ok                   \* recipient is not [2]
       /\ ~ParseBlob(Put(B0, 27, 48)).ok                    \* recipientInfos not a SET
       /\ ~ParseBlob(Put(B0, 4, (B0[4] + 1) % 256)).ok      \* outer length off by one
       /\ ~ParseBlob(SubSeq(B0, 1, Len(B0) - 1)).ok         \* truncated
       /\ ~CmsTemplate(B0 \o <<0>>)                         \* in-envelope content and trailing octets
       /\ KeyIdBytes(X0.kid)[5] = 75 /\ Len(KeyIdBytes(X0.kid)) = 52 + 32 + 4 + 4
       /\ SubSeq(KeyIdBytes(X0.kid), 25, 40) = <<120, 86, 52, 18, 205, 171, 1, 239, 1, 2, 3, 4, 5, 6, 7, 255>>
       /\ Utf16z(<<128512>>) = <<61, 216, 0, 222, 0, 0>>
=============================================================================
