CONSTANT BigLens = {65535, 65536}
INIT Init
NEXT Next
INVARIANTS
  Inverse
  Templates
  TreeRoute
  OptionalContent
  KeyIdInverse
