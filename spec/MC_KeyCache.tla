---------------------------- MODULE MC_KeyCache ----------------------------
EXTENDS KeyCache, Json
MC_Pos3 == {<<5, 3>>, <<5, 31>>, <<10, 0>>}
MC_Pos5 == {<<0, 0>>, <<5, 3>>, <<5, 31>>, <<10, 0>>, <<31, 31>>}
MC_NowPos == <<10, 0>>
MC_ClockFixed == <<[l0 |-> 2, pos |-> <<10, 0>>]>>
(* time passes within an L2 interval sequence and across an L0 boundary *)
MC_ClockMoving == <<[l0 |-> 1, pos |-> <<31, 31>>], [l0 |-> 2, pos |-> <<5, 3>>], [l0 |-> 2, pos |-> <<5, 4>>], [l0 |-> 2, pos |-> <<10, 0>>]>>
MC_Rk1 == {"rk1"}
MC_Rk2 == {"rk1", "rk2"}
MC_SD2 == {"sdA", "sdB"}
MC_SD1 == {"sdA"}
MC_L0s == {1, 2}
MC_Ops3 == {"o1", "o2", "o3"}
MC_Ops2 == {"o1", "o2"}
MC_Ops4 == {"o1", "o2", "o3", "o4"}
MC_Both == {"rpc", "pub"}
MC_Seed == {"rpc"}
MC_Faulty == {"rpc", "pub", "err"}
MC_Async == {FALSE}
MC_SyncAsync == {TRUE, FALSE}
(* behaviour emission for replay: every completed behaviour is printed once       *)
Emit == (AllDone /\ hist # <<>> /\ \E o \in Ops : ops[o].st = "done") => PrintT(<<"CASE", ToJson(hist)>>)
DepthBound == TLCGet("level") <= 14
MC_L0now == {2}
(* restriction used to enumerate *every* interleaving of concurrent unprotect calls on one triple *)
OnlyConcurrentUnprotects == loaded = {} /\ \A o \in Ops : ops[o].kind \in {"-", "unprotect"}
=============================================================================
