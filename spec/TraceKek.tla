------------------------------ MODULE TraceKek ------------------------------
(* Case traces for C03.  Each line is one KEK computed by the real library   *)
(* on both sides (new_kek on a public-key / seed envelope, get_kek on the    *)
(* seed-holding side) and by the term evaluator from Kek!DecKekConcrete.     *)
(* For small DH groups TLC recomputes the fixed-width public value and       *)
(* shared secret itself (exponents reduced mod p-1 by the recorder).         *)
EXTENDS Kek, Json, IOUtils, FiniteSetsExt
VARIABLE dummy
TInit == dummy = 0
TNext == UNCHANGED dummy

SmallFails(ln) ==
  LET p == ln.grp[1] g == ln.grp[2] kl == ln.grp[3]
      pubE == FixedWidth(PowMod(g, ln.e, p), kl)
      z == FixedWidth(PowMod(PowMod(g, ln.priv, p), ln.e, p), kl)
  IN (IF ln.keyInfoY # pubE THEN {"public_value_fixed_width_with_leading_zeros"} ELSE {})
     \cup (IF ln.zEnc # z THEN {"shared_secret_fixed_width_on_encrypt_side"} ELSE {})
     \cup (IF ln.zDec # z THEN {"shared_secret_fixed_width_on_decrypt_side"} ELSE {})

Fails(ln) ==
  (IF ln.exc # "" THEN {"kek_computation_must_not_fail"} ELSE {})
  \cup (IF ln.exc = "" /\ ~ln.encEqDec THEN {"encrypt_and_decrypt_side_kek_agree"} ELSE {})
  \cup (IF ln.exc = "" /\ ~ln.decEqRef THEN {"decrypt_side_kek_equals_independent_construction"} ELSE {})
  \cup (IF ln.exc = "" /\ ~ln.encEqRef THEN {"encrypt_side_kek_equals_independent_construction"} ELSE {})
  \cup (IF ln.exc = "" /\ ~ln.keyInfoOK THEN {"key_info_layout_fixed_width"} ELSE {})
  \cup (IF ln.exc = "" /\ ln.small THEN SmallFails(ln) ELSE {})

Result ==
  LET L == ndJsonDeserialize(IOEnv.TRACE_FILE)
      N == Len(L)
      F == [i \in 1 .. N |-> Fails(L[i])]
  IN <<"RESULT", [n |-> N, leadingZero |-> Cardinality({i \in 1 .. N : L[i].zlead > 0 \/ L[i].ylead > 0})],
       {<<L[i].id, F[i]>> : i \in {j \in 1 .. N : F[j] # {}}}>>
ASSUME PrintT(Result)
=============================================================================
