INIT XInit
NEXT XNext
