INIT TInit
NEXT TNext
