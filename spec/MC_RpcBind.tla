---- MODULE MC_RpcBind ----
EXTENDS RpcBind
MC_Codes == {"acc", "user", "prov"}
MC_Toks == {0, 1}
====
