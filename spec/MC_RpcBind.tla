---- MODULE MC_RpcBind ----
EXTENDS RpcBind
MC_Codes == {"acc", "user", "prov", "nack"}   \* "nack" in slot 0: a negotiate_ack is not an acceptance
MC_Toks == {0, 1}
====
