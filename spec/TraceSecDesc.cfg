INIT TInit
NEXT TNext
