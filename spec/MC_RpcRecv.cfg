CONSTANT FragLen = 40
CONSTANT MaxChunks = 4
CONSTANT EofPoints <- MC_Eof
SPECIFICATION Spec
INVARIANT TypeOK
INVARIANT ReassembledInOrder
INVARIANT PrefixInOrder
INVARIANT DoneIffComplete
INVARIANT PromptError
INVARIANT NeverOverRead
PROPERTY Terminates
CHECK_DEADLOCK FALSE
