CONSTANT MaxStub = 300
CONSTANT VtLens <- MC_Vt
CONSTANT SigLens <- MC_Sig
CONSTANT MaxReply = 64
INIT Init
NEXT Next
INVARIANT FramingOK
INVARIANT ReceiverAgrees
INVARIANT RegionsOK
INVARIANT ReplyOK
CHECK_DEADLOCK FALSE
