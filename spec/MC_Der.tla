------------------------------- MODULE MC_Der -------------------------------
(***************************************************************************)
(* TLC checks on Der.tla itself, over enumerated values (one TLC state per *)
(* value): decode(encode(v)) = <<v, all octets>>, also with octets behind  *)
(* it; structural minimality; every proper prefix is rejected; typed       *)
(* injectivity; non-canonical encodings are rejected by DerDec.            *)
(* Part = 0: all integers of <= 2 content octets; Part = 1: tags, lengths, *)
(* OIDs, strings, trees; Part = 2 .. Parts+1: the big-integer family,      *)
(* split over parallel TLC runs.                                           *)
(***************************************************************************)
EXTENDS Der, TLC
CONSTANTS MaxPow, Part, Parts
VARIABLE v

Prim(k, cls, pc, num) == [k |-> k, cls |-> cls, pc |-> pc, num |-> num]
IntT(cls, pc, num, sm) == [k |-> "int", cls |-> cls, pc |-> pc, num |-> num, neg |-> sm.neg, mag |-> sm.mag]
IntV(sm) == IntT(0, 0, 2, sm)
OctT(cls, pc, num, c) == [k |-> "oct", cls |-> cls, pc |-> pc, num |-> num, bytes |-> c]
OctV(c) == OctT(0, 0, 4, c)
BoolV(b) == [k |-> "bool", cls |-> 0, pc |-> 0, num |-> 1, b |-> b]
OidV(a) == [k |-> "oid", cls |-> 0, pc |-> 0, num |-> 6, arcs |-> a]
Utf8V(c) == [k |-> "utf8", cls |-> 0, pc |-> 0, num |-> 12, cps |-> c]
ConsT(cls, num, kids) == [k |-> "cons", cls |-> cls, pc |-> 1, num |-> num, kids |-> kids]
SeqV(kids) == ConsT(0, 16, kids)
SetV(kids) == ConsT(0, 17, kids)

(* every integer of up to two content octets *)
SmallInts == {IntV(SM(i)) : i \in -32768 .. 32767}

(* +-2^k, +-(2^k - 1), +-(2^k + 1) as byte strings, k = 1 .. MaxPow *)
Pow2(k) == <<2 ^ (k % 8)>> \o Fill(0, k \div 8)
Pow2m1(k) == IF k % 8 = 0 THEN Fill(255, k \div 8) ELSE <<2 ^ (k % 8) - 1>> \o Fill(255, k \div 8)
Pow2p1(k) == LET p == Pow2(k) IN [i \in 1 .. Len(p) |-> IF i = Len(p) THEN p[i] + 1 ELSE p[i]]
BigInts == {IntV([neg |-> n, mag |-> m]) :
              n \in BOOLEAN,
              m \in UNION {{Pow2(k), Pow2m1(k), Pow2p1(k)} : k \in {j \in 1 .. MaxPow : j % Parts = Part - 2}}}

(* every class x P/C x tag number family, on several kinds *)
TagNums == (0 .. 30) \cup {31, 32, 127, 128, 16383, 16384, 2097151, 2097152}
TagVals ==
  UNION {{OctT(c, p, n, <<>>), OctT(c, p, n, <<1, 2, 3>>), IntT(c, p, n, SM(-129)),
          [k |-> "bool", cls |-> c, pc |-> p, num |-> n, b |-> TRUE],
          [k |-> "cons", cls |-> c, pc |-> p, num |-> n, kids |-> <<BoolV(FALSE), OctT(c, p, n, <<7>>)>>]} :
         c \in 0 .. 3, p \in 0 .. 1, n \in TagNums}

(* content lengths around 2^7, 2^8, 2^16 (filler content), directly and as nested length *)
Lens == {0, 1, 126, 127, 128, 129, 254, 255, 256, 257, 65534, 65535, 65536, 65537}
LenVals == {OctV(Fill(170, n)) : n \in Lens}
          \cup {SeqV(<<OctV(Fill(85, n)), IntV(SM(1))>>) :
                  n \in (118 .. 130) \cup (246 .. 256) \cup (65525 .. 65532)}

(* OIDs *)
Big64 == <<2, 0, 0, 0, 0, 0, 0, 0, 0, 0>>            \* 2^64 in base 128
Huge == Fill(127, 19)                               \* 2^133 - 1
Second2 == {<<0>>, <<39>>, <<40>>, <<47>>, <<48>>, <<127>>, <<1, 0>>, <<1, 47>>, <<1, 48>>, <<127, 47>>,
            <<127, 48>>, <<127, 127>>, <<1, 0, 0>>, Big64, Huge}
More == {<<0>>, <<1>>, <<127>>, <<1, 0>>, <<127, 127>>, <<1, 0, 0>>, Big64, Huge}
Tails == {<<>>} \cup {<<a>> : a \in More} \cup {<<a, b>> : a \in More, b \in More}
OidVals == {OidV(<<f, s>> \o t) : f \in {<<0>>, <<1>>}, s \in {<<0>>, <<1>>, <<39>>}, t \in Tails}
           \cup {OidV(<<<<2>>, s>> \o t) : s \in Second2, t \in Tails}

CpB == {0, 65, 127, 128, 2047, 2048, 55295, 57344, 65535, 65536, 1114111}
Utf8Vals == {Utf8V(<<>>)} \cup {Utf8V(<<a>>) : a \in CpB} \cup {Utf8V(<<a, b>>) : a \in CpB, b \in CpB}
            \cup {[k |-> "utf8", cls |-> 0, pc |-> 0, num |-> 24, cps |-> <<50, 48, 50, 54, 49, 48, 48, 51, 90>>]}

(* nested trees up to depth 5 *)
Leaves == {BoolV(TRUE), IntV(SM(0)), IntV(SM(-129)), OctV(<<>>), OidV(<<<<1>>, <<2>>>>), Utf8V(<<65>>)}
KidSeqs(P) == {<<>>} \cup {<<a>> : a \in P} \cup {<<a, b>> : a \in P, b \in P}
Cons3(P) == UNION {{SeqV(ks), SetV(ks), ConsT(2, 0, ks)} : ks \in KidSeqs(P)}
T1 == Cons3(Leaves)
Pool2 == Leaves \cup {SeqV(<<>>), SetV(<<BoolV(TRUE)>>), ConsT(2, 0, <<IntV(SM(-129)), OctV(<<>>)>>),
                      SeqV(<<OidV(<<<<1>>, <<2>>>>), Utf8V(<<65>>)>>)}
T2 == Cons3(Pool2)
T3 == {SeqV(<<x, BoolV(FALSE)>>) : x \in T2} \cup {ConsT(3, 40, <<OctV(<<9>>), x>>) : x \in T2}
T4 == {SetV(<<x>>) : x \in T3}
T5 == {ConsT(1, 31, <<x, x>>) : x \in T4}
TreeVals == T1 \cup T2 \cup T3 \cup T4 \cup T5

Others == TagVals \cup LenVals \cup OidVals \cup Utf8Vals \cup TreeVals \cup {BoolV(TRUE), BoolV(FALSE)}
AllVals == IF Part = 0 THEN SmallInts ELSE IF Part = 1 THEN Others ELSE BigInts

Init == v \in AllVals
Next == UNCHANGED v

WellFormed == WfVal(v)
RoundTrip == LET e == DerEnc(v) IN DerDec(TypeOf(v), e) = <<v, Len(e)>>
ExactConsumption == LET e == DerEnc(v) IN DerDec(TypeOf(v), e \o <<0, 255, 48>>) = <<v, Len(e)>>
Minimal == MinimalDer(v, DerEnc(v))
PrefixRejected ==
  LET e == DerEnc(v)
  IN \A n \in {Len(e) - 1, Len(e) \div 2, 1, 0} : n >= 0 /\ n < Len(e) => DerDec(TypeOf(v), SubSeq(e, 1, n))[1] = DerErr

(* typed injectivity on the small families (RoundTrip implies it for all) *)
ASSUME Part # 1 \/
       LET S == Others \cup {IntV(SM(i)) : i \in -300 .. 300}
       IN Cardinality({<<TypeOf(x), DerEnc(x)>> : x \in S}) = Cardinality(S)
(* integers: plain injectivity of the content octets *)
ASSUME Part # 0 \/ Cardinality({DerEnc(x) : x \in SmallInts}) = 65536

(* non-canonical / malformed encodings are not decoded *)
Rej(ty, b) == DerDec(ty, b) = <<DerErr, 0>>
ASSUME /\ Rej(Prim("int", 0, 0, 2), <<2, 2, 0, 5>>)             \* redundant 0x00
       /\ Rej(Prim("int", 0, 0, 2), <<2, 2, 255, 128>>)         \* redundant 0xFF
       /\ Rej(Prim("int", 0, 0, 2), <<2, 0>>)                   \* empty INTEGER
       /\ ~Rej(Prim("int", 0, 0, 2), <<2, 2, 0, 128>>)
       /\ ~Rej(Prim("int", 0, 0, 2), <<2, 2, 255, 127>>)
       /\ Rej(Prim("oct", 0, 0, 4), <<4, 129, 3, 1, 2, 3>>)     \* long form for a short length
       /\ Rej(Prim("oct", 0, 0, 4), <<4, 130, 0, 3, 1, 2, 3>>)
       /\ Rej(Prim("oct", 0, 0, 4), <<4, 128, 1, 0, 0>>)        \* indefinite
       /\ Rej(Prim("oct", 0, 0, 4), <<4, 3, 1, 2>>)             \* truncated
       /\ Rej(Prim("oct", 2, 0, 5), <<159, 5, 0>>)              \* high-tag form for number 5
       /\ Rej(Prim("oct", 2, 0, 128), <<159, 128, 129, 0, 0>>)  \* padded tag number
       /\ ~Rej(Prim("oct", 2, 0, 128), <<159, 129, 0, 0>>)
       /\ Rej(Prim("oid", 0, 0, 6), <<6, 3, 42, 128, 1>>)       \* padded sub-identifier
       /\ Rej(Prim("oid", 0, 0, 6), <<6, 0>>)                   \* empty OID
       /\ Rej(Prim("oid", 0, 0, 6), <<6, 2, 42, 129>>)          \* unterminated sub-identifier
       /\ Rej(Prim("bool", 0, 0, 1), <<1, 1, 1>>)               \* DER TRUE is 0xFF
       /\ Rej(Prim("utf8", 0, 0, 12), <<12, 2, 192, 128>>)      \* overlong UTF-8
       /\ Rej(Prim("utf8", 0, 0, 12), <<12, 3, 237, 160, 128>>) \* surrogate
       /\ Rej([k |-> "cons", cls |-> 0, pc |-> 1, num |-> 16, kids |-> <<Prim("bool", 0, 0, 1)>>],
              <<48, 5, 1, 1, 255, 5, 0>>)                       \* content not exhausted
(* known answers *)
ASSUME /\ DerEnc(IntV(SM(-65536))) = <<2, 3, 255, 0, 0>>
       /\ DerEnc(IntV(SM(-129))) = <<2, 2, 255, 127>>
       /\ DerEnc(IntV(SM(-128))) = <<2, 1, 128>>
       /\ DerEnc(IntV(SM(128))) = <<2, 2, 0, 128>>
       /\ DerEnc(IntV(SM(-32769))) = <<2, 3, 255, 127, 255>>
       /\ DerEnc(OidV(<<<<2>>, <<7, 103>>>>)) = <<6, 2, 136, 55>>                       \* 2.999
       /\ DerEnc(OidV(<<<<1>>, <<2>>, <<6, 72>>, <<6, 119, 13>>>>)) = <<6, 6, 42, 134, 72, 134, 247, 13>>
       /\ DerEnc(OctT(2, 1, 31, <<>>)) = <<191, 31, 0>>
       /\ DerEnc(Utf8V(<<128512>>)) = <<12, 4, 240, 159, 152, 128>>

(* lengths around 2^24 and the largest TLC length: header level only (no content built) *)
ASSUME \A n \in {16777215, 16777216, 16777217, 2147483647} :
         /\ MinimalLenOctets(LenOctets(n))
         /\ Header(IdOctets(2, 0, 0) \o LenOctets(n)) =
              [ok |-> TRUE, cls |-> 2, pc |-> 0, num |-> 0, hl |-> 1 + Len(LenOctets(n)), cl |-> n]
         /\ TlvRuns(0, 0, 4, <<<<170, n>>>>) = Canon(Runs(<<4>> \o LenOctets(n)) \o <<<<170, n>>>>)
ASSUME Canon(<<<<1, 2>>, <<1, 0>>, <<1, 3>>, <<2, 1>>, <<2, 1>>>>) = <<<<1, 5>>, <<2, 2>>>>
=============================================================================
