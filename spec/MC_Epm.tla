------------------------------- MODULE MC_Epm -------------------------------
(***************************************************************************)
(* Model-checking / generator instance for Epm.tla (C12 and C18).          *)
(*                                                                         *)
(* A behaviour builds a tower list from templates (Add), seals it into an  *)
(* ept_map reply with an announced count variant and a status (Seal),      *)
(* renders it with EptMapResultBytes, runs the result decoder one tower    *)
(* per step (Step) and emits the case at the end (Emit).                   *)
(* BFS explores every list of 0..MaxTowers towers; -simulate draws longer  *)
(* lists (MinTowers..MaxTowers).                                           *)
(***************************************************************************)
EXTENDS Epm, TLC, Json, FiniteSets

CONSTANTS MinTowers, MaxTowers, AdvMax
VARIABLES towers, reply, wire, s, ph
vars == <<towers, reply, wire, s, ph>>

Fill(k, n) == [i \in 1 .. n |-> (k * 37 + i * 11 + 5) % 256]
UF(k) == UuidFloor(Fill(k, 16), k, 0)
RF == RpcCoFloor(0)
IPF == IpFloor(<<10, 0, 0, 1>>)
XF(proto, L) == [proto |-> proto, lhs |-> Fill(L, L \div 2), rhs |-> Fill(L + 1, L - L \div 2)]
Std(p) == <<UF(1), UF(2), RF, TcpFloor(p), IPF>>          \* the 75-byte ncacn_ip_tcp tower

NTemplates == 24
Port(pos, t) == 1000 * pos + 135 + t
Template(t, pos) ==
  LET p == Port(pos, t)
  IN CASE t \in 1 .. 8 -> Std(p) \o <<XF(255, t - 1)>>              \* lengths 80..87: every residue mod 8, with TCP
       [] t \in 9 .. 16 -> <<XF(16, t - 9)>>                           \* lengths 7..14, no TCP floor
       [] t = 17 -> <<>>
       [] t = 18 -> Std(p)
       [] t = 19 -> <<TcpFloor(p)>>
       [] t = 20 -> <<IPF, TcpFloor(p)>>
       [] t = 21 -> <<TcpFloor(p), XF(0, 3)>>
       [] t = 22 -> <<UF(1), UF(2), RF, XF(15, 9)>>                   \* e.g. a named-pipe tower
       [] t = 23 -> <<XF(8, 2), TcpFloor(p), TcpFloor(p + 500)>>      \* two TCP floors in one tower
       [] t = 24 -> <<XF(33, 1), UF(3), RF, TcpFloor(p)>>

Variants == {"actual", "actualmax", "minus1", "plus1", "p16", "p40", "max"}
Statuses == {<<0, 0, 0, 0>>, <<214, 160, 201, 22>>, <<0, 0, 0, 1>>, <<1, 0, 0, 0>>}
CountBytes(v, n) ==
  CASE v \in {"actual", "actualmax"} -> U64(n)
    [] v = "minus1" -> U64(n - 1)
    [] v = "plus1" -> U64(n + 1)
    [] v = "p16" -> <<0, 0, 1, 0, 0, 0, 0, 0>>
    [] v = "p40" -> <<0, 0, 0, 0, 0, 1, 0, 0>>
    [] v = "max" -> <<255, 255, 255, 255, 255, 255, 255, 255>>
MkReply(tw, v, st) ==
  LET n == Len(tw)
      cnt == CountBytes(v, n)
  IN [handle |-> IF n % 2 = 0 THEN Zeros(20) ELSE Zeros(4) \o Fill(n, 16), num |-> SubSeq(cnt, 1, 4),
      max |-> IF v = "actualmax" THEN U64(n + 1) ELSE cnt, count |-> cnt,
      refs |-> [i \in 1 .. n |-> U64(2 + i)], towers |-> tw, status |-> st]

Init == towers = <<>> /\ reply = <<>> /\ wire = <<>> /\ s = <<>> /\ ph = "build"
Add(t) ==
  /\ ph = "build" /\ Len(towers) < MaxTowers
  /\ towers' = Append(towers, Template(t, Len(towers) + 1))
  /\ UNCHANGED <<reply, wire, s, ph>>
Seal(v, st) ==
  /\ ph = "build" /\ Len(towers) >= MinTowers
  /\ (v = "minus1" => Len(towers) > 0)
  /\ \/ v \in {"actual", "actualmax"} /\ StatusOk(st)
     \/ Len(towers) <= AdvMax /\ (v = "actual" \/ StatusOk(st))
  /\ reply' = MkReply(towers, v, st)
  /\ wire' = EptMapResultBytes(reply')
  /\ s' = ResultInit(wire')
  /\ ph' = "decode"
  /\ UNCHANGED towers
DecodeStep == ph = "decode" /\ ~s.done /\ s' = TowerStep(wire, s) /\ UNCHANGED <<towers, reply, wire, ph>>
WellFormed == WellFormedEptMapResult(reply)
Emit == ph = "decode" /\ s.done /\ ph' = "done" /\ UNCHANGED <<towers, reply, wire, s>>
(* emission as an invariant: evaluated exactly once per distinct terminal state (BFS) / per trace (-simulate) *)
EmitCase ==
  ph = "done" =>
    PrintT(<<"CASE", ToJson([r |-> reply, wire |-> wire, wf |-> WellFormed, exp |-> Expected(reply.towers, reply.status),
                             ok |-> s.ok, iters |-> s.iters])>>)
Next == (\E t \in 1 .. NTemplates : Add(t)) \/ (\E v \in Variants, st \in Statuses : Seal(v, st)) \/ DecodeStep \/ Emit
Spec == Init /\ [][Next]_vars /\ WF_vars(DecodeStep \/ Emit)

(* ---- invariants ---------------------------------------------------------------------------- *)
Decoding == ph \in {"decode", "done"}
IterationsBounded ==
  Decoding => /\ s.iters <= ResultIterBound(wire)
              /\ Len(s.items) <= Len(wire) \div TowerMinItem + 1
              /\ s.cur <= Len(wire)
WellFormedIsDecoded ==       \* spec-level inverse: the decoder recovers exactly the towers that were rendered
  (Decoding /\ s.done /\ WellFormed) => s.ok /\ s.items = reply.towers /\ s.cur = Len(wire) - 4
                                          /\ DecEptMapResult(wire) = [ok |-> TRUE, iters |-> s.iters, end |-> s.cur, v |-> reply]
AbsurdCountIsRejected ==     \* a count that cannot fit in the data is an error after O(1) work
  (Decoding /\ Sat64(reply.count) > Len(wire) \div 8) => s.done /\ ~s.ok /\ s.iters <= 1
Aligned ==                    \* every tower body starts 8-byte aligned (NDR64), whatever its length
  Decoding => \A i \in 1 .. Len(reply.towers) :
                 LET l == Len(TowerOctets(reply.towers[i])) IN (12 + l + NdrPad(l)) % 8 = 0 /\ NdrPad(l) \in 0 .. 7
PortRule ==
  (Decoding /\ WellFormed) =>
     LET e == Expected(reply.towers, reply.status)
     IN /\ (~StatusOk(reply.status) => e = <<"error">>)
        /\ (StatusOk(reply.status) /\ (\A i \in 1 .. Len(reply.towers) : ~HasTcp(reply.towers[i])) => e = <<"error">>)
        /\ (e[1] = "port" => /\ e[2] \in AllowedPorts(reply.towers)
                             /\ \E k \in 1 .. Len(reply.towers) :
                                   /\ HasTcp(reply.towers[k]) /\ \A j \in 1 .. k - 1 : ~HasTcp(reply.towers[j])
                                   /\ \E f \in 1 .. Len(reply.towers[k]) : reply.towers[k][f] = TcpFloor(e[2]))
Terminates == (ph = "decode") ~> (ph = "done")

(* ---- constant-level lemmas (evaluated once at start-up) ------------------------------------------ *)
TemplateFloors == UNION {{Template(t, 1)[i] : i \in 1 .. Len(Template(t, 1))} : t \in 1 .. NTemplates}
FloorInverse == \A f \in TemplateFloors : DecFloor(EncFloor(f) \o <<7, 7>>) = [ok |-> TRUE, v |-> f, size |-> FloorSize(f)]
TowerInverse == \A t \in 1 .. NTemplates :
                  LET o == TowerOctets(Template(t, 1)) IN DecTowerOctets(o).ok /\ DecTowerOctets(o).floors = Template(t, 1)
                                                          /\ DecTowerOctets(o).end = Len(o)
MapMsg(t, withObj) ==
  [ref_obj |-> U64(1), obj |-> IF withObj THEN Fill(t, 16) ELSE Zeros(16), ref_tower |-> U64(2), tower |-> Template(t, 1),
   handle |-> IF withObj THEN Zeros(4) \o Fill(t + 1, 16) ELSE Zeros(20), max_towers |-> LE32(t)]
EptMapInverse == \A t \in 1 .. NTemplates, o \in BOOLEAN :
                   /\ WellFormedEptMap(MapMsg(t, o))
                   /\ DecEptMap(EncEptMap(MapMsg(t, o))) = [ok |-> TRUE, v |-> MapMsg(t, o)]
                   /\ Len(EncEptMap(MapMsg(t, o))) % 8 = 0
ResiduesCovered == {Len(TowerOctets(Template(t, 1))) % 8 : t \in 1 .. NTemplates} = 0 .. 7
ASSUME FloorInverse
ASSUME TowerInverse
ASSUME EptMapInverse
ASSUME ResiduesCovered
=============================================================================
