CONSTANT RootKeys <- MC_Rk1
CONSTANT SDs <- MC_SD2
CONSTANT L0s <- MC_L0s
CONSTANT Positions <- MC_Pos3
CONSTANT Ops <- MC_Ops3
CONSTANT Clock <- MC_ClockFixed
CONSTANT DefaultRk = "rk1"
CONSTANT ReplyKinds <- MC_Seed
CONSTANT LaterReplies = FALSE
CONSTANT Cancels = FALSE
CONSTANT SyncFlavours <- MC_Async
INIT Init
NEXT Next
VIEW view
INVARIANT TypeOK
INVARIANT EnvCovers
INVARIANT Transparent
INVARIANT RootKeyDecrypts
INVARIANT CacheWellFormed
INVARIANT ObtainedIsCached
PROPERTY NoRepeatRpc
PROPERTY RootKeyIsOffline
PROPERTY CacheMonotone
PROPERTY FailedCallsLeaveCacheUnchanged
CHECK_DEADLOCK FALSE
