CONSTANT Fan = 4
CONSTANT Base = 3
CONSTANT MaxT = 200
INIT Init
NEXT Next
INVARIANT NamesContainingInterval
INVARIANT Monotone
PROPERTY NeverFutureNeverPast
CHECK_DEADLOCK FALSE
