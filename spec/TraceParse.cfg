INIT TInit
NEXT TNext
