----------------------------- MODULE TraceParse -----------------------------
(* Case traces for C05: one line per byte string given to unprotect with     *)
(* offline key material.  out = "return" | "needs_network" | "error" |       *)
(* "kdf_budget" | "step_budget"; exc = deliberate type the exception is (by  *)
(* MRO) or its own class name; kdf / steps / len are measured.               *)
EXTENDS BlobParse, Json, IOUtils, FiniteSetsExt
TInit == Init
TNext == UNCHANGED vars
BaseName(x) == x    \* the recorder already reduced subclasses to "<Deliberate>" or "<Deliberate><Sub>"
IsDeliberate(ln) == \E d \in Deliberate : ln.exc = d \/ ln.excBase = d
Fails(ln) ==
  (IF ln.out = "error" /\ ~IsDeliberate(ln) THEN {"escapes_with_internal_error_type"} ELSE {})
  \cup (IF ln.out = "kdf_budget" \/ ln.kdf > 4 * KdfBudget THEN {"bounded_number_of_key_derivation_steps"} ELSE {})
  \cup (IF ln.out = "step_budget" \/ (ln.steps > 0 /\ ln.steps > StepBudget(ln.len)) THEN {"parser_work_proportional_to_input_size"} ELSE {})
  \cup (IF ln.memk > MemBudgetK(ln.len) THEN {"memory_proportional_to_input_size"} ELSE {})
  \cup (IF ln.out \notin {"return", "needs_network", "error", "kdf_budget", "step_budget"} THEN {"MACHINERY_unknown_outcome"} ELSE {})
Drift(ln) == ln.predicted # "" /\ ln.out = "error" /\ IsDeliberate(ln) /\ ln.excBase # ln.predicted
KdfDrift(ln) == ln.kdf > KdfBudget /\ ln.kdf <= 4 * KdfBudget
Result ==
  LET L == ndJsonDeserialize(IOEnv.TRACE_FILE)
      N == Len(L)
      F == [k \in 1 .. N |-> Fails(L[k])]
  IN <<"RESULT", [n |-> N, drift |-> Cardinality({k \in 1 .. N : Drift(L[k])}), kdfDrift |-> Cardinality({k \in 1 .. N : KdfDrift(L[k])})],
       {<<L[k].id, F[k]>> : k \in {j \in 1 .. N : F[j] # {}}}>>
ASSUME PrintT(Result)
=============================================================================
