CONSTANT RootKeys <- T_Rks
CONSTANT SDs <- T_SDs
CONSTANT L0s <- T_L0s
CONSTANT Positions <- T_Pos
CONSTANT Ops <- T_Ops
CONSTANT Clock <- T_Clock
CONSTANT DefaultRk = "rk1"
CONSTANT ReplyKinds <- T_Kinds
CONSTANT LaterReplies = FALSE
CONSTANT Cancels = FALSE
CONSTANT SyncFlavours <- T_Sync
INIT TInit
NEXT TNext
