INIT TInit
NEXT TNext
