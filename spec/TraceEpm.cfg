INIT TInit
NEXT TNext
