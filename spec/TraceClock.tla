----------------------------- MODULE TraceClock -----------------------------
(* Case traces for C09: each line is one real protect call made at a tapped  *)
(* clock value t (limbs) together with the key identifier read back from the *)
(* emitted blob.  The check is the property's definition (Contains), not the *)
(* division formula.                                                          *)
EXTENDS GkdiGraph, TLC, Json, IOUtils, FiniteSetsExt
VARIABLE dummy
TInit == dummy = 0
TNext == UNCHANGED dummy
(* t = clock value at the first read, t2 = at the last read during the call (equal when the clock was read once): *)
(* the named interval must contain an instant of the call                                                      *)
Fails(ln) ==
  (IF ~LimbOK(ln.t) \/ ~LimbOK(ln.t2) THEN {"MACHINERY_bad_limbs"} ELSE {})
  \cup (IF ln.res = "blob" /\ ~Contains(ln.l0, ln.l1, ln.l2, ln.t) /\ ~Contains(ln.l0, ln.l1, ln.l2, ln.t2)
          THEN {IF ln.l1 \notin Idx \/ ln.l2 \notin Idx THEN "index_out_of_range"
                ELSE IF StartHi(ln.l0, ln.l1, ln.l2) > ln.t[1] THEN "names_future_interval"
                ELSE "names_past_interval"} ELSE {})
  \cup (IF ln.res = "blob" /\ IntervalOf(ln.t) # [l0 |-> ln.l0, l1 |-> ln.l1, l2 |-> ln.l2]
                        /\ IntervalOf(ln.t2) # [l0 |-> ln.l0, l1 |-> ln.l1, l2 |-> ln.l2]
          THEN {"differs_from_msgkdi_formula"} ELSE {})
  \cup (IF ln.res # "blob" THEN {"protect_from_cache_failed"} ELSE {})
Result ==
  LET L == ndJsonDeserialize(IOEnv.TRACE_FILE)
      N == Len(L)
      F == [i \in 1 .. N |-> Fails(L[i])]
  IN <<"RESULT", [n |-> N], {<<L[i].id, F[i]>> : i \in {j \in 1 .. N : F[j] # {}}}>>
ASSUME PrintT(Result)
=============================================================================
