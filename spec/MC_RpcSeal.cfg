CONSTANT Calls = 3
INIT Init
NEXT Next
INVARIANT OnlySealedAccepted
INVARIANT NoTrailerRejected
INVARIANT AlteredRejected
INVARIANT AuthenticAccepted
CHECK_DEADLOCK FALSE
