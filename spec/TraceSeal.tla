----------------------------- MODULE TraceSeal -----------------------------
(* Replay results for C16.  Each line is one reply delivered to the real    *)
(* client after an adversary action (real NTLM context on both ends):       *)
(*   sign    header signing negotiated      call   call number on the conn  *)
(*   act     pass | strip | flip | replay | inject_clear | inject_bogus_trailer *)
(*   region  body | sig | hdr | trailer | none   (for act = flip)            *)
(*   out     "authentic"  request() returned exactly what the DC sealed for  *)
(*                        this call / API result made with the DC's keys     *)
(*           "different"  it returned / used anything else                   *)
(*           "error"      it raised                                          *)
(* The expected decision is RpcSeal!Decide on the corresponding message.     *)
EXTENDS RpcSeal, Json, IOUtils, FiniteSetsExt
TInit == Init
TNext == UNCHANGED vars

Msg(ln) ==
  LET base == [NoMsg EXCEPT !.body = Stub(ln.call), !.trailer = TRUE, !.sealedBy = "server", !.seq = ln.call - 1]
  IN CASE ln.act = "pass" -> base
       [] ln.act = "strip" -> [base EXCEPT !.trailer = FALSE]
       [] ln.act = "flip" /\ ln.region = "body" -> [base EXCEPT !.bodyOK = FALSE]
       [] ln.act = "flip" /\ ln.region = "sig" -> [base EXCEPT !.sigOK = FALSE]
       [] ln.act = "flip" /\ ln.region = "hdr" -> [base EXCEPT !.hdrOK = FALSE]
       [] ln.act = "flip" /\ ln.region = "trailer" -> [base EXCEPT !.trOK = FALSE]
       [] ln.act = "replay" -> [base EXCEPT !.body = Stub(ln.call - 1), !.seq = ln.call - 2]
       [] ln.act = "inject_clear" -> [NoMsg EXCEPT !.body = Evil, !.sealedBy = "adversary"]
       [] ln.act = "inject_bogus_trailer" -> [NoMsg EXCEPT !.body = Evil, !.sealedBy = "adversary", !.trailer = TRUE]
       [] ln.act = "append_fragment" -> base      \* the genuine reply (flag "last fragment" cleared) followed by a cleartext fragment: what the peer
                                                  \* sealed may be returned, or an error raised; anything else is "different"

(* RpcSeal!Verifies with the line's negotiated flag and sequence number              *)
VerifiesLn(ln, m) ==
  /\ m.trailer /\ m.sealedBy = "server" /\ m.seq = ln.call - 1
  /\ m.bodyOK /\ m.sigOK
  /\ ln.sign => (m.hdrOK /\ m.trOK)

Fails(ln) ==
  LET m == Msg(ln)
      mustReject == ~VerifiesLn(ln, m)
  IN (IF ln.out = "different" THEN {"returned_stub_is_not_what_the_peer_sealed"} ELSE {})
     \cup (IF mustReject /\ ln.out # "error"
             THEN {IF ~m.trailer THEN "reply_without_security_trailer_must_be_rejected"
                   ELSE IF m.sealedBy # "server" THEN "forged_reply_must_be_rejected"
                   ELSE IF m.seq # ln.call - 1 THEN "replayed_reply_must_be_rejected"
                   ELSE "altered_reply_must_be_rejected"} ELSE {})
     \cup (IF ln.act = "pass" /\ ln.out # "authentic" THEN {"MACHINERY_authentic_reply_not_accepted"} ELSE {})

Result ==
  LET L == ndJsonDeserialize(IOEnv.TRACE_FILE)
      N == Len(L)
      F == [i \in 1 .. N |-> Fails(L[i])]
  IN <<"RESULT", [n |-> N], {<<L[i].id, F[i]>> : i \in {j \in 1 .. N : F[j] # {}}}>>
ASSUME PrintT(Result)
=============================================================================
