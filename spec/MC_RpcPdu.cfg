INIT RInit
NEXT RNext
INVARIANT RoundTrip
INVARIANT Alignment
