---------------------------- MODULE GkdiStructs ----------------------------
(***************************************************************************)
(* MS-GKDI 2.2.1 KDF Parameters, 2.2.2 FFC DH Parameters, 2.2.3.1 FFC DH   *)
(* Key, 2.2.3.2 ECDH Key, 2.2.4 Group Key Envelope, the DPAPI-NG key        *)
(* identifier (same header as the envelope), and the NDR64 stubs of         *)
(* 3.1.4.1 GetKey (Opnum 0) as byte layouts, each with an independent        *)
(* decoder.  Constant level; MC_GkdiStructs, ExportGkdiStructs and           *)
(* TraceGkdiStructs EXTEND it.                                               *)
(*                                                                         *)
(* Representation of values (TLC integers are 32-bit):                      *)
(*   u32 field        decimal digit sequence (SecDesc.tla arithmetic)       *)
(*   LONG             TLC integer in -2^31 .. 2^31-1                         *)
(*   length, key_len  TLC integer                                            *)
(*   big integer      magnitude: big-endian bytes without leading zeros      *)
(*                    (<<>> is 0); the layout pads it to the field width     *)
(*   text             sequence of code points (UTF-16 is computed here)      *)
(*   GUID             16 bytes in textual order (RFC 4122 big-endian)        *)
(*   bytes            Seq(0..255)                                            *)
(* Where the wire format leaves freedom (alignment filler, referent ids)    *)
(* the layout is a relation: ...Matches(b, x) takes the free bytes from b.   *)
(***************************************************************************)
EXTENDS SecDesc, Integers

Zeros(n) == [i \in 1 .. n |-> 0]
PadLen(n, m) == (m - (n % m)) % m
IsByteSeq(b) == \A i \in 1 .. Len(b) : b[i] \in 0 .. 255
Slice(b, off, n) == SubSeq(b, off + 1, off + n)            \* n bytes at 0-based offset off

(* ---- scalars ------------------------------------------------------------------ *)
U32(ds) == ToBytesLE(ds, 4)
IsU32(ds) == IsCanonicalDigits(ds) /\ DecLess(ds, Pow2_32)
FromU32(b) == BytesToDigits(Rev(b))

S32(v) ==                                                  \* two's complement, little-endian
  IF v >= 0 THEN LE32(v)
  ELSE LET b == LE32((v + 2147483647) + 1) IN <<b[1], b[2], b[3], b[4] + 128>>
FromS32(b) ==
  IF b[4] < 128 THEN b[1] + 256 * b[2] + 65536 * b[3] + 16777216 * b[4]
  ELSE ((b[1] + 256 * b[2] + 65536 * b[3] + 16777216 * (b[4] - 128)) - 2147483647) - 1

GuidLE(g) == <<g[4], g[3], g[2], g[1], g[6], g[5], g[8], g[7]>> \o SubSeq(g, 9, 16)
FromGuidLE(b) == <<b[4], b[3], b[2], b[1], b[6], b[5], b[8], b[7]>> \o SubSeq(b, 9, 16)

(* ---- text: NUL-terminated UTF-16LE --------------------------------------------- *)
IsScalar(c) == c \in 0 .. 1114111 /\ c \notin 55296 .. 57343
Unit(u) == <<u % 256, u \div 256>>
Utf16Of(c) ==
  IF c < 65536 THEN Unit(c)
  ELSE LET d == c - 65536 IN Unit(55296 + (d \div 1024)) \o Unit(56320 + (d % 1024))
Utf16(cps) == Flat([i \in 1 .. Len(cps) |-> Utf16Of(cps[i])])
Utf16z(cps) == Utf16(cps) \o <<0, 0>>

RECURSIVE Utf16Dec(_)
Utf16Dec(b) ==
  IF Len(b) < 2 THEN <<>>
  ELSE LET u == b[1] + 256 * b[2]
       IN IF u \in 55296 .. 56319 /\ Len(b) >= 4
          THEN LET v == b[3] + 256 * b[4]
               IN <<65536 + ((u - 55296) * 1024) + (v - 56320)>> \o Utf16Dec(SubSeq(b, 5, Len(b)))
          ELSE <<u>> \o Utf16Dec(SubSeq(b, 3, Len(b)))
(* text of a NUL-terminated field of n bytes                                         *)
TextOfZ(b) == Utf16Dec(SubSeq(b, 1, Len(b) - 2))
ZTerminated(b) == Len(b) >= 2 /\ Len(b) % 2 = 0 /\ b[Len(b) - 1] = 0 /\ b[Len(b)] = 0

(* ---- big integers: fixed width, big-endian, leading zeros kept ---------------------- *)
IsMag(m) == IsByteSeq(m) /\ (Len(m) = 0 \/ m[1] # 0)
FixedBE(m, k) == Zeros(k - Len(m)) \o m                     \* requires Len(m) <= k
MagOf(b) ==
  LET nz == {i \in 1 .. Len(b) : b[i] # 0}
  IN IF nz = {} THEN <<>> ELSE SubSeq(b, MinOf(nz), Len(b))

(* ---- 2.2.1 KDF Parameters ------------------------------------------------------------ *)
KdfPack(x) ==
  LET n == Utf16z(x.hash_name)
  IN <<0, 0, 0, 0, 1, 0, 0, 0>> \o LE32(Len(n)) \o <<0, 0, 0, 0>> \o n
KdfUnpack(b) ==
  IF Len(b) < 18 THEN [ok |-> FALSE]
  ELSE LET n == FromLE32(Slice(b, 8, 4))
       IN IF n < 2 \/ 16 + n # Len(b) THEN [ok |-> FALSE]
          ELSE [ok |-> Slice(b, 0, 8) = <<0, 0, 0, 0, 1, 0, 0, 0>> /\ Slice(b, 12, 4) = <<0, 0, 0, 0>>
                       /\ ZTerminated(Slice(b, 16, n)),
                x |-> [hash_name |-> TextOfZ(Slice(b, 16, n))]]

(* ---- 2.2.2 FFC DH Parameters ---------------------------------------------------------- *)
MagicDHPM == <<68, 72, 80, 77>>
FfcParamsPack(x) ==
  LE32(12 + 2 * x.key_length) \o MagicDHPM \o LE32(x.key_length)
  \o FixedBE(x.field_order, x.key_length) \o FixedBE(x.generator, x.key_length)
FfcParamsUnpack(b) ==
  IF Len(b) < 12 THEN [ok |-> FALSE]
  ELSE LET k == FromLE32(Slice(b, 8, 4))
       IN IF k < 0 \/ 12 + 2 * k # Len(b) THEN [ok |-> FALSE]
          ELSE [ok |-> FromLE32(Slice(b, 0, 4)) = Len(b) /\ Slice(b, 4, 4) = MagicDHPM,
                x |-> [key_length |-> k, field_order |-> MagOf(Slice(b, 12, k)), generator |-> MagOf(Slice(b, 12 + k, k))]]

(* ---- 2.2.3.1 FFC DH Key ------------------------------------------------------------------ *)
MagicDHPB == <<68, 72, 80, 66>>
FfcKeyPack(x) ==
  MagicDHPB \o LE32(x.key_length) \o FixedBE(x.field_order, x.key_length)
  \o FixedBE(x.generator, x.key_length) \o FixedBE(x.public_key, x.key_length)
FfcKeyUnpack(b) ==
  IF Len(b) < 8 THEN [ok |-> FALSE]
  ELSE LET k == FromLE32(Slice(b, 4, 4))
       IN IF k < 0 \/ 8 + 3 * k # Len(b) THEN [ok |-> FALSE]
          ELSE [ok |-> Slice(b, 0, 4) = MagicDHPB,
                x |-> [key_length |-> k, field_order |-> MagOf(Slice(b, 8, k)), generator |-> MagOf(Slice(b, 8 + k, k)),
                       public_key |-> MagOf(Slice(b, 8 + 2 * k, k))]]

(* ---- 2.2.3.2 ECDH Key ---------------------------------------------------------------------- *)
Curves == {"P256", "P384", "P521"}
CurveMagic(c) == <<69, 67, 75>> \o (CASE c = "P256" -> <<49>> [] c = "P384" -> <<51>> [] c = "P521" -> <<53>>)
EcdhPack(x) ==
  CurveMagic(x.curve_name) \o LE32(x.key_length) \o FixedBE(x.x, x.key_length) \o FixedBE(x.y, x.key_length)
EcdhUnpack(b) ==
  IF Len(b) < 8 THEN [ok |-> FALSE]
  ELSE LET k == FromLE32(Slice(b, 4, 4))
       IN IF k < 0 \/ 8 + 2 * k # Len(b) \/ ~\E c \in Curves : CurveMagic(c) = Slice(b, 0, 4) THEN [ok |-> FALSE]
          ELSE [ok |-> TRUE,
                x |-> [curve_name |-> CHOOSE c \in Curves : CurveMagic(c) = Slice(b, 0, 4), key_length |-> k,
                       x |-> MagOf(Slice(b, 8, k)), y |-> MagOf(Slice(b, 8 + k, k))]]

(* ---- key identifier (DPAPI-NG blob; header of 2.2.4 with one data field) ---------------------- *)
MagicKDSK == <<75, 68, 83, 75>>
KidPack(x) ==
  LET d == Utf16z(x.domain_name)
      f == Utf16z(x.forest_name)
  IN U32(x.version) \o MagicKDSK \o U32(x.flags) \o U32(x.l0) \o U32(x.l1) \o U32(x.l2)
     \o GuidLE(x.root_key_identifier)
     \o LE32(Len(x.key_info)) \o LE32(Len(d)) \o LE32(Len(f))
     \o x.key_info \o d \o f
KidUnpack(b) ==
  IF Len(b) < 52 THEN [ok |-> FALSE]
  ELSE LET ck == FromLE32(Slice(b, 40, 4))
           cd == FromLE32(Slice(b, 44, 4))
           cf == FromLE32(Slice(b, 48, 4))
       IN IF ck < 0 \/ cd < 2 \/ cf < 2 \/ ck > Len(b) \/ cd > Len(b) \/ cf > Len(b) \/ 52 + ck + cd + cf # Len(b)
          THEN [ok |-> FALSE]
          ELSE [ok |-> Slice(b, 4, 4) = MagicKDSK /\ ZTerminated(Slice(b, 52 + ck, cd)) /\ ZTerminated(Slice(b, 52 + ck + cd, cf)),
                x |-> [version |-> FromU32(Slice(b, 0, 4)), flags |-> FromU32(Slice(b, 8, 4)),
                       l0 |-> FromU32(Slice(b, 12, 4)), l1 |-> FromU32(Slice(b, 16, 4)), l2 |-> FromU32(Slice(b, 20, 4)),
                       root_key_identifier |-> FromGuidLE(Slice(b, 24, 16)),
                       key_info |-> Slice(b, 52, ck),
                       domain_name |-> TextOfZ(Slice(b, 52 + ck, cd)),
                       forest_name |-> TextOfZ(Slice(b, 52 + ck + cd, cf))]]

(* ---- 2.2.4 Group Key Envelope ---------------------------------------------------------------- *)
EnvPack(x) ==
  LET ka == Utf16z(x.kdf_algorithm)
      sa == Utf16z(x.secret_algorithm)
      d  == Utf16z(x.domain_name)
      f  == Utf16z(x.forest_name)
  IN U32(x.version) \o MagicKDSK \o U32(x.flags) \o U32(x.l0) \o U32(x.l1) \o U32(x.l2)
     \o GuidLE(x.root_key_identifier)
     \o LE32(Len(ka)) \o LE32(Len(x.kdf_parameters)) \o LE32(Len(sa)) \o LE32(Len(x.secret_parameters))
     \o U32(x.private_key_length) \o U32(x.public_key_length)
     \o LE32(Len(x.l1_key)) \o LE32(Len(x.l2_key)) \o LE32(Len(d)) \o LE32(Len(f))
     \o ka \o x.kdf_parameters \o sa \o x.secret_parameters \o d \o f \o x.l1_key \o x.l2_key
EnvUnpack(b) ==
  IF Len(b) < 80 THEN [ok |-> FALSE]
  ELSE LET cka == FromLE32(Slice(b, 40, 4))
           ckp == FromLE32(Slice(b, 44, 4))
           csa == FromLE32(Slice(b, 48, 4))
           csp == FromLE32(Slice(b, 52, 4))
           c1  == FromLE32(Slice(b, 64, 4))
           c2  == FromLE32(Slice(b, 68, 4))
           cd  == FromLE32(Slice(b, 72, 4))
           cf  == FromLE32(Slice(b, 76, 4))
           lens == <<cka, ckp, csa, csp, cd, cf, c1, c2>>
       IN IF (\E i \in 1 .. 8 : lens[i] < 0 \/ lens[i] > Len(b)) \/ cka < 2 \/ csa < 2 \/ cd < 2 \/ cf < 2
             \/ 80 + cka + ckp + csa + csp + cd + cf + c1 + c2 # Len(b)
          THEN [ok |-> FALSE]
          ELSE LET o1 == 80
                   o2 == o1 + cka
                   o3 == o2 + ckp
                   o4 == o3 + csa
                   o5 == o4 + csp
                   o6 == o5 + cd
                   o7 == o6 + cf
                   o8 == o7 + c1
               IN [ok |-> Slice(b, 4, 4) = MagicKDSK /\ ZTerminated(Slice(b, o1, cka)) /\ ZTerminated(Slice(b, o3, csa))
                            /\ ZTerminated(Slice(b, o5, cd)) /\ ZTerminated(Slice(b, o6, cf)),
                   x |-> [version |-> FromU32(Slice(b, 0, 4)), flags |-> FromU32(Slice(b, 8, 4)),
                          l0 |-> FromU32(Slice(b, 12, 4)), l1 |-> FromU32(Slice(b, 16, 4)), l2 |-> FromU32(Slice(b, 20, 4)),
                          root_key_identifier |-> FromGuidLE(Slice(b, 24, 16)),
                          kdf_algorithm |-> TextOfZ(Slice(b, o1, cka)),
                          kdf_parameters |-> Slice(b, o2, ckp),
                          secret_algorithm |-> TextOfZ(Slice(b, o3, csa)),
                          secret_parameters |-> Slice(b, o4, csp),
                          private_key_length |-> FromU32(Slice(b, 56, 4)),
                          public_key_length |-> FromU32(Slice(b, 60, 4)),
                          domain_name |-> TextOfZ(Slice(b, o5, cd)),
                          forest_name |-> TextOfZ(Slice(b, o6, cf)),
                          l1_key |-> Slice(b, o7, c1),
                          l2_key |-> Slice(b, o8, c2)]]

(* ---- 3.1.4.1 GetKey request stub, NDR64 -------------------------------------------------------- *)
(* a = [target_sd, has_root_key, root_key_id, l0, l1, l2]                                            *)
(*   ULONG cbTargetSD            4 bytes, then 4 filler bytes (the conformance is 8-aligned)          *)
(*   conformant max count        8 bytes = cbTargetSD                                                 *)
(*   pbTargetSD[cbTargetSD]                                                                           *)
(*   filler to 8                 (the pointer that follows is 8-aligned)                              *)
(*   pRootKeyID [unique]         8-byte referent: non-zero + GUID, or 8 zero bytes                    *)
(*   LONG L0KeyID, L1KeyID, L2KeyID                                                                   *)
ReqLen(a) ==
  LET n == Len(a.target_sd) IN 16 + n + PadLen(n, 8) + (IF a.has_root_key THEN 24 ELSE 8) + 12
ReqRender(a, fill4, fillp, ref) ==
  LET n == Len(a.target_sd)
  IN LE32(n) \o fill4 \o LE32(n) \o <<0, 0, 0, 0>> \o a.target_sd \o fillp
     \o (IF a.has_root_key THEN ref \o GuidLE(a.root_key_id) ELSE Zeros(8))
     \o S32(a.l0) \o S32(a.l1) \o S32(a.l2)
ReqFillersOK(a, fill4, fillp, ref) ==
  /\ Len(fill4) = 4 /\ Len(fillp) = PadLen(Len(a.target_sd), 8) /\ Len(ref) = 8
  /\ a.has_root_key => ref # Zeros(8)
(* offsets (0-based) of the items that NDR64 aligns to 8                                               *)
ReqMaxCountOffset(a) == 8
ReqPointerOffset(a) == 16 + Len(a.target_sd) + PadLen(Len(a.target_sd), 8)
ReqLongsOffset(a) == ReqPointerOffset(a) + (IF a.has_root_key THEN 24 ELSE 8)
(* b is an encoding of a: the free bytes are whatever b has there                                       *)
ReqMatches(b, a) ==
  /\ Len(b) = ReqLen(a)
  /\ LET n == Len(a.target_sd)
         fill4 == Slice(b, 4, 4)
         fillp == Slice(b, 16 + n, PadLen(n, 8))
         ref == Slice(b, ReqPointerOffset(a), 8)
     IN ReqFillersOK(a, fill4, fillp, ref) /\ b = ReqRender(a, fill4, fillp, ref)
ReqParse(b) ==
  IF Len(b) < 36 THEN [ok |-> FALSE]
  ELSE LET n == FromLE32(Slice(b, 0, 4))
       IN IF n < 0 \/ 16 + n + PadLen(n, 8) + 8 + 12 > Len(b) THEN [ok |-> FALSE]
          ELSE LET po == 16 + n + PadLen(n, 8)
                   has == Slice(b, po, 8) # Zeros(8)
                   lo == po + (IF has THEN 24 ELSE 8)
               IN IF lo + 12 # Len(b) THEN [ok |-> FALSE]
                  ELSE [ok |-> Slice(b, 8, 8) = LE32(n) \o <<0, 0, 0, 0>>,
                        a |-> [target_sd |-> Slice(b, 16, n), has_root_key |-> has,
                               root_key_id |-> IF has THEN FromGuidLE(Slice(b, po + 8, 16)) ELSE Zeros(16),
                               l0 |-> FromS32(Slice(b, lo, 4)), l1 |-> FromS32(Slice(b, lo + 4, 4)),
                               l2 |-> FromS32(Slice(b, lo + 8, 4))]]

(* ---- GetKey response stub, NDR64 ------------------------------------------------------------------ *)
(*   ULONG *pcbOut               4 bytes, 4 filler bytes (the pointer that follows is 8-aligned)          *)
(*   byte **ppbOut               8-byte referent (non-zero), conformant max count 8 bytes = *pcbOut,      *)
(*                               the envelope                                                             *)
(*   filler to 4, HRESULT        4 bytes                                                                  *)
RespLen(m) == 24 + m + PadLen(m, 4) + 4
RespRender(env, fill4, ref, fillq, hresult) ==
  LE32(Len(env)) \o fill4 \o ref \o LE32(Len(env)) \o <<0, 0, 0, 0>> \o env \o fillq \o hresult
RespFillersOK(env, fill4, ref, fillq) ==
  Len(fill4) = 4 /\ Len(ref) = 8 /\ ref # Zeros(8) /\ Len(fillq) = PadLen(Len(env), 4)
RespPointerOffset == 8
RespMaxCountOffset == 16
RespHresultOffset(m) == 24 + m + PadLen(m, 4)
RespMatches(b, env, hresult) ==
  /\ Len(b) = RespLen(Len(env))
  /\ LET fill4 == Slice(b, 4, 4)
         ref == Slice(b, 8, 8)
         fillq == Slice(b, 24 + Len(env), PadLen(Len(env), 4))
     IN RespFillersOK(env, fill4, ref, fillq) /\ b = RespRender(env, fill4, ref, fillq, hresult)
RespParse(b) ==
  IF Len(b) < 28 THEN [ok |-> FALSE]
  ELSE LET m == FromLE32(Slice(b, 0, 4))
       IN IF m < 0 \/ RespLen(m) # Len(b) THEN [ok |-> FALSE]
          ELSE [ok |-> Slice(b, 16, 8) = LE32(m) \o <<0, 0, 0, 0>> /\ Slice(b, 8, 8) # Zeros(8),
                env |-> Slice(b, 24, m), hresult |-> Slice(b, RespHresultOffset(m), 4)]
=============================================================================
