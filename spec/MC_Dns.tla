------------------------------- MODULE MC_Dns -------------------------------
(* Generator + lemmas for C20.  The state is the answer sequence itself, so   *)
(* BFS visits every sequence (every permutation of every multiset) of length  *)
(* 1..MaxLen over Prios x Weights x {dot, no dot} with distinct targets, and   *)
(* -simulate samples longer ones.  Every visited sequence of length >=        *)
(* EmitFrom is emitted as <<"CASE", codes, acceptable indices>>; the tables    *)
(* that decode a code / build a target are printed once, so the replay driver  *)
(* holds no knowledge of its own.                                              *)
EXTENDS Dns, TLC
CONSTANTS MaxLen, EmitFrom
VARIABLE ans

Prios == 0 .. 2
Weights == 0 .. 2
Codes == 0 .. 17
PrioOf(c) == c \div 6
WeightOf(c) == (c \div 2) % 3
DotOf(c) == c % 2 = 1
(* "dc<i>.d.test" with or without the trailing dot; port differs per position  *)
TargetOf(i, dot) == <<100, 99, 48 + i, 46, 100, 46, 116, 101, 115, 116>> \o (IF dot THEN <<Dot>> ELSE <<>>)
PortOf(i) == IF i % 2 = 1 THEN 389 ELSE 3268 + i
Rec(i, c) == [prio |-> PrioOf(c), weight |-> WeightOf(c), port |-> PortOf(i), target |-> TargetOf(i, DotOf(c))]
Answers(cs) == [i \in 1 .. Len(cs) |-> Rec(i, cs[i])]

Init == ans = <<>>
Add == /\ Len(ans) < MaxLen
       /\ \E c \in Codes : ans' = Append(ans, c)
Next == Add

(* ---- what TLC checks on every sequence ------------------------------------ *)
RefIsBest ==
  Len(ans) >= 1 =>
    LET A == Answers(ans)
        B == BestIdx(A)
    IN /\ B # {}
       /\ IsBest(RefChoice(A), A)
       /\ \A i \in 1 .. Len(A) : IsBest(StripRec(A[i]), A) <=> i \in B
       /\ \A i \in B : \A j \in B : A[i].prio = A[j].prio /\ A[i].weight = A[j].weight
       /\ \A i \in B : \A j \in 1 .. Len(A) : A[j].prio >= A[i].prio
       /\ \A i \in B : \A j \in 1 .. Len(A) : A[j].prio = A[i].prio => A[j].weight <= A[i].weight
       /\ \A i \in 1 .. Len(A) : Len(Strip(A[i].target)) = 10 /\ Strip(A[i].target)[10] # Dot
       /\ RefChoice(A).port = A[RefIdx(A)].port
(* result is independent of the order only up to ties: a permutation keeps the  *)
(* set of acceptable records                                                    *)
PermutationInvariant ==
  Len(ans) = 2 =>
    LET A == Answers(ans)
        S == <<A[2], A[1]>>
    IN {StripRec(A[i]) : i \in BestIdx(A)} = {StripRec(S[i]) : i \in BestIdx(S)}

Emit ==
  (Len(ans) >= EmitFrom) => PrintT(<<"CASE", ans, BestIdx(Answers(ans))>>)

StripLemma ==
  /\ Strip(<<>>) = <<>> /\ Strip(<<Dot>>) = <<>> /\ Strip(<<97>>) = <<97>>
  /\ Strip(<<97, Dot, 98, Dot>>) = <<97, Dot, 98>> /\ Strip(<<97, Dot, 98>>) = <<97, Dot, 98>>
  /\ QueryName(NoDomain) = Prefix /\ NeedsSearchList(NoDomain) /\ ~NeedsSearchList(<<100>>)
  /\ QueryName(<<100, 46, 116>>) = Prefix \o <<46, 100, 46, 116>>
  /\ Len(Prefix) = 20
ASSUME StripLemma
ASSUME PrintT(<<"TABLE", [c \in Codes |-> [prio |-> PrioOf(c), weight |-> WeightOf(c), dot |-> DotOf(c)]]>>)
ASSUME PrintT(<<"TARGETS", [i \in 1 .. MaxLen |-> [port |-> PortOf(i), plain |-> TargetOf(i, FALSE), dotted |-> TargetOf(i, TRUE)]]>>)
ASSUME PrintT(<<"PREFIX", Prefix>>)
=============================================================================
