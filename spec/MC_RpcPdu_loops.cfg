SPECIFICATION LSpec
INVARIANT IterationsBounded
INVARIANT CursorInside
INVARIANT NoEndIsRejected
PROPERTY Terminates
INVARIANT EmitCase
