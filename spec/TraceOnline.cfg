INIT TInit
NEXT TNext
