INIT TInit
NEXT TNext
