CONSTANT Fan = 32
INIT XInit
NEXT XNext
