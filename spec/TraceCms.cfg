INIT TInit
NEXT TNext
