---- MODULE MC_RpcRecv ----
EXTENDS RpcRecv
MC_Eof == 0 .. (FragLen - 1)
MC_NoEof == {}
====
