INIT TInit
NEXT TNext
