CONSTANT Fan = 32
CONSTANT Plaintexts <- MC_Pts
CONSTANT SidClasses <- MC_Sids
CONSTANT Instants <- MC_Instants
CONSTANT MaxProtects = 1
CONSTANT MaxTampers = 0
INIT Init
NEXT Next
INVARIANT RoundTrip
INVARIANT NamesInterval
INVARIANT NoForgery
INVARIANT DrawsDuringCall
CHECK_DEADLOCK FALSE
