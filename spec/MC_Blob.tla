------------------------------ MODULE MC_Blob ------------------------------
EXTENDS Blob, Json
MC_Pts == {"len0", "len1", "len15", "len16", "len17", "len64k"}
MC_Pts2 == {"len0", "len16"}
MC_Sids == {"sub1", "sub5", "sub15"}
MC_Sid1 == {"sub5"}
(* clock classes as limbs: mid-interval, last tick before / first tick of an L2, L1 and L0 boundary *)
L0Start == 372 * 1024 * 36
MC_Instants == {<<L0Start + 36 * 500 + 17, 12345, 678>>,
                <<L0Start - 1, 99999, 99999>>, <<L0Start, 0, 0>>,
                <<L0Start + 36 * 32 * 7 - 1, 99999, 99999>>, <<L0Start + 36 * 32 * 7, 0, 0>>,
                <<L0Start + 36 * 5 - 1, 99999, 99999>>, <<L0Start + 36 * 5, 0, 0>>}
MC_Instant1 == {<<L0Start + 36 * 500 + 17, 12345, 678>>}
EmitRT == (result # NoResult) => PrintT(<<"CASE", ToJson(hist)>>)
EmitTamper == (result # NoResult /\ tampers # <<>>) => PrintT(<<"CASE", ToJson([cfg |-> Last.cfg, tampers |-> tampers, allowed |-> Outcome(Last)])>>)
(* keep the product small where a dimension is irrelevant to the property explored *)
OneConfigPerLayout == \A i \in 1 .. Len(blobs) : blobs[i].cfg.hash = "SHA256" /\ blobs[i].cfg.mode = "nonce" /\ blobs[i].cfg.flavour = "sync"
FreshConfigs == \A i \in 1 .. Len(blobs) : blobs[i].cfg.hash = "SHA512" /\ blobs[i].cfg.layout = "in_envelope" /\ blobs[i].cfg.mode \in {"nonce", "DH"}
=============================================================================
