----------------------------- MODULE ApaFraming -----------------------------
(* Alignment lemmas of RpcFraming for ALL stub and verification-trailer       *)
(* lengths (Apalache, --length=0).                                            *)
EXTENDS Integers
VARIABLES
  \* @type: Int;
  stub,
  \* @type: Int;
  vt
Pad(n, m) == (m - (n % m)) % m
pad4 == IF vt > 0 THEN Pad(stub, 4) ELSE 0
inner == stub + pad4 + vt
pad16 == Pad(inner, 16)
Init == stub \in Nat /\ vt \in Nat
Next == UNCHANGED <<stub, vt>>
Inv == /\ (stub + pad4) % 4 = 0 \/ vt = 0
       /\ pad4 \in 0 .. 3
       /\ (inner + pad16) % 16 = 0
       /\ pad16 \in 0 .. 15
=============================================================================
