---------------------------- MODULE ExportGkdi ----------------------------
(* Writes the derivation graph (Parent, KdfContext for every node) as JSON *)
(* so that the term evaluator can build key tables without any protocol    *)
(* knowledge of its own.                                                   *)
EXTENDS GkdiGraph, TLC, Json, IOUtils, SequencesExt
VARIABLE dummy
XInit == dummy = 0
XNext == UNCHANGED dummy
Rec(n) == [node |-> n, parent |-> Parent(n), l1 |-> KdfContext(n).l1, l2 |-> KdfContext(n).l2,
           sd |-> KdfContext(n).sd]
ASSUME JsonSerialize(IOEnv.OUT_FILE, SetToSeq({Rec(n) : n \in Nodes \ {Root}}))
=============================================================================
