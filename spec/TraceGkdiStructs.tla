--------------------------- MODULE TraceGkdiStructs ---------------------------
(* Case traces for C11.  Every line carries the abstract field values x of one     *)
(* structure (see GkdiStructs.tla for the representation) and what the real code   *)
(* did with them:                                                                   *)
(*   pk / real   outcome ("ok" or exception type) and bytes of the real pack()      *)
(*   fed         the bytes given to the real decoder (rendered by ExportGkdiStructs; *)
(*               re-checked here against the layout: a difference is machinery)     *)
(*   uk / un     outcome and field values of the real unpack(fed)                   *)
(* kind "req":  x = GetKey arguments; real = GetKey(..).pack(); the layout is a     *)
(*              relation (filler and referent id are free); un = GetKey.unpack(fed) *)
(* kind "resp": x = envelope fields; fed = reply stub with the case's filler,       *)
(*              referent, HRESULT 0; u1 = GetKey.unpack_response(fed);              *)
(*              u2 = _process_get_key_result(Response(stub_data = fed + authpad,    *)
(*              sec_trailer.pad_length = Len(authpad) or no trailer))               *)
(* kind "calib_*": bytes of a tests/data file; the spec decoder must read it and    *)
(*              the spec layout must reproduce it.                                  *)
EXTENDS GkdiStructs, TLC, Json, IOUtils, FiniteSetsExt
VARIABLE dummy
TInit == dummy = 0
TNext == UNCHANGED dummy

Pack(kind, x) ==
  CASE kind = "kid"  -> KidPack(x)
    [] kind = "env"  -> EnvPack(x)
    [] kind = "kdf"  -> KdfPack(x)
    [] kind = "ffcp" -> FfcParamsPack(x)
    [] kind = "ffck" -> FfcKeyPack(x)
    [] kind = "ecdh" -> EcdhPack(x)
Unpack(kind, b) ==
  CASE kind = "kid"  -> KidUnpack(b)
    [] kind = "env"  -> EnvUnpack(b)
    [] kind = "kdf"  -> KdfUnpack(b)
    [] kind = "ffcp" -> FfcParamsUnpack(b)
    [] kind = "ffck" -> FfcKeyUnpack(b)
    [] kind = "ecdh" -> EcdhUnpack(b)

(* names of the fields the real decoder got wrong                                    *)
FieldDiff(prefix, un, x) == {prefix \o f : f \in {g \in DOMAIN x : un[g] # x[g]}}

StructFails(ln) ==
  LET spec == Pack(ln.kind, ln.x)
  IN (IF ln.fed # spec THEN {"MACHINERY_fed_bytes_are_not_the_spec_encoding"} ELSE {})
     \cup (IF ln.pk # "ok" THEN {"pack_failed"}
           ELSE IF ln.real # spec
                THEN {"pack_differs_from_msgkdi_layout"} \cup (IF Len(ln.real) # Len(spec) THEN {"pack_length"} ELSE {})
                ELSE {})
     \cup (IF ln.uk # "ok" THEN {"unpack_failed"} ELSE FieldDiff("unpack_field_", ln.un, ln.x))

ReqFails(ln) ==
  (IF ~ReqFillersOK(ln.x, ln.fill4, ln.fillp, ln.ref) \/ ln.fed # ReqRender(ln.x, ln.fill4, ln.fillp, ln.ref)
      THEN {"MACHINERY_fed_bytes_are_not_the_spec_encoding"} ELSE {})
  \cup (IF ln.pk # "ok" THEN {"request_pack_failed"}
        ELSE IF ~ReqMatches(ln.real, ln.x)
             THEN {"request_stub_is_not_the_ndr64_encoding"}
                  \cup (IF Len(ln.real) # ReqLen(ln.x) THEN {"request_stub_length"} ELSE {})
             ELSE {})
  \cup (IF ln.uk # "ok" THEN {"request_unpack_failed"} ELSE FieldDiff("request_unpack_field_", ln.un, ln.x))

RespFails(ln) ==
  LET env == EnvPack(ln.x)
  IN (IF ~RespFillersOK(env, ln.fill4, ln.ref, ln.fillq) \/ ln.hresult # Zeros(4)
         \/ ln.fed # RespRender(env, ln.fill4, ln.ref, ln.fillq, ln.hresult) \/ ~RespMatches(ln.fed, env, ln.hresult)
         \/ Len(ln.authpad) > 15 \/ (~ln.trailer /\ Len(ln.authpad) # 0)
        THEN {"MACHINERY_fed_bytes_are_not_the_spec_encoding"} ELSE {})
     \cup (IF ln.k1 # "ok" THEN {"response_decoder_failed"} ELSE FieldDiff("response_decoder_field_", ln.u1, ln.x))
     \cup (IF ln.k2 # "ok" THEN {"process_result_failed"} ELSE FieldDiff("process_result_field_", ln.u2, ln.x))

CalibKind(k) == CASE k = "calib_env" -> "env" [] k = "calib_ffcp" -> "ffcp" [] k = "calib_ffck" -> "ffck" [] k = "calib_ecdh" -> "ecdh"
IsCalib(ln) == ln.kind \in {"calib_env", "calib_ffcp", "calib_ffck", "calib_ecdh"}
CalibFails(ln) ==
  LET r == Unpack(CalibKind(ln.kind), ln.bytes)
  IN IF r.ok /\ Pack(CalibKind(ln.kind), r.x) = ln.bytes
        /\ (ln.kind = "calib_env" =>
              /\ KdfUnpack(r.x.kdf_parameters).ok /\ KdfPack(KdfUnpack(r.x.kdf_parameters).x) = r.x.kdf_parameters
              /\ FfcParamsUnpack(r.x.secret_parameters).ok
              /\ FfcParamsPack(FfcParamsUnpack(r.x.secret_parameters).x) = r.x.secret_parameters)
     THEN {} ELSE {"MACHINERY_calibration"}
CalibFields(ln) ==
  LET r == Unpack(CalibKind(ln.kind), ln.bytes)
  IN IF ~r.ok THEN <<ln.id, "unreadable">>
     ELSE IF ln.kind = "calib_env"
          THEN <<ln.id, [r.x EXCEPT !.secret_parameters = <<>>, !.l1_key = <<>>, !.l2_key = <<>>, !.kdf_parameters = <<>>],
                 KdfUnpack(r.x.kdf_parameters).x.hash_name, FfcParamsUnpack(r.x.secret_parameters).x.key_length>>
          ELSE <<ln.id, r.x.key_length>>

Fails(ln) ==
  IF IsCalib(ln) THEN CalibFails(ln)
  ELSE IF ln.kind = "req" THEN ReqFails(ln)
  ELSE IF ln.kind = "resp" THEN RespFails(ln)
  ELSE StructFails(ln)

Result ==
  LET L == ndJsonDeserialize(IOEnv.TRACE_FILE)
      N == Len(L)
      F == [i \in 1 .. N |-> Fails(L[i])]
  IN <<"RESULT",
       [n |-> N,
        nonzero_filler |-> Cardinality({i \in 1 .. N : L[i].kind = "req" /\ L[i].pk = "ok" /\ ReqMatches(L[i].real, L[i].x)
                                           /\ L[i].real # ReqRender(L[i].x, Zeros(4), Zeros(PadLen(Len(L[i].x.target_sd), 8)),
                                                                    Slice(L[i].real, ReqPointerOffset(L[i].x), 8))}),
        calib |-> {CalibFields(L[i]) : i \in {j \in 1 .. N : IsCalib(L[j]) /\ F[j] = {}}}],
       {<<L[i].id, F[i]>> : i \in {j \in 1 .. N : F[j] # {}}}>>
ASSUME PrintT(Result)
=============================================================================
