----------------------------- MODULE TraceBlob -----------------------------
(* Case traces for the Blob.tla properties.  kind = "rt" (C01 round trips),  *)
(* "tamper" (C04), "fresh" (C19 histories).                                   *)
EXTENDS Blob, Json, IOUtils, FiniteSetsExt, SequencesExt
T_P == {"p"}
T_S == {"s"}
T_I == {<<1, 0, 0>>}
TInit == Init
TNext == UNCHANGED vars

RtFails(ln) ==
  (IF ln.res # "plain_ok" THEN {"protect_then_unprotect_returns_plaintext"} ELSE {})
  \cup (IF ln.source = "cache" /\ ~Contains(ln.pos[1], ln.pos[2], ln.pos[3], ln.t) THEN {"blob_names_interval_of_protect_time"} ELSE {})
  \cup (IF ln.source = "dc" /\ ln.pos # ln.dcnow THEN {"blob_names_key_returned_by_dc"} ELSE {})
  \cup (IF ln.contentInEnvelope # (ln.layout = "in_envelope") THEN {"MACHINERY_layout_not_as_requested"} ELSE {})
  \cup (IF ln.flagsPub # (ln.mode # "nonce") THEN {"MACHINERY_mode_not_as_requested"} ELSE {})

(* C04: whatever was changed, the outcome is an error, a network attempt or the original plaintext; *)
(* the field-class prediction of Blob!Outcome is compared only as drift                             *)
(* the original plaintext may come back only when the change touched fields that influence neither keys nor ciphertext: *)
(* a change inside the wrapped CEK, the GCM nonce, the ciphertext or the tag (sealed = TRUE) must be an error             *)
TamperFails(ln) ==
  (IF ln.res = "plain_different" THEN {"modified_blob_decrypted_to_different_plaintext"} ELSE {})
  \cup (IF ln.res = "plain_ok" /\ ln.sealed THEN {"change_to_ciphertext_tag_nonce_or_wrapped_key_was_accepted"} ELSE {})
  \cup (IF ln.res = "plain_ok" /\ ln.bound THEN {"change_to_sid_root_key_id_position_or_key_nonce_was_accepted"} ELSE {})   \* fields the KEK is bound to
TamperDrift(ln) == \A i \in 1 .. Len(ln.allowed) : ln.allowed[i] # ln.res

(* C19: fold NoReuse over a history of protect events with interned values                          *)
FreshFails(ln) ==
  LET P == SelectSeq(ln.events, LAMBDA e : e.ev = "protect")
      n == Len(P)
      Dup(f) == \E i, j \in 1 .. n : i < j /\ P[i][f] = P[j][f]
  IN (IF Dup("cek") THEN {"content_encryption_key_reused"} ELSE {})
     \cup (IF Dup("nonce") THEN {"gcm_nonce_reused"} ELSE {})
     \cup (IF Dup("keyinfo") THEN {"key_identifier_randomness_reused"} ELSE {})
     \cup (IF \E i, j \in 1 .. n : i < j /\ P[i].cek = P[j].cek /\ P[i].nonce = P[j].nonce THEN {"key_nonce_pair_reused"} ELSE {})
     \cup (IF \E i, j \in 1 .. n : i < j /\ P[i].ct = P[j].ct THEN {"equal_plaintexts_gave_equal_ciphertexts"} ELSE {})
     \cup (IF \E i \in 1 .. n : ~P[i].ok THEN {"MACHINERY_blob_did_not_open_with_reference_key"} ELSE {})

Fails(ln) == CASE ln.kind = "rt" -> RtFails(ln) [] ln.kind = "tamper" -> TamperFails(ln) [] ln.kind = "fresh" -> FreshFails(ln)
Result ==
  LET L == ndJsonDeserialize(IOEnv.TRACE_FILE)
      N == Len(L)
      F == [i \in 1 .. N |-> Fails(L[i])]
  IN <<"RESULT", [n |-> N, drift |-> Cardinality({i \in 1 .. N : L[i].kind = "tamper" /\ TamperDrift(L[i])})],
       {<<L[i].id, F[i]>> : i \in {j \in 1 .. N : F[j] # {}}}>>
ASSUME PrintT(Result)
=============================================================================
