----------------------------- MODULE TraceGkdi -----------------------------
(***************************************************************************)
(* Case-trace validation for C02: every line is one execution of the real  *)
(* derivation (GroupKeyEnvelope.get_kek with the KDF tap) on an envelope   *)
(* built from the key table.  Keys are interned to graph nodes by the      *)
(* recorder (equal bytes <=> equal node); unknown bytes are <<"?">>.       *)
(* Any valid walk in the graph is accepted, not only the one Gkdi.tla's    *)
(* step machine takes, so an algorithmic refactoring is not an alarm.      *)
(***************************************************************************)
EXTENDS GkdiGraph, TLC, Json, IOUtils, SequencesExt, FiniteSetsExt
VARIABLE dummy
TInit == dummy = 0
TNext == UNCHANGED dummy

EnvOf(ln) == Env(ln.a, ln.b, ln.l1, ln.l2)

CallOK(ln, c) ==
  /\ c.dst \in Nodes \ {Root}
  /\ c.src = Parent(c.dst)
  /\ KdfContext(c.dst) = [l1 |-> c.cl1, l2 |-> c.cl2, sd |-> c.sd]
  /\ c.cl0 = ln.l0 /\ c.rk /\ c.lab /\ c.len = 64 /\ c.h

InHand(ln, i) ==
  LET c == ln.calls[i]
  IN \/ (i > 1 /\ ln.calls[i - 1].dst = c.src)
     \/ (c.src # None /\ c.src \in {ln.l1, ln.l2})
     \/ \E j \in 1 .. (i - 1) : ln.calls[j].dst = c.src

Fails(ln) ==
  LET e == EnvOf(ln)
      cov == ln.rl0 = ln.l0 /\ Covers(e, ln.r1, ln.r2)     \* Gkdi!CoversReq
  IN  (IF ~WellShaped(e) /\ e # RootEnv THEN {"MACHINERY_bad_envelope"} ELSE {})
      \cup (IF cov /\ ln.res # "key" THEN {"covered_request_must_return_key"} ELSE {})
      \cup (IF ln.res = "key" /\ ln.out # L2(ln.r1, ln.r2) THEN {"result_is_requested_key"} ELSE {})
      \cup (IF ln.res = "key" /\ \E i \in 1 .. Len(ln.calls) : ~CallOK(ln, ln.calls[i])
              THEN {"steps_are_graph_edges"} ELSE {})
      \cup (IF ln.res = "key" /\ \E i \in 1 .. Len(ln.calls) : ~InHand(ln, i)
              THEN {"derives_from_key_in_hand"} ELSE {})
      \cup (IF ~cov /\ ln.res = "key" THEN {"uncovered_request_must_not_return_key"} ELSE {})
      \cup (IF ~cov /\ ln.res \notin {"key", "error"} THEN {"uncovered_request_must_report_error_not_loop"} ELSE {})
      \cup (IF ln.res = "budget" THEN {"bounded_kdf_work"} ELSE {})
      \cup (IF ln.res = "key" /\ cov /\ ~ln.kek THEN {"kek_is_kdf_of_requested_l2_key"} ELSE {})

Drift(ln) == ln.res = "key" /\ Len(ln.calls) > 0 /\ Len(ln.calls) > MinSteps(EnvOf(ln), ln.r1, ln.r2) + 1

(* One deserialisation, one evaluation of Fails per line (LET values are cached;  *)
(* a top-level definition over IOEnv would be re-evaluated at every use).         *)
Result ==
  LET L == ndJsonDeserialize(IOEnv.TRACE_FILE)
      N == Len(L)
      F == [i \in 1 .. N |-> Fails(L[i])]
  IN <<"RESULT",
       [n |-> N,
        covered |-> Cardinality({i \in 1 .. N : L[i].rl0 = L[i].l0 /\ Covers(EnvOf(L[i]), L[i].r1, L[i].r2)}),
        drift |-> Cardinality({i \in 1 .. N : Drift(L[i])})],
       {<<L[i].id, F[i]>> : i \in {j \in 1 .. N : F[j] # {}}}>>

ASSUME PrintT(Result)
=============================================================================
