CONSTANT Calls = 2
INIT TInit
NEXT TNext
