INIT TInit
NEXT TNext
