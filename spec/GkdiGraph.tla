----------------------------- MODULE GkdiGraph -----------------------------
(***************************************************************************)
(* MS-GKDI key hierarchy (3.1.4.1.2) as a derivation graph, the envelope   *)
(* shapes a conforming server may return (2.2.4), the cover relation and   *)
(* the clock -> interval arithmetic (3.1.4.1 GetKey).  Constant level: no  *)
(* variables, so behaviour modules and trace modules can both EXTEND it.   *)
(*                                                                         *)
(* Fan is 32 in MS-GKDI; scaled model-checking instances use a smaller one.*)
(***************************************************************************)
EXTENDS Integers, Sequences, FiniteSets

CONSTANT Fan
ASSUME Fan \in Nat /\ Fan >= 2
Top == Fan - 1
Idx == 0 .. Top

None == <<"none">>

(* ---- nodes ------------------------------------------------------------ *)
Root      == <<"R">>            \* msKds-RootKeyData
L0Seed    == <<"L0">>           \* Key(SD, RK, L0, -1, -1)
L1(i)     == <<"L1", i>>        \* Key(SD, RK, L0, i, -1)
L2(i, j)  == <<"L2", i, j>>     \* Key(SD, RK, L0, i, j)

L1Nodes == {L1(i) : i \in Idx}
L2Nodes == {L2(i, j) : i \in Idx, j \in Idx}
Nodes   == {Root, L0Seed} \cup L1Nodes \cup L2Nodes
Kind(n) == n[1]

(* The key a node is derived from (one KDF application).                    *)
Parent(n) ==
  CASE Kind(n) = "L0" -> Root
    [] Kind(n) = "L1" -> IF n[2] = Top THEN L0Seed ELSE L1(n[2] + 1)
    [] Kind(n) = "L2" -> IF n[3] = Top THEN L1(n[2]) ELSE L2(n[2], n[3] + 1)
    [] OTHER -> None

(* Context of the KDF application that produces n:                          *)
(*   RKID || L0 || l1field || l2field  (signed 32-bit LE)  [|| SD]          *)
(* The security descriptor is appended only for L0Seed -> L1(Top).          *)
KdfContext(n) ==
  CASE Kind(n) = "L0" -> [l1 |-> -1,   l2 |-> -1,   sd |-> FALSE]
    [] Kind(n) = "L1" -> [l1 |-> n[2], l2 |-> -1,   sd |-> n[2] = Top]
    [] Kind(n) = "L2" -> [l1 |-> n[2], l2 |-> n[3], sd |-> FALSE]

(* One KDF application to key k with context fields (l1f, l2f): the node it   *)
(* yields, or Garbage when no key of the hierarchy is derived that way (the  *)
(* real KDF then returns bytes that are nobody's key).                        *)
Garbage == <<"garbage">>
Derive(k, l1f, l2f) ==
  CASE Kind(k) = "L1" /\ l2f = -1 /\ l1f = k[2] - 1 /\ l1f >= 0 -> L1(l1f)
    [] Kind(k) = "L1" /\ l1f = k[2] /\ l2f = Top -> L2(k[2], Top)
    [] Kind(k) = "L2" /\ l1f = k[2] /\ l2f = k[3] - 1 /\ l2f >= 0 -> L2(k[2], l2f)
    [] OTHER -> Garbage

(* Distance (number of KDF applications) from s down to n, or -1.           *)
RECURSIVE Dist(_, _)
Dist(s, n) ==
  IF s = n THEN 0
  ELSE IF n = Root \/ n = None THEN -1
  ELSE LET d == Dist(s, Parent(n)) IN IF d < 0 THEN -1 ELSE d + 1

DerivableFrom(s, n) == s # None /\ Dist(s, n) >= 0

(* ---- group key envelopes (seed-key replies) ----------------------------- *)
(* An envelope at position (a, b) carries:                                  *)
(*   l1 : L1(a) if b = Top, else L1(a-1); absent when a = 0 and b # Top     *)
(*   l2 : L2(a, b); may be absent when b = Top                              *)
Env(a, b, l1, l2) == [a |-> a, b |-> b, l1 |-> l1, l2 |-> l2]

Shapes(a, b) ==
  IF b = Top
    THEN {Env(a, b, L1(a), L2(a, b)), Env(a, b, L1(a), None)}
    ELSE {Env(a, b, IF a = 0 THEN None ELSE L1(a - 1), L2(a, b))}

(* What KeyCache builds lazily from a loaded root key.                      *)
RootEnv == Env(Top, Top, L1(Top), None)

AllEnvs == UNION {Shapes(a, b) : a \in Idx, b \in Idx}

WellShaped(e) == e \in Shapes(e.a, e.b)

(* Position order used by cache and algorithm: (a,b) at or after (r1,r2).   *)
PosGeq(a, b, r1, r2) == a > r1 \/ (a = r1 /\ b >= r2)
PosGt(a, b, r1, r2)  == a > r1 \/ (a = r1 /\ b > r2)
InRange(r1, r2) == r1 \in Idx /\ r2 \in Idx
Covers(e, r1, r2) == InRange(r1, r2) /\ PosGeq(e.a, e.b, r1, r2)

Derivable(e, r1, r2) ==
  InRange(r1, r2) /\ (DerivableFrom(e.l1, L2(r1, r2)) \/ DerivableFrom(e.l2, L2(r1, r2)))

(* Lemma "Covers <=> Derivable for every well-shaped envelope" is stated in    *)
(* MC_GkdiLemma (not here: TLC evaluates zero-arity constant definitions of    *)
(* every extended module eagerly at start-up).                                *)

(* Fewest KDF applications to reach L2(r1,r2) from the envelope.            *)
MinSteps(e, r1, r2) ==
  LET d1 == IF e.l1 = None THEN -1 ELSE Dist(e.l1, L2(r1, r2))
      d2 == IF e.l2 = None THEN -1 ELSE Dist(e.l2, L2(r1, r2))
  IN IF d1 < 0 THEN d2 ELSE IF d2 < 0 THEN d1 ELSE IF d1 < d2 THEN d1 ELSE d2

MaxKdfCalls == 2 * Top + 1     \* 63: Top L1 steps + reseed + Top L2 steps

(* ---- clock -> interval --------------------------------------------------- *)
(* Time t in 100ns units is carried as decimal limbs <<hi, mid, lo>> with   *)
(* t = hi*10^10 + mid*10^5 + lo (TLC integers are 32 bit).  One L2 interval *)
(* is 3.6*10^11 = 36 * 10^10 ticks, so  floor(t / 3.6e11) = hi \div 36.     *)
LimbOK(t) == /\ Len(t) = 3 /\ t[1] \in Nat /\ t[2] \in 0 .. 99999 /\ t[3] \in 0 .. 99999
HiPerL2 == 36

IntervalOf(t) ==
  LET idx == t[1] \div HiPerL2
  IN [l0 |-> idx \div (Fan * Fan), l1 |-> (idx \div Fan) % Fan, l2 |-> idx % Fan]

(* The property as a definition rather than a formula: the named interval   *)
(* [Start, Start + 3.6e11) contains t.                                       *)
StartHi(l0, l1, l2) == ((l0 * Fan + l1) * Fan + l2) * HiPerL2
Contains(l0, l1, l2, t) ==
  /\ l1 \in Idx /\ l2 \in Idx /\ l0 >= 0
  /\ StartHi(l0, l1, l2) <= t[1]
  /\ t[1] < StartHi(l0, l1, l2) + HiPerL2

=============================================================================
