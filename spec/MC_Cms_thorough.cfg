CONSTANT BigLens = {65535, 65536, 70000}
INIT Init
NEXT Next
INVARIANTS
  Inverse
  Templates
  TreeRoute
  OptionalContent
  KeyIdInverse
