------------------------------ MODULE TraceCms ------------------------------
(***************************************************************************)
(* Case-trace validation for C06.  Every line is one real execution:       *)
(* k = "pack"    DPAPINGBlob(x).pack(blob_in_envelope) for a generated     *)
(*               blob value x (fields in Cms.tla form): emitted bytes,     *)
(*               the fields of DPAPINGBlob.unpack(bytes) (ux), the bytes   *)
(*               of re-packing the unpacked object (repack), object        *)
(*               equality as seen by Python (py_eq), the verdict of the    *)
(*               independent strict DER reader harness/blobref.parse_blob  *)
(*               (indep = "" when it accepts);                             *)
(* k = "protect" ncrypt_protect_secret output; x = the leaves found by the *)
(*               independent reader; ux = the library's own unpack;        *)
(*               sid/g/ptlen = what the caller asked for;                  *)
(* k = "cal"     a Windows NCryptProtectSecret blob from tests/data with   *)
(*               the leaves the independent reader found in it             *)
(*               (calibration of layout, template and projection);         *)
(* k = "win"     the same blob and leaves with what the library's unpack   *)
(*               found (ux) and what re-packing that object gives.         *)
(***************************************************************************)
EXTENDS Cms, TLC, Json, IOUtils, FiniteSetsExt
VARIABLE dummy
TInit == dummy = 0
TNext == UNCHANGED dummy

PackFails(ln) ==
  IF ln.exc # "" THEN {"pack_raises"}
  ELSE
    LET b == ln.bytes
        p == ParseBlob(b)
        canon == b \in BlobBytesSet(ln.x, ln.layout)
    IN (IF ~canon THEN {"blob_bytes_not_canonical_cms"} ELSE {})
       \cup (IF canon /\ (~p.ok \/ p.x # ln.x) THEN {"MACHINERY_spec_parse_disagrees"} ELSE {})
       \cup (IF ~CmsTemplateP(p) THEN {"not_cms_template"} ELSE {})
       \cup (IF ln.win /\ ~WindowsTemplateP(p) THEN {"not_windows_template"} ELSE {})
       \cup (IF p.ok /\ ln.x.content # <<>> /\ p.present # (ln.layout = "envelope") THEN {"content_in_wrong_layout"} ELSE {})
       \cup (IF ln.uexc # "" THEN {"unpack_raises"}
             ELSE (IF ln.ux # ln.x THEN {"unpack_of_pack_differs"} ELSE {})
                  \cup (IF ~ln.py_eq THEN {"unpack_of_pack_not_equal_object"} ELSE {})
                  \cup (IF ln.repack # b THEN {"pack_of_unpack_differs"} ELSE {}))
       \cup (IF ln.win /\ ln.indep # "" THEN {"independent_strict_parser_rejects"} ELSE {})

ProtectFails(ln) ==
  IF ln.exc # "" THEN {"protect_raises"}
  ELSE IF ln.indep # "" THEN {"independent_strict_parser_rejects"}
  ELSE
    LET b == ln.bytes
        p == ParseBlob(b)
    IN (IF b # BlobBytes(ln.x, "envelope") THEN {"blob_bytes_not_canonical_cms"} ELSE {})
       \cup (IF ~WindowsTemplateP(p) THEN {"not_windows_template"} ELSE {})
       \cup (IF p.ok /\ p.x # ln.x THEN {"MACHINERY_spec_parse_disagrees"} ELSE {})
       \cup (IF ln.uexc # "" THEN {"unpack_raises"}
             ELSE (IF ln.ux # ln.x THEN {"unpack_of_emitted_blob_differs"} ELSE {})
                  \cup (IF ln.repack # b THEN {"pack_of_unpack_differs"} ELSE {}))
       \cup (IF \/ ln.x.sid # ln.sid \/ ln.x.kid.g # ln.g \/ Len(ln.x.content) # ln.ptlen + 16
                \/ ln.x.kid.version # <<0, 1>> \/ Len(ln.x.enc_cek) # 40
             THEN {"emitted_fields_do_not_reflect_request"} ELSE {})

CalFails(ln) ==
  LET b == ln.bytes
      p == ParseBlob(b)
  IN (IF b # BlobBytes(ln.x, "envelope") /\ b # BlobBytes(ln.x, "trailing") THEN {"CAL_spec_rendering_differs_from_windows_bytes"} ELSE {})
     \cup (IF ~WindowsTemplateP(p) THEN {"CAL_windows_blob_fails_template"} ELSE {})
     \cup (IF ~p.ok \/ p.x # ln.x THEN {"CAL_spec_parse_differs_from_independent_leaves"} ELSE {})

WinFails(ln) ==
  IF ln.uexc # "" THEN {"unpack_of_windows_blob_raises"}
  ELSE (IF ln.ux # ln.x THEN {"unpack_of_windows_blob_differs"} ELSE {})
       \cup (IF ln.repack # ln.bytes THEN {"repack_of_windows_blob_differs"} ELSE {})

Fails(ln) ==
  CASE ln.k = "pack" -> PackFails(ln)
    [] ln.k = "protect" -> ProtectFails(ln)
    [] ln.k = "cal" -> CalFails(ln)
    [] ln.k = "win" -> WinFails(ln)
    [] OTHER -> {"MACHINERY_unknown_row_kind"}

Omitted(ln) == ln.k = "pack" /\ ln.exc = "" /\ ln.layout = "envelope" /\ ln.x.content = <<>>
               /\ ln.bytes = ContentInfo(ln.x, FALSE)

Result ==
  LET L == ndJsonDeserialize(IOEnv.TRACE_FILE)
      N == Len(L)
      F == [i \in 1 .. N |-> Fails(L[i])]
  IN <<"RESULT", [n |-> N, omitted_empty_content |-> Cardinality({i \in 1 .. N : Omitted(L[i])})],
       {<<L[i].id, F[i]>> : i \in {j \in 1 .. N : F[j] # {}}}>>
ASSUME PrintT(Result)
=============================================================================
