CONSTANT Fan = 32
INIT TInit
NEXT TNext
