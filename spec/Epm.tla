-------------------------------- MODULE Epm --------------------------------
(***************************************************************************)
(* Endpoint mapper (C706 appendix L / I, MS-RPCE 2.2.1.2.5): protocol      *)
(* tower floors, towers, the ept_map request and result stubs in NDR64,    *)
(* the result decoder as a step machine and the port selection rule.       *)
(*                                                                         *)
(* floor  = [proto, lhs, rhs]     lhs_len LE16 (counts the protocol byte), *)
(*          protocol, lhs data, rhs_len LE16, rhs data                     *)
(* tower  = LE16 floor count + floors ("tower octet string")               *)
(* NDR64 twr_t: max count (8) + tower_length (4) + octets + pad so that    *)
(*          4 + length is a multiple of 8                                  *)
(* 64-bit quantities are 8-byte little-endian sequences.                   *)
(***************************************************************************)
EXTENDS RpcPdu

U64(n) == LE32(n) \o Zeros(4)                       \* n < 2^31
Huge == 1073741824                                  \* 2^30: "more than any fragment can hold"
Sat64(b8) ==                                        \* value of 8 LE bytes, saturated at Huge
  IF b8[5] # 0 \/ b8[6] # 0 \/ b8[7] # 0 \/ b8[8] # 0 \/ b8[4] >= 64 THEN Huge
  ELSE b8[1] + 256 * b8[2] + 65536 * b8[3] + 16777216 * b8[4]
Sat32(b4) == IF b4[4] >= 64 THEN Huge ELSE b4[1] + 256 * b4[2] + 65536 * b4[3] + 16777216 * b4[4]

PROTO_TCP == 7   PROTO_IP == 9   PROTO_RPC_CO == 11   PROTO_UUID == 13

EncFloor(f) == LE16(Len(f.lhs) + 1) \o <<f.proto>> \o f.lhs \o LE16(Len(f.rhs)) \o f.rhs
FloorSize(f) == 5 + Len(f.lhs) + Len(f.rhs)
TowerOctets(fl) == LE16(Len(fl)) \o Cat([i \in 1 .. Len(fl) |-> EncFloor(fl[i])])
NdrPad(len) == PadTo(len + 4, 8)
NdrTower(oct) == U64(Len(oct)) \o LE32(Len(oct)) \o oct \o Zeros(NdrPad(Len(oct)))

(* typed floors (rhs/lhs contents of the protocols the client knows) *)
TcpFloor(port) == [proto |-> PROTO_TCP, lhs |-> <<>>, rhs |-> BE16(port)]
IpFloor(a4) == [proto |-> PROTO_IP, lhs |-> <<>>, rhs |-> a4]
RpcCoFloor(minor) == [proto |-> PROTO_RPC_CO, lhs |-> <<>>, rhs |-> LE16(minor)]
UuidFloor(u16, ver, minor) == [proto |-> PROTO_UUID, lhs |-> u16 \o LE16(ver), rhs |-> LE16(minor)]

(* ---- floor loop: data = tower octets, items are floors --------------------------------- *)
FloorMinItem == 5
FloorStep(b, s) ==
  IF s.left = 0 THEN Stop(s, TRUE)
  ELSE IF ~Has(b, s.cur, 3) THEN Stop([s EXCEPT !.iters = @ + 1], FALSE)
  ELSE LET ll == Rd16(b, s.cur)
       IN IF ll < 1 \/ ~Has(b, s.cur + 2, ll + 2) THEN Stop([s EXCEPT !.iters = @ + 1], FALSE)
          ELSE LET rl == Rd16(b, s.cur + 2 + ll)
               IN IF ~Has(b, s.cur + 4 + ll, rl) THEN Stop([s EXCEPT !.iters = @ + 1], FALSE)
                  ELSE Advance(s, [proto |-> b[s.cur + 3], lhs |-> Sub(b, s.cur + 3, ll - 1),
                                   rhs |-> Sub(b, s.cur + 4 + ll, rl)], 4 + ll + rl, 1)
RECURSIVE RunFloors(_, _)
RunFloors(b, s) == IF s.done THEN s ELSE RunFloors(b, FloorStep(b, s))
DecFloor(b) ==
  LET r == RunFloors(b, LoopInit(0, 1)) IN IF r.ok THEN [ok |-> TRUE, v |-> r.items[1], size |-> r.cur] ELSE [ok |-> FALSE]
DecTowerOctets(oct) ==
  IF ~Has(oct, 0, 2) THEN [ok |-> FALSE, iters |-> 1]
  ELSE LET r == RunFloors(oct, LoopInit(2, Rd16(oct, 0))) IN [ok |-> r.ok, floors |-> r.items, iters |-> r.iters + 1, end |-> r.cur]

(* ---- ept_map request stub (NDR64) ------------------------------------------------------------
   [ptr] UUID* obj: referent (8) + UUID (16); [ptr] twr_p_t: referent (8) + twr_t; entry handle (20);
   max_towers LE32.  Referent ids of non-null pointers are any non-zero value.               *)
EncEptMap(m) ==
  m.ref_obj \o m.obj \o m.ref_tower \o NdrTower(TowerOctets(m.tower)) \o m.handle \o m.max_towers
WellFormedEptMap(m) ==
  /\ Len(m.ref_obj) = 8 /\ m.ref_obj # Zeros(8) /\ Len(m.ref_tower) = 8 /\ m.ref_tower # Zeros(8)
  /\ Len(m.obj) = 16 /\ Len(m.handle) = 20 /\ Len(m.max_towers) = 4
DecEptMap(b) ==
  IF ~Has(b, 0, 46) THEN [ok |-> FALSE]
  ELSE LET tl == Sat32(Sub(b, 40, 4))
       IN IF ~Has(b, 44, tl) \/ Sub(b, 32, 8) # U64(tl) THEN [ok |-> FALSE]
          ELSE LET t == DecTowerOctets(Sub(b, 44, tl))
                   o == 44 + tl + NdrPad(tl)
               IN IF ~t.ok \/ t.end # tl \/ ~Has(b, o, 24) THEN [ok |-> FALSE]
                  ELSE [ok |-> TRUE,
                        v |-> [ref_obj |-> Sub(b, 0, 8), obj |-> Sub(b, 8, 16), ref_tower |-> Sub(b, 24, 8),
                               tower |-> t.floors, handle |-> Sub(b, o, 20), max_towers |-> Sub(b, o + 20, 4)]]

(* ---- ept_map result stub (NDR64) ---------------------------------------------------------------
   entry handle (20), num_towers LE32, conformant varying array of tower pointers: max count (8),
   offset (8) = 0, actual count (8), one referent (8) per transmitted pointer, then the pointees
   (twr_t each), finally status LE32.
   r = [handle, num: 4 bytes, max: 8 bytes, count: 8 bytes, refs: Seq(8 bytes), towers: Seq(Seq(floor)),
        status: 4 bytes]                                                                       *)
EptMapResultBytes(r) ==
  r.handle \o r.num \o r.max \o Zeros(8) \o r.count \o Cat(r.refs)
    \o Cat([i \in 1 .. Len(r.towers) |-> NdrTower(TowerOctets(r.towers[i]))]) \o r.status
WellFormedEptMapResult(r) ==
  LET n == Len(r.towers)
  IN /\ Len(r.handle) = 20 /\ Len(r.status) = 4
     /\ r.num = LE32(n) /\ r.count = U64(n) /\ Len(r.max) = 8 /\ Sat64(r.max) >= n
     /\ Len(r.refs) = n /\ \A i \in 1 .. n : Len(r.refs[i]) = 8 /\ r.refs[i] # Zeros(8)

(* Result decoder: loop state + avail (bytes before the trailing status).  One step = one tower.
   `left` is the announced count saturated at Huge; it is never trusted beyond the data.       *)
TowerMinItem == 14
ResultInit(b) ==
  IF Len(b) < 52 THEN Stop(LoopInit(0, 0), FALSE)
  ELSE LET n == Sat64(Sub(b, 40, 8))
           avail == Len(b) - 4
       IN IF n > (avail - 48) \div 8 THEN Stop([LoopInit(48, n) EXCEPT !.iters = 1], FALSE)   \* referents do not fit
          ELSE LoopInit(48 + 8 * n, n)
TowerStep(b, s) ==
  LET avail == Len(b) - 4
  IN IF s.left = 0 THEN Stop(s, TRUE)
     ELSE IF s.cur + 14 > avail THEN Stop([s EXCEPT !.iters = @ + 1], FALSE)
     ELSE LET tl == Sat32(Sub(b, s.cur + 8, 4))
          IN IF s.cur + 12 + tl > avail THEN Stop([s EXCEPT !.iters = @ + 1], FALSE)
             ELSE LET t == DecTowerOctets(Sub(b, s.cur + 12, tl))
                  IN IF ~t.ok \/ t.end # tl THEN Stop([s EXCEPT !.iters = @ + t.iters], FALSE)
                     ELSE Advance(s, t.floors, 12 + tl + NdrPad(tl), t.iters)
RECURSIVE RunTowers(_, _)
RunTowers(b, s) == IF s.done THEN s ELSE RunTowers(b, TowerStep(b, s))
ResultIterBound(b) == Len(b) \div FloorMinItem + Len(b) \div TowerMinItem + 2
DecEptMapResult(b) ==
  LET r == RunTowers(b, ResultInit(b))
  IN IF ~r.ok THEN [ok |-> FALSE, iters |-> r.iters]
     ELSE [ok |-> TRUE, iters |-> r.iters, end |-> r.cur,
           v |-> [handle |-> Sub(b, 0, 20), num |-> Sub(b, 20, 4), max |-> Sub(b, 24, 8), count |-> Sub(b, 40, 8),
                  refs |-> [i \in 1 .. Len(r.items) |-> Sub(b, 48 + 8 * (i - 1), 8)], towers |-> r.items,
                  status |-> Sub(b, Len(b) - 4, 4)]]

(* ---- what the client must do with a reply (C18) ---------------------------------------------- *)
TcpPorts(tower) ==       \* ports of the TCP floors of one tower, in order
  LET idx == {i \in 1 .. Len(tower) : tower[i].proto = PROTO_TCP /\ Len(tower[i].rhs) = 2}
      RECURSIVE Collect(_)
      Collect(i) == IF i > Len(tower) THEN <<>>
                    ELSE (IF i \in idx THEN <<tower[i].rhs[1] * 256 + tower[i].rhs[2]>> ELSE <<>>) \o Collect(i + 1)
  IN Collect(1)
HasTcp(tower) == \E i \in 1 .. Len(tower) : tower[i].proto = PROTO_TCP /\ Len(tower[i].rhs) = 2
RECURSIVE FirstTcpTower(_, _)
FirstTcpTower(towers, i) ==      \* index of the first tower (in order) that has a TCP floor, 0 if none
  IF i > Len(towers) THEN 0 ELSE IF HasTcp(towers[i]) THEN i ELSE FirstTcpTower(towers, i + 1)
StatusOk(status) == status = Zeros(4)
(* Expected outcome: <<"error">> or <<"port", p>> (p = port of the first TCP floor of that tower). *)
Expected(towers, status) ==
  IF ~StatusOk(status) THEN <<"error">>
  ELSE LET k == FirstTcpTower(towers, 1)
       IN IF k = 0 THEN <<"error">> ELSE <<"port", TcpPorts(towers[k])[1]>>
AllowedPorts(towers) ==         \* a tower with several TCP floors: the statement does not say which floor
  LET k == FirstTcpTower(towers, 1) IN IF k = 0 THEN {} ELSE {TcpPorts(towers[k])[j] : j \in 1 .. Len(TcpPorts(towers[k]))}

MemBound(len) == 64 * len + 1048576
=============================================================================
