-------------------------------- MODULE Der --------------------------------
(***************************************************************************)
(* ASN.1 DER (X.690) as constant-level operators over Seq(0..255).         *)
(*                                                                         *)
(* A *value* is a record                                                   *)
(*   [k, cls, pc, num, ...]   cls 0..3 (universal, application, context,   *)
(*                            private), pc 0/1 (primitive/constructed bit  *)
(*                            of the identifier octet), num = tag number   *)
(*   k = "int"  : neg (BOOLEAN), mag (big-endian magnitude bytes, minimal, *)
(*                <<>> for zero)        -- integers of any size            *)
(*   k = "bool" : b                                                        *)
(*   k = "oid"  : arcs, each arc a big-endian base-128 digit sequence      *)
(*                (minimal, <<0>> for zero) -- arcs of any size            *)
(*   k = "oct"  : bytes                 -- OCTET STRING or any raw content *)
(*   k = "utf8" : cps (code points)     -- UTF8String, GeneralizedTime ... *)
(*   k = "cons" : kids (values)         -- SEQUENCE / SET / explicit tags  *)
(* DerEnc(v) is *the* DER encoding (definite minimal length, minimal       *)
(* integer and sub-identifier octets).  DerDec(ty, b) is a strict,         *)
(* type-directed decoder: it returns <<value, octets consumed>> or         *)
(* <<DerErr, 0>> for anything that is not the minimal encoding of a value  *)
(* of type ty at the head of b.  Lengths and tag numbers are TLC integers  *)
(* (< 2^31); integer magnitudes and OID arcs are digit sequences.          *)
(* No zero-arity definition here is expensive (TLC evaluates them all).    *)
(***************************************************************************)
EXTENDS Integers, Sequences, FiniteSets

Byte == 0 .. 255
SMin(S) == CHOOSE x \in S : \A y \in S : x <= y
SMax(S) == CHOOSE x \in S : \A y \in S : y <= x
Fill(b, n) == [i \in 1 .. n |-> b]

RECURSIVE Cat(_)
Cat(ss) == IF ss = <<>> THEN <<>> ELSE Head(ss) \o Cat(Tail(ss))

(* big-endian digits of a natural number in base B (at least one digit) *)
RECURSIVE Digits(_, _)
Digits(n, B) == IF n < B THEN <<n>> ELSE Digits(n \div B, B) \o <<n % B>>

RECURSIVE FromDigits(_, _)
FromDigits(d, B) == IF d = <<>> THEN 0 ELSE FromDigits(SubSeq(d, 1, Len(d) - 1), B) * B + d[Len(d)]

AllZero(s) == \A i \in 1 .. Len(s) : s[i] = 0
StripZeros(s) == IF AllZero(s) THEN <<>> ELSE SubSeq(s, SMin({i \in 1 .. Len(s) : s[i] # 0}), Len(s))
NormDigits(d) == IF AllZero(d) THEN <<0>> ELSE StripZeros(d)

(*************************** identifier octets ****************************)
ContBits(d) == [i \in 1 .. Len(d) |-> IF i < Len(d) THEN d[i] + 128 ELSE d[i]]
IdOctets(cls, pc, num) ==
  IF num < 31 THEN <<cls * 64 + pc * 32 + num>>
  ELSE <<cls * 64 + pc * 32 + 31>> \o ContBits(Digits(num, 128))

(***************************** length octets ******************************)
LenOctets(n) == IF n < 128 THEN <<n>> ELSE LET d == Digits(n, 256) IN <<128 + Len(d)>> \o d

MinimalLenOctets(lo) ==
  \/ Len(lo) = 1 /\ lo[1] < 128
  \/ /\ Len(lo) >= 2 /\ lo[1] = 128 + Len(lo) - 1
     /\ lo[2] # 0
     /\ (Len(lo) = 2 => lo[2] >= 128)

(******************************** INTEGER *********************************)
(* two's complement of a non-zero byte string over its own width *)
Neg2c(m) ==
  LET n == Len(m)
      p == SMax({i \in 1 .. n : m[i] # 0})
  IN [i \in 1 .. n |-> IF i < p THEN 255 - m[i] ELSE IF i = p THEN 256 - m[i] ELSE 0]

WfInt(neg, mag) == /\ \A i \in 1 .. Len(mag) : mag[i] \in Byte
                   /\ (mag # <<>> => mag[1] # 0)
                   /\ (neg => mag # <<>>)

IntContent(neg, mag) ==
  IF mag = <<>> THEN <<0>>
  ELSE IF ~neg THEN (IF mag[1] >= 128 THEN <<0>> \o mag ELSE mag)
  ELSE LET t == Neg2c(mag) IN IF t[1] >= 128 THEN t ELSE <<255>> \o t

(* no redundant leading 0x00 / 0xFF octet *)
IntMinimal(c) ==
  /\ Len(c) >= 1
  /\ (Len(c) >= 2 => ~((c[1] = 0 /\ c[2] < 128) \/ (c[1] = 255 /\ c[2] >= 128)))

IntValue(c) == IF c[1] < 128 THEN [neg |-> FALSE, mag |-> StripZeros(c)]
               ELSE [neg |-> TRUE, mag |-> StripZeros(Neg2c(c))]

(* small TLC integers <-> sign/magnitude *)
SM(i) == IF i = 0 THEN [neg |-> FALSE, mag |-> <<>>]
         ELSE IF i > 0 THEN [neg |-> FALSE, mag |-> Digits(i, 256)]
         ELSE [neg |-> TRUE, mag |-> Digits(0 - i, 256)]

(*************************** OBJECT IDENTIFIER ****************************)
RECURSIVE AddSmall(_, _)     \* base-128 digits + small constant
AddSmall(d, c) ==
  IF c = 0 THEN d
  ELSE IF d = <<>> THEN <<c>>
  ELSE LET n == Len(d)
           s == d[n] + c
       IN AddSmall(SubSeq(d, 1, n - 1), s \div 128) \o <<s % 128>>

RECURSIVE SubSmall(_, _)     \* base-128 digits - small constant (result >= 0 assumed)
SubSmall(d, c) ==
  IF c = 0 THEN d
  ELSE LET n == Len(d)
       IN IF d[n] >= c THEN SubSeq(d, 1, n - 1) \o <<d[n] - c>>
          ELSE SubSmall(SubSeq(d, 1, n - 1), 1) \o <<d[n] + 128 - c>>

WfArc(a) == /\ Len(a) >= 1 /\ \A i \in 1 .. Len(a) : a[i] \in 0 .. 127
            /\ (Len(a) > 1 => a[1] # 0)
WfOid(arcs) ==
  /\ Len(arcs) >= 2 /\ \A i \in 1 .. Len(arcs) : WfArc(arcs[i])
  /\ arcs[1] \in {<<0>>, <<1>>, <<2>>}
  /\ (arcs[1] # <<2>> => Len(arcs[2]) = 1 /\ arcs[2][1] < 40)

FirstSubId(arcs) == NormDigits(AddSmall(arcs[2], 40 * arcs[1][1]))
OidContent(arcs) ==
  ContBits(FirstSubId(arcs)) \o Cat([i \in 1 .. Len(arcs) - 2 |-> ContBits(arcs[i + 2])])

RECURSIVE SplitSubIds(_)     \* content whose last octet is < 128 -> digit sequences
SplitSubIds(c) ==
  IF c = <<>> THEN <<>>
  ELSE LET e == SMin({i \in 1 .. Len(c) : c[i] < 128})
       IN <<[i \in 1 .. e |-> c[i] % 128]>> \o SplitSubIds(SubSeq(c, e + 1, Len(c)))

OidContentOk(c) ==
  /\ Len(c) >= 1 /\ c[Len(c)] < 128
  /\ \A i \in 1 .. Len(c) : c[i] = 128 => (i > 1 /\ c[i - 1] >= 128)   \* no padded sub-identifier

OidArcs(c) ==
  LET s == SplitSubIds(c)
      x == s[1]
      two == IF Len(x) = 1 /\ x[1] < 40 THEN << <<0>>, x >>
             ELSE IF Len(x) = 1 /\ x[1] < 80 THEN << <<1>>, <<x[1] - 40>> >>
             ELSE << <<2>>, NormDigits(SubSmall(x, 80)) >>
  IN two \o Tail(s)

(********************************* UTF-8 **********************************)
WfCp(c) == c \in 0 .. 1114111 /\ c \notin 55296 .. 57343
Utf8Char(c) ==
  IF c < 128 THEN <<c>>
  ELSE IF c < 2048 THEN <<192 + (c \div 64), 128 + (c % 64)>>
  ELSE IF c < 65536 THEN <<224 + (c \div 4096), 128 + ((c \div 64) % 64), 128 + (c % 64)>>
  ELSE <<240 + (c \div 262144), 128 + ((c \div 4096) % 64), 128 + ((c \div 64) % 64), 128 + (c % 64)>>
Utf8(cps) == Cat([i \in 1 .. Len(cps) |-> Utf8Char(cps[i])])

IsCont(b, i) == i <= Len(b) /\ b[i] \in 128 .. 191
RECURSIVE Utf8Dec(_)         \* -> <<ok, code points>>; strict (shortest form, no surrogates)
Utf8Dec(b) ==
  IF b = <<>> THEN <<TRUE, <<>>>>
  ELSE
    LET x == b[1]
        n == IF x < 128 THEN 1 ELSE IF x \in 194 .. 223 THEN 2 ELSE IF x \in 224 .. 239 THEN 3
             ELSE IF x \in 240 .. 244 THEN 4 ELSE 0
    IN IF n = 0 \/ Len(b) < n \/ \E j \in 2 .. n : ~IsCont(b, j) THEN <<FALSE, <<>>>>
       ELSE
         LET c == IF n = 1 THEN x
                  ELSE IF n = 2 THEN (x - 192) * 64 + (b[2] - 128)
                  ELSE IF n = 3 THEN (x - 224) * 4096 + (b[2] - 128) * 64 + (b[3] - 128)
                  ELSE (x - 240) * 262144 + (b[2] - 128) * 4096 + (b[3] - 128) * 64 + (b[4] - 128)
             r == Utf8Dec(SubSeq(b, n + 1, Len(b)))
         IN IF ~WfCp(c) \/ Utf8Char(c) # SubSeq(b, 1, n) \/ ~r[1] THEN <<FALSE, <<>>>>
            ELSE <<TRUE, <<c>> \o r[2]>>

(****************************** value trees *******************************)
Kinds == {"int", "bool", "oid", "oct", "utf8", "cons"}

RECURSIVE WfVal(_)
WfVal(v) ==
  /\ v.k \in Kinds /\ v.cls \in 0 .. 3 /\ v.pc \in 0 .. 1 /\ v.num \in Nat
  /\ CASE v.k = "int" -> WfInt(v.neg, v.mag)
       [] v.k = "bool" -> v.b \in BOOLEAN
       [] v.k = "oid" -> WfOid(v.arcs)
       [] v.k = "oct" -> \A i \in 1 .. Len(v.bytes) : v.bytes[i] \in Byte
       [] v.k = "utf8" -> \A i \in 1 .. Len(v.cps) : WfCp(v.cps[i])
       [] v.k = "cons" -> \A i \in 1 .. Len(v.kids) : WfVal(v.kids[i])

Tlv(cls, pc, num, content) == IdOctets(cls, pc, num) \o LenOctets(Len(content)) \o content

RECURSIVE DerEnc(_)
RECURSIVE Content(_)
Content(v) ==
  CASE v.k = "int" -> IntContent(v.neg, v.mag)
    [] v.k = "bool" -> IF v.b THEN <<255>> ELSE <<0>>
    [] v.k = "oid" -> OidContent(v.arcs)
    [] v.k = "oct" -> v.bytes
    [] v.k = "utf8" -> Utf8(v.cps)
    [] v.k = "cons" -> Cat([i \in 1 .. Len(v.kids) |-> DerEnc(v.kids[i])])
DerEnc(v) == Tlv(v.cls, v.pc, v.num, Content(v))
DerEncAll(vs) == Cat([i \in 1 .. Len(vs) |-> DerEnc(vs[i])])

(* the type of a value: what a reader must know to decode it *)
RECURSIVE TypeOf(_)
TypeOf(v) ==
  IF v.k = "cons"
  THEN [k |-> "cons", cls |-> v.cls, pc |-> v.pc, num |-> v.num,
        kids |-> [i \in 1 .. Len(v.kids) |-> TypeOf(v.kids[i])]]
  ELSE [k |-> v.k, cls |-> v.cls, pc |-> v.pc, num |-> v.num]

(******************************** decoding ********************************)
DerErr == [k |-> "error"]
BadHdr == [ok |-> FALSE, cls |-> 0, pc |-> 0, num |-> 0, hl |-> 0, cl |-> 0]

(* identifier and length octets at the head of b: hl = their size, cl = content length. *)
(* Strict: high-tag form only for numbers >= 31 without padding, definite minimal length. *)
Header(b) ==
  IF Len(b) < 2 THEN BadHdr
  ELSE
    LET o == b[1]
        low == o % 32
        ends == {i \in 2 .. Len(b) : b[i] < 128}
        te == IF low < 31 THEN 1 ELSE IF ends = {} THEN 0 ELSE SMin(ends)   \* last identifier octet
    IN IF te = 0 \/ te > 5 \/ te + 1 > Len(b) THEN BadHdr
       ELSE
         LET num == IF low < 31 THEN low ELSE FromDigits([i \in 1 .. te - 1 |-> b[i + 1] % 128], 128)
             idok == low < 31 \/ (b[2] # 128 /\ num >= 31)
             l == b[te + 1]
             k == IF l < 128 THEN 0 ELSE l - 128
         IN IF ~idok \/ l = 128 \/ k > 4 \/ te + 1 + k > Len(b) \/ (k = 4 /\ b[te + 2] >= 128) THEN BadHdr
            ELSE
              LET lo == SubSeq(b, te + 1, te + 1 + k)
                  cl == IF k = 0 THEN l ELSE FromDigits(SubSeq(b, te + 2, te + 1 + k), 256)
              IN IF ~MinimalLenOctets(lo) THEN BadHdr
                 ELSE [ok |-> TRUE, cls |-> o \div 64, pc |-> (o \div 32) % 2, num |-> num,
                       hl |-> te + 1 + k, cl |-> cl]

RECURSIVE DerDec(_, _)
RECURSIVE DecKids(_, _)      \* (types, content) -> <<ok, values>>, all of content consumed
DecKids(tys, c) ==
  IF tys = <<>> THEN <<c = <<>>, <<>>>>
  ELSE LET d == DerDec(Head(tys), c)
       IN IF d[1] = DerErr THEN <<FALSE, <<>>>>
          ELSE LET r == DecKids(Tail(tys), SubSeq(c, d[2] + 1, Len(c)))
               IN IF ~r[1] THEN <<FALSE, <<>>>> ELSE <<TRUE, <<d[1]>> \o r[2]>>

DecContent(ty, c) ==
     CASE ty.k = "int" ->
            IF ~IntMinimal(c) THEN DerErr
            ELSE LET iv == IntValue(c)
                 IN [k |-> "int", cls |-> ty.cls, pc |-> ty.pc, num |-> ty.num, neg |-> iv.neg, mag |-> iv.mag]
       [] ty.k = "bool" ->
            IF Len(c) # 1 \/ c[1] \notin {0, 255} THEN DerErr
            ELSE [k |-> "bool", cls |-> ty.cls, pc |-> ty.pc, num |-> ty.num, b |-> (c[1] = 255)]
       [] ty.k = "oid" ->
            IF ~OidContentOk(c) THEN DerErr
            ELSE [k |-> "oid", cls |-> ty.cls, pc |-> ty.pc, num |-> ty.num, arcs |-> OidArcs(c)]
       [] ty.k = "oct" -> [k |-> "oct", cls |-> ty.cls, pc |-> ty.pc, num |-> ty.num, bytes |-> c]
       [] ty.k = "utf8" ->
            LET u == Utf8Dec(c)
            IN IF ~u[1] THEN DerErr
               ELSE [k |-> "utf8", cls |-> ty.cls, pc |-> ty.pc, num |-> ty.num, cps |-> u[2]]
       [] ty.k = "cons" ->
            LET r == DecKids(ty.kids, c)
            IN IF ~r[1] THEN DerErr
               ELSE [k |-> "cons", cls |-> ty.cls, pc |-> ty.pc, num |-> ty.num, kids |-> r[2]]

DerDec(ty, b) ==
  LET h == Header(b)
  IN IF ~h.ok \/ h.cls # ty.cls \/ h.pc # ty.pc \/ h.num # ty.num \/ h.hl + h.cl > Len(b) THEN <<DerErr, 0>>
     ELSE LET val == DecContent(ty, SubSeq(b, h.hl + 1, h.hl + h.cl))
          IN IF val = DerErr THEN <<DerErr, 0>> ELSE <<val, h.hl + h.cl>>

Consumed(ty, b) == DerDec(ty, b)[2]

(* a concatenation of values: <<ok, values, total consumed>> *)
RECURSIVE DecAll(_, _)
DecAll(tys, b) ==
  IF tys = <<>> THEN <<TRUE, <<>>, 0>>
  ELSE LET d == DerDec(Head(tys), b)
       IN IF d[1] = DerErr THEN <<FALSE, <<>>, 0>>
          ELSE LET r == DecAll(Tail(tys), SubSeq(b, d[2] + 1, Len(b)))
               IN IF ~r[1] THEN <<FALSE, <<>>, 0>> ELSE <<TRUE, <<d[1]>> \o r[2], d[2] + r[3]>>

(***************************** minimality *********************************)
(* structural statement of "minimal DER" for the encoding e of value v, independent of DerDec *)
RECURSIVE MinimalDer(_, _)
MinimalDer(v, e) ==
  LET h == Header(e)
  IN /\ h.ok /\ h.hl + h.cl = Len(e)
     /\ h.hl = Len(IdOctets(v.cls, v.pc, v.num)) + Len(LenOctets(h.cl))      \* shortest header
     /\ LET c == SubSeq(e, h.hl + 1, Len(e))
        IN CASE v.k = "int" -> IntMinimal(c)
             [] v.k = "bool" -> c \in {<<0>>, <<255>>}
             [] v.k = "oid" -> OidContentOk(c)
             [] v.k = "cons" -> c = Cat([i \in 1 .. Len(v.kids) |-> DerEnc(v.kids[i])])
                                /\ \A i \in 1 .. Len(v.kids) : MinimalDer(v.kids[i], DerEnc(v.kids[i]))
             [] OTHER -> TRUE

(************************ run-length view of bytes ************************)
(* Large contents (2^16 .. 2^24 octets) are exchanged as runs <<byte, count>>; Canon merges *)
(* adjacent runs of the same byte and drops empty ones, so equal byte strings <=> equal     *)
(* canonical run sequences.                                                                  *)
RECURSIVE Canon(_)
Canon(r) ==
  IF r = <<>> THEN <<>>
  ELSE IF r[1][2] = 0 THEN Canon(Tail(r))
  ELSE LET t == Canon(Tail(r))
       IN IF t # <<>> /\ t[1][1] = r[1][1] THEN <<<<r[1][1], r[1][2] + t[1][2]>>>> \o Tail(t)
          ELSE <<r[1]>> \o t
Runs(bytes) == [i \in 1 .. Len(bytes) |-> <<bytes[i], 1>>]
RECURSIVE RunLen(_)
RunLen(r) == IF r = <<>> THEN 0 ELSE r[1][2] + RunLen(Tail(r))
(* encoding of a primitive value whose content is the run sequence r *)
TlvRuns(cls, pc, num, r) == Canon(Runs(IdOctets(cls, pc, num) \o LenOctets(RunLen(r))) \o r)
=============================================================================
