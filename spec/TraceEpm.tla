------------------------------ MODULE TraceEpm ------------------------------
(***************************************************************************)
(* Case traces for C18.  Every line is one execution of the real           *)
(*   EptMapResult.unpack + _process_ept_map_result                         *)
(* under the step meter and tracemalloc.                                   *)
(*                                                                         *)
(* t = "reply": r = abstract reply emitted by MC_Epm, wire = the bytes     *)
(*      given to the code (must be the spec's rendering of r), out in      *)
(*      {"port", "error", "budget", "memory"}, port, steps, peak.          *)
(*      The expected outcome is recomputed here from r (Expected /         *)
(*      AllowedPorts of Epm.tla); replies that are not well-formed only    *)
(*      have to respect the budgets.                                       *)
(* t = "bytes": an arbitrary byte string as reply: budgets only.           *)
(***************************************************************************)
EXTENDS Epm, TLC, Json, IOUtils, FiniteSets
VARIABLE dummy
TInit == dummy = 0
TNext == UNCHANGED dummy

Budgets(ln) ==
  (IF ln.out = "budget" \/ ln.steps > WorkBound(ln.len) THEN {"work_not_proportional_to_reply_size"} ELSE {})
  \cup (IF ln.out = "memory" \/ ln.peak > MemBound(ln.len) THEN {"memory_not_proportional_to_reply_size"} ELSE {})
  \cup (IF ln.out \notin {"port", "error", "budget", "memory"} THEN {"MACHINERY_bad_outcome"} ELSE {})

Selection(ln) ==
  LET e == Expected(ln.r.towers, ln.r.status)
  IN IF ln.out \notin {"port", "error"} THEN {}
     ELSE IF e[1] = "error" THEN (IF ln.out = "port" THEN {IF StatusOk(ln.r.status) THEN "port_returned_without_tcp_floor"
                                                              ELSE "port_returned_despite_error_status"} ELSE {})
     ELSE IF ln.out = "error" THEN {"well_formed_reply_rejected"}
     ELSE IF ln.port \notin AllowedPorts(ln.r.towers) THEN {"port_is_not_of_first_tower_with_tcp_floor"}
     ELSE IF ln.port # e[2] THEN {"DRIFT_other_tcp_floor_of_the_first_tcp_tower"}
     ELSE {}

Fails(ln) ==
  CASE ln.t = "reply" ->
         (IF EptMapResultBytes(ln.r) # ln.wire \/ Len(ln.wire) # ln.len THEN {"MACHINERY_wire_is_not_spec_rendering"} ELSE {})
         \cup Budgets(ln)
         \cup (IF WellFormedEptMapResult(ln.r) THEN Selection(ln) ELSE {})
    [] ln.t = "bytes" -> Budgets(ln)

Result ==
  LET L == ndJsonDeserialize(IOEnv.TRACE_FILE)
      N == Len(L)
      F == [i \in 1 .. N |-> Fails(L[i])]
  IN <<"RESULT",
       [n |-> N, wf |-> Cardinality({i \in 1 .. N : L[i].t = "reply" /\ WellFormedEptMapResult(L[i].r)})],
       {<<L[i].id, F[i]>> : i \in {j \in 1 .. N : F[j] # {}}}>>
ASSUME PrintT(Result)
=============================================================================
