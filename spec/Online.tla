------------------------------- MODULE Online -------------------------------
(***************************************************************************)
(* The conversation one protect / unprotect API call conducts with a       *)
(* conforming domain controller when the key is not in the cache:          *)
(*                                                                         *)
(*  connection 1 (port 135): bind(EPM/NDR64, no auth); ept_map(ISD_KEY     *)
(*     tower, TCP 135, 0.0.0.0, max_towers 4); close                       *)
(*  connection 2 (port from the endpoint mapper): bind(ISD_KEY/NDR64 +     *)
(*     bind-time feature negotiation, auth level PKT_PRIVACY, header       *)
(*     signing advertised); alter_context legs while the DC's security     *)
(*     context is incomplete; one sealed request, opnum 0, on the accepted *)
(*     context, stub = GetKey(TargetSd, root key id | null, L0, L1, L2)    *)
(*     followed by the verification trailer (one PCONTEXT command naming   *)
(*     ISD_KEY / NDR64, END flag); close                                   *)
(*                                                                         *)
(* The conversation is written as a step machine over the events a         *)
(* reference DC decodes (harness/refdc.py); Accept(call, events) folds it. *)
(* It does not mention the API flavour: sync and async must conduct the    *)
(* same conversation.                                                      *)
(***************************************************************************)
EXTENDS Integers, Sequences, FiniteSets, TLC

EPM_IF   == "e1af8308-5d1f-11c9-91a4-08002b14a0fa/3.0"
ISD_KEY  == "b9785960-524f-11df-8b6d-83dcded72085/1.0"
NDR      == "8a885d04-1ceb-11c9-9fe8-08002b104860/2.0"
NDR64    == "71710533-beba-4937-8319-b5dbef9ccc36/1.0"
BTFN     == "6cb71c2c-9812-4540-0000-000000000000/1.0"    \* bind-time feature negotiation, no flags
PFC_FIRST_LAST == 3
PFC_SIGN == 4
PKT_PRIVACY == 6
AuthTypeOf(proto) == IF proto = "ntlm" THEN 10 ELSE IF proto = "negotiate" THEN 9 ELSE 16

(* tower for ept_map: floors as (protocol, lhs hex, rhs hex)                          *)
Floor(p, l, r) == [proto |-> p, lhs |-> l, rhs |-> r]
ExpectedTower ==
  << Floor(13, "605978b94f52df118b6d83dcded720850100", "0000"),    \* UUID ISD_KEY (bytes_le) + version 1, minor 0
     Floor(13, "045d888aeb1cc9119fe808002b1048600200", "0000"),    \* UUID NDR + version 2, minor 0
     Floor(11, "", "0000"),                                        \* RPC connection-oriented, minor 0
     Floor(7, "", "0087"),                                         \* TCP port 135 (big endian)
     Floor(9, "", "00000000") >>                                   \* IP 0.0.0.0

Ctx(id, abs, ts) == [id |-> id, abs |-> abs, ts |-> ts]
EpmContexts == <<Ctx(0, EPM_IF, <<NDR64>>)>>
IsdContexts == <<Ctx(0, ISD_KEY, <<NDR64>>), Ctx(1, ISD_KEY, <<BTFN>>)>>
AlterContexts == <<Ctx(0, ISD_KEY, <<NDR64>>)>>
ExpectedVt == <<[type |-> 2, end |-> TRUE, iface |-> ISD_KEY, transfer |-> NDR64]>>

(* ---- step machine ------------------------------------------------------------------ *)
(* state: pc, whether the DC's context is complete, header signing negotiated            *)
S0 == [pc |-> "dns_or_connect1", complete |-> FALSE, sign |-> FALSE, fails |-> {}]

Check(s, conds) == [s EXCEPT !.fails = @ \cup {c[1] : c \in {d \in conds : ~d[2]}}]

(* named clause sets per step; e is the decoded event, call the API call descriptor       *)
(* extended behaviour (not part of a listed property; clause names start with EXT_): when no server is given the  *)
(* DC is discovered with the SRV query of Dns.tla and both connections go to the chosen record's target            *)
OnDns(s, call, e) ==
  [Check(s, {<<"EXT_srv_query_name_for_blob_domain", e.qname = call.qname /\ e.rdtype = "SRV">>,
             <<"EXT_srv_query_uses_search_list_only_without_domain", e.search>>}) EXCEPT !.pc = "connect1"]
OnConnect1(s, call, e) ==
  [Check(s, {<<"epm_connection_to_port_135", e.port = 135>>,
             <<"EXT_connects_to_given_server_or_best_srv_target", e.host = call.host>>,
             <<"EXT_dns_lookup_only_when_no_server_given", (s.pc = "connect1") <=> (call.qname # "none")>>}) EXCEPT !.pc = "bind1"]
OnBind1(s, call, e) ==
  [Check(s, {<<"epm_bind_offers_epm_ndr64_only", e.ctxs = EpmContexts>>,
             <<"epm_bind_is_unauthenticated", e.authType = -1>>,
             <<"pdu_frag_len_matches", e.fragOK>>,
             <<"epm_bind_flags", e.flags = PFC_FIRST_LAST>>}) EXCEPT !.pc = "eptmap"]
OnEptMap(s, call, e) ==
  [Check(s, {<<"ept_map_on_accepted_context_opnum_3", e.ctx = 0 /\ e.opnum = 3 /\ e.acceptedCtx>>,
             <<"ept_map_unauthenticated_no_object", e.authType = -1 /\ ~e.obj>>,
             <<"ept_map_tower_is_isd_key_ndr_tcp135", e.kind = "ept_map" /\ e.floors = ExpectedTower>>,
             <<"ept_map_null_object_null_handle_max_towers_4", e.kind = "ept_map" /\ e.objNull /\ e.handleNull /\ e.maxTowers = 4>>,
             <<"ept_map_ndr64_well_formed", e.kind = "ept_map" /\ e.towerLenOK /\ e.consumedAll>>,
             <<"pdu_frag_len_matches", e.fragOK>>}) EXCEPT !.pc = "close1"]
OnClose1(s, call, e) == [s EXCEPT !.pc = "connect2"]
OnConnect2(s, call, e) ==
  [Check(s, {<<"isd_connection_to_mapped_port", e.port = call.isdPort>>,
             <<"EXT_connects_to_given_server_or_best_srv_target", e.host = call.host>>}) EXCEPT !.pc = "bind2"]
OnBind2(s, call, e) ==
  [Check(s, {<<"isd_bind_offers_isd_key_ndr64_and_feature_negotiation", e.ctxs = IsdContexts>>,
             <<"isd_bind_authenticated_at_pkt_privacy", e.authType = AuthTypeOf(call.proto) /\ e.authLevel = PKT_PRIVACY>>,
             <<"isd_bind_advertises_header_signing", e.sign>>,
             <<"pdu_frag_len_matches", e.fragOK /\ e.authLenOK>>,
             <<"dc_accepts_first_token", e.accepted>>})
     EXCEPT !.pc = "auth", !.complete = e.completeAfter, !.sign = e.sign /\ call.dcSign]
OnAlter(s, call, e) ==
  [Check(s, {<<"alter_context_only_while_context_incomplete", ~s.complete>>,
             <<"alter_context_carries_accepted_context_only", e.ctxs = AlterContexts>>,
             <<"alter_context_same_auth_type_and_level", e.authType = AuthTypeOf(call.proto) /\ e.authLevel = PKT_PRIVACY>>,
             <<"alter_context_sign_flag_iff_negotiated", e.sign = s.sign>>,
             <<"pdu_frag_len_matches", e.fragOK /\ e.authLenOK>>,
             <<"dc_accepts_token", e.accepted>>})
     EXCEPT !.complete = e.completeAfter]
OnGetKey(s, call, e) ==
  [Check(s, {<<"getkey_only_after_context_complete", s.complete>>,
             <<"getkey_on_accepted_context_opnum_0", e.ctx = 0 /\ e.opnum = 0 /\ e.acceptedCtx /\ ~e.obj>>,
             <<"getkey_sealed_at_pkt_privacy", e.authType = AuthTypeOf(call.proto) /\ e.authLevel = PKT_PRIVACY /\ e.unseal = "ok" /\ e.sealed>>,
             <<"getkey_trailer_16_byte_aligned", e.aligned16>>,
             <<"getkey_requests_named_security_descriptor", e.kind = "get_key" /\ e.sd = call.sd>>,
             <<"getkey_requests_named_root_key", e.kind = "get_key" /\ e.rkid = call.rkid>>,
             <<"getkey_requests_named_position", e.kind = "get_key" /\ <<e.l0, e.l1, e.l2>> = <<call.l0, call.l1, call.l2>>>>,
             <<"getkey_ndr64_well_formed", e.kind = "get_key" /\ e.cbEqMaxc /\ e.padsZero>>,
             <<"verification_trailer_present_and_aligned", e.kind = "get_key" /\ e.vtPresent /\ e.vtOffsetOK>>,
             <<"verification_trailer_is_pcontext_isd_key_ndr64_end", e.kind = "get_key" /\ e.vtCmds = ExpectedVt /\ e.vtEndsAtStubEnd>>,
             <<"pdu_frag_len_matches", e.fragOK /\ e.authLenOK>>}) EXCEPT !.pc = "close2"]
OnClose2(s, call, e) == [s EXCEPT !.pc = "end"]

Unexpected(s, e) == [s EXCEPT !.fails = @ \cup {"unexpected_step"}, !.pc = "stuck"]

Step(s, call, e) ==
  CASE s.pc = "stuck" -> s
    [] s.pc = "dns_or_connect1" /\ e.ev = "dns" -> OnDns(s, call, e)
    [] s.pc \in {"dns_or_connect1", "connect1"} /\ e.ev = "connect" -> OnConnect1(s, call, e)
    [] s.pc = "bind1" /\ e.ev = "bind" -> OnBind1(s, call, e)
    [] s.pc = "eptmap" /\ e.ev = "request" -> OnEptMap(s, call, e)
    [] s.pc = "close1" /\ e.ev = "close" -> OnClose1(s, call, e)
    [] s.pc = "connect2" /\ e.ev = "connect" -> OnConnect2(s, call, e)
    [] s.pc = "bind2" /\ e.ev = "bind" -> OnBind2(s, call, e)
    [] s.pc = "auth" /\ e.ev = "alter_context" -> OnAlter(s, call, e)
    [] s.pc = "auth" /\ e.ev = "request" -> OnGetKey(s, call, e)
    [] s.pc = "close2" /\ e.ev = "close" -> OnClose2(s, call, e)
    [] OTHER -> Unexpected(s, e)

RECURSIVE Accept(_, _, _, _)
Accept(s, call, evs, i) == IF i > Len(evs) THEN s ELSE Accept(Step(s, call, evs[i]), call, evs, i + 1)

ConversationFails(call, evs) ==
  LET f == Accept(S0, call, evs, 1)
  IN f.fails \cup (IF f.pc \notin {"end", "stuck"} THEN {"conversation_incomplete"} ELSE {})

(* ---- what is requested and what must come back ---------------------------------------- *)
(* unprotect asks for exactly the key the blob names; protect asks for the current key     *)
RequestFor(op, named) == IF op = "unprotect" THEN named ELSE <<-1, -1, -1>>
=============================================================================
