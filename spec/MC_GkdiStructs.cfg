INIT LInit
NEXT LNext
