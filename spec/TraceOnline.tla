---------------------------- MODULE TraceOnline ----------------------------
(* Trace validation for C17: per line one API call made twice (sync and     *)
(* async flavour) against the reference DC; `sync` / `async` are the        *)
(* transcripts the DC decoded with its own codec and real security context. *)
EXTENDS Online, Json, IOUtils, FiniteSetsExt
VARIABLE dummy
TInit == dummy = 0
TNext == UNCHANGED dummy

ResultFails(ln, res, named) ==
  LET c == ln.call
  IN (IF c.op = "unprotect" /\ ln.replyKind = "seed" /\ res # "plain_ok" THEN {"unprotect_result_decrypts_correctly"} ELSE {})
     \cup (IF c.op = "unprotect" /\ ln.replyKind = "pub" /\ res \in {"plain_ok", "plain_wrong"} THEN {"MACHINERY_plaintext_without_seed_keys"} ELSE {})
     \cup (IF c.op = "protect" /\ ln.replyKind # "hresult" /\ res # "blob_ok" THEN {"protect_result_decrypts_correctly"} ELSE {})
     \cup (IF c.op = "protect" /\ res = "blob_ok" /\ named # ln.dcnow THEN {"protect_uses_the_current_key_returned_by_dc"} ELSE {})
     \cup (IF ln.replyKind = "hresult" /\ res # "error:ValueError" THEN {"EXT_getkey_failure_hresult_surfaces_as_valueerror"} ELSE {})

Fails(ln) ==
  ConversationFails(ln.call, ln.sync) \cup ConversationFails(ln.call, ln.async)
  \cup (IF ln.sync # ln.async THEN {"sync_and_async_conduct_same_conversation"} ELSE {})
  \cup ResultFails(ln, ln.resS, ln.namedS) \cup ResultFails(ln, ln.resA, ln.namedA)
  \cup (IF ln.resS # ln.resA THEN {"sync_and_async_return_same_result"} ELSE {})

Result ==
  LET L == ndJsonDeserialize(IOEnv.TRACE_FILE)
      N == Len(L)
      F == [i \in 1 .. N |-> Fails(L[i])]
  IN <<"RESULT", [n |-> N], {<<L[i].id, F[i]>> : i \in {j \in 1 .. N : F[j] # {}}}>>
ASSUME PrintT(Result)
=============================================================================
