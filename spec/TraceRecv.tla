----------------------------- MODULE TraceRecv -----------------------------
(* Replay results for C14.  Each line: one execution of the real sync or    *)
(* async client whose last reply (L bytes) was delivered by a scripted      *)
(* transport following a schedule emitted by TLC from RpcRecv.tla:          *)
(*   limit  bytes the peer sent before closing (= L: complete reply)        *)
(*   sched  the segment sizes of the schedule                               *)
(*   reads  sizes the transport actually returned to the client (0 = EOF)   *)
(*   out    "same"   decoded PDU equals the one-piece decode                *)
(*          "differs" decoded something else / raised although complete     *)
(*          "error"  raised                                                 *)
(*          "spin"   kept reading after EOF (read budget blown)             *)
(*          "hang"   never returned (async, virtual loop quiescent)         *)
EXTENDS Integers, Sequences, TLC, Json, IOUtils, FiniteSetsExt, SequencesExt
VARIABLE dummy
TInit == dummy = 0
TNext == UNCHANGED dummy
MaxEofReads == 4
Sum(s) == FoldSeq(LAMBDA x, acc : x + acc, 0, s)
EofReads(ln) == Cardinality({i \in 1 .. Len(ln.reads) : ln.reads[i] = 0})
Fails(ln) ==
  (IF Sum(ln.sched) # ln.limit \/ ln.limit > ln.L THEN {"MACHINERY_bad_schedule"} ELSE {})
  \cup (IF ln.limit = ln.L /\ ln.out # "same" THEN {"complete_reply_must_decode_identically"} ELSE {})
  \cup (IF ln.limit < ln.L /\ ln.out \in {"same", "differs"} THEN {"truncated_reply_must_be_an_error"} ELSE {})
  \cup (IF ln.out \in {"spin", "hang"} THEN {"must_not_spin_or_block_after_eof"} ELSE {})
  \cup (IF ln.limit < ln.L /\ ln.out = "error" /\ EofReads(ln) > MaxEofReads THEN {"error_must_be_prompt"} ELSE {})
  \cup (IF Sum(ln.reads) > ln.L THEN {"MACHINERY_over_delivery"} ELSE {})
Result ==
  LET L == ndJsonDeserialize(IOEnv.TRACE_FILE)
      N == Len(L)
      F == [i \in 1 .. N |-> Fails(L[i])]
  IN <<"RESULT", [n |-> N], {<<L[i].id, F[i]>> : i \in {j \in 1 .. N : F[j] # {}}}>>
ASSUME PrintT(Result)
=============================================================================
