------------------------------ MODULE BlobParse ------------------------------
(***************************************************************************)
(* The unprotect pipeline on untrusted bytes, stage by stage, with the     *)
(* abstract class of input each stage may meet and the outcome it must     *)
(* produce.  Intended behaviour: every defect ends in one of the           *)
(* library's deliberate error types; derivation work is bounded; nothing   *)
(* loops.                                                                  *)
(*                                                                         *)
(* Stages follow the code: outer TLV header, ContentInfo, EnvelopedData,   *)
(* KEKRecipientInfo, KEKIdentifier, key-identifier structure, protection   *)
(* descriptor, SID -> security descriptor, cache lookup [network], L1/L2   *)
(* derivation, KEK, AES key unwrap, AES-GCM open.                          *)
(***************************************************************************)
EXTENDS Integers, Sequences, FiniteSets, TLC

Deliberate == {"ValueError", "NotImplementedError", "NotEnougData", "InvalidTag", "InvalidUnwrap"}
Terminal == Deliberate \cup {"return", "needs_network"}

Stages == <<"outer_header", "content_info", "enveloped_data", "kek_recipient_info", "kek_identifier", "key_identifier_struct",
            "protection_descriptor", "sid_to_sd", "cache_lookup", "derive", "kek", "unwrap", "open">>

(* stage -> input class -> outcome ("next" = proceed to the following stage)        *)
Table ==
  [outer_header |-> [ok |-> "next", empty |-> "NotEnougData", truncated_length |-> "NotEnougData", indefinite_length |-> "ValueError",
                     wrong_tag |-> "ValueError", overlong_length |-> "NotEnougData"],
   content_info |-> [ok |-> "next", wrong_tag |-> "ValueError", truncated |-> "NotEnougData", zero_length_oid |-> "ValueError",
                     unknown_oid |-> "ValueError", overlong_length |-> "NotEnougData"],
   enveloped_data |-> [ok |-> "next", wrong_tag |-> "ValueError", truncated |-> "NotEnougData", zero_length_integer |-> "ValueError",
                       other_version |-> "NotImplementedError", other_recipient_choice |-> "NotImplementedError", no_recipient |-> "ValueError",
                       two_recipients |-> "ValueError"],
   kek_recipient_info |-> [ok |-> "next", wrong_tag |-> "ValueError", truncated |-> "NotEnougData", zero_length_integer |-> "ValueError",
                           other_version |-> "ValueError"],
   kek_identifier |-> [ok |-> "next", wrong_tag |-> "ValueError", truncated |-> "NotEnougData", attribute_missing |-> "ValueError",
                       attribute_other_oid |-> "ValueError", zero_length_oid |-> "ValueError"],
   key_identifier_struct |-> [ok |-> "next", bad_magic |-> "ValueError", short |-> "ValueError", bad_utf16 |-> "ValueError",
                              length_fields_boundary |-> "next", index_boundary |-> "next"],
   protection_descriptor |-> [ok |-> "next", wrong_tag |-> "ValueError", truncated |-> "NotEnougData", unsupported_type |-> "ValueError",
                              bad_utf8 |-> "ValueError", zero_length_oid |-> "ValueError"],
   sid_to_sd |-> [ok |-> "next", malformed_sid |-> "ValueError", number_out_of_range |-> "ValueError"],
   cache_lookup |-> [ok |-> "next", key_absent |-> "needs_network", l0_beyond_signed_range |-> "ValueError"],
   derive |-> [ok |-> "next", index_above_31 |-> "ValueError", not_covered |-> "ValueError"],
   kek |-> [ok |-> "next", public_key_garbage |-> "ValueError", hostile_dh_parameters |-> "ValueError", unknown_curve |-> "ValueError",
            point_not_on_curve |-> "ValueError"],
   unwrap |-> [ok |-> "next", unknown_algorithm |-> "NotImplementedError", bad_length |-> "InvalidUnwrap", wrong_key_or_modified |-> "InvalidUnwrap"],
   open |-> [ok |-> "return", unknown_algorithm |-> "NotImplementedError", parameters_missing |-> "ValueError", parameters_malformed |-> "ValueError",
             parameters_truncated |-> "NotEnougData", bad_nonce_length |-> "ValueError", modified |-> "InvalidTag"]]

Classes(st) == DOMAIN Table[st]

(* KDF applications a stage may perform                                                     *)
MaxKdf(st) == CASE st = "cache_lookup" -> 2 [] st = "derive" -> 63 [] st = "kek" -> 3 [] OTHER -> 0
KdfBudget == 68
(* generous work bounds used by the trace checks (line events of the library's own code)      *)
StepBudget(len) == 400 * len + 20000
MemBudgetK(len) == (64 * len) \div 1024 + 16384      \* KiB: 64 bytes per input byte + 16 MiB

VARIABLES i, outcome, kdf, defects
vars == <<i, outcome, kdf, defects>>
Init == i = 1 /\ outcome = "running" /\ kdf = 0 /\ defects = <<>>
Step ==
  /\ outcome = "running"
  /\ \E cls \in Classes(Stages[i]) :
       LET o == Table[Stages[i]][cls]
       IN /\ kdf' \in {kdf + k : k \in 0 .. MaxKdf(Stages[i])}
          /\ defects' = IF cls = "ok" THEN defects ELSE Append(defects, <<Stages[i], cls>>)
          /\ IF o = "next" THEN i' = i + 1 /\ outcome' = "running" ELSE i' = i /\ outcome' = o
Next == Step
Spec == Init /\ [][Next]_vars /\ WF_vars(Next)

OutcomeClosed == outcome = "running" \/ outcome \in Terminal
BoundedKdf == kdf <= KdfBudget
OneDefectEnds == (Len(defects) >= 1 /\ Table[defects[1][1]][defects[1][2]] # "next") => outcome \in Terminal
ReturnOnlyIfClean == outcome = "return" => \A k \in 1 .. Len(defects) : Table[defects[k][1]][defects[k][2]] = "next"
Terminates == <>(outcome \in Terminal)
KdfView == kdf \in {0, 2, 65, 68} \/ kdf < 4
Emit == (outcome \in Terminal /\ Len(defects) = 1) => PrintT(<<"CASE", defects[1][1], defects[1][2], outcome>>)
=============================================================================
