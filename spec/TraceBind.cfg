CONSTANT MaxLegs = 4
CONSTANT ResultCodes <- T_Codes
CONSTANT ServerTokens <- T_Toks
INIT TInit
NEXT TNext
