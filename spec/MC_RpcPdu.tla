----------------------------- MODULE MC_RpcPdu -----------------------------
(***************************************************************************)
(* Model-checking instance for RpcPdu.tla (C12).                           *)
(*                                                                         *)
(* MC_RpcPdu.cfg  (RInit/RNext): every message of the enumerated shapes is  *)
(*   an initial state; invariant RoundTrip = well-formed, Dec(Enc(m)) = m,  *)
(*   frag_len / auth_len consistent, alignment facts of the layouts.        *)
(* MC_RpcPdu_loops.cfg (LSpec): the decoder loops as a step machine over    *)
(*   adversarial inputs (announced counts beyond the data, command lists    *)
(*   without END, truncated items): IterationsBounded, Terminates; each     *)
(*   terminal state is emitted as a CASE for the replay into the real       *)
(*   decoders.                                                              *)
(***************************************************************************)
EXTENDS RpcPdu, TLC, Json, FiniteSets

VARIABLES c, s, ph
vars == <<c, s, ph>>

Fill(k, n) == [i \in 1 .. n |-> (k * 37 + i * 11 + 5) % 256]
Syn(k) == [uuid |-> Fill(k, 16), ver |-> (k * 3) % 65536, minor |-> k % 7]
SecOf(a) == IF a = 0 THEN <<>>
            ELSE <<[type |-> 10, level |-> 6, pad |-> a % 16, ctx |-> Fill(a, 4), auth |-> Fill(a, a)]>>
Hdr(kind, flags, a) ==
  [ver |-> 5, minor |-> 0, ptype |-> PtypeOf(kind), flags |-> flags, drep |-> <<16, 0, 0, 0>>, frag_len |-> 16,
   auth_len |-> a, call_id |-> Fill(a + 3, 4)]
Fix(m) == [m EXCEPT !.hdr.frag_len = Len(EncPdu(m))]

CtxEl(i, nts) == [id |-> i, abstract |-> Syn(i), transfer |-> [j \in 1 .. nts |-> Syn(10 * i + j)]]
BindMsg(kind, nc, nt, a) ==
  Fix([kind |-> kind, hdr |-> Hdr(kind, 3, a), sec |-> SecOf(a), max_xmit |-> 5840, max_recv |-> 4280,
       assoc |-> Fill(nc, 4), ctxs |-> [i \in 1 .. nc |-> CtxEl(i, (nt + i) % 5)]])
Res(i) == [result |-> i % 4, reason |-> i, uuid |-> Fill(i, 16), ver |-> Fill(i + 1, 4)]
AckMsg(kind, sl, nr, a) ==
  Fix([kind |-> kind, hdr |-> Hdr(kind, 7, a), sec |-> SecOf(a), max_xmit |-> 5840, max_recv |-> 5840,
       assoc |-> Fill(sl, 4), sec_addr |-> [i \in 1 .. sl |-> 48 + i],
       sa_pad |-> SubSeq(<<0, 52, 57>>, 1, PadTo(2 + (IF sl = 0 THEN 0 ELSE sl + 1), 4)), results |-> [i \in 1 .. nr |-> Res(i)]])
NakMsg(nv) ==
  Fix([kind |-> "bind_nak", hdr |-> Hdr("bind_nak", 3, 0), sec |-> <<>>, reason |-> nv + 1,
       versions |-> [i \in 1 .. nv |-> <<5, i - 1>>]])
ReqMsg(sl, obj, a) ==
  Fix([kind |-> "request", hdr |-> Hdr("request", IF obj THEN 131 ELSE 3, a), sec |-> SecOf(a), alloc |-> Fill(sl, 4),
       ctx |-> 1, opnum |-> sl, obj |-> IF obj THEN <<Fill(99, 16)>> ELSE <<>>, stub |-> Fill(sl, sl)])
RespMsg(sl, a) ==
  Fix([kind |-> "response", hdr |-> Hdr("response", 3, a), sec |-> SecOf(a), alloc |-> Fill(sl, 4), ctx |-> 513,
       cancel |-> sl % 3, stub |-> Fill(sl, sl)])
FaultMsg(sl, a) ==
  Fix([kind |-> "fault", hdr |-> Hdr("fault", 35, a), sec |-> SecOf(a), alloc |-> Fill(sl, 4), ctx |-> 2, cancel |-> 1,
       fflags |-> sl % 2, status |-> <<3, 0, 1, 28>>, stub |-> Fill(sl, sl)])

AuthLens == {0, 1, 16, 64}
StubLens == {0, 1, 7, 8, 33}
Pdus ==
  {BindMsg(k, nc, nt, a) : k \in {"bind", "alter_context"}, nc \in 0 .. 8, nt \in 0 .. 4, a \in AuthLens}
  \cup {AckMsg(k, sl, nr, a) : k \in {"bind_ack", "alter_context_resp"}, sl \in 0 .. 8, nr \in 0 .. 6, a \in {0, 5, 64}}
  \cup {NakMsg(nv) : nv \in 0 .. 4}
  \cup {ReqMsg(sl, o, a) : sl \in StubLens, o \in BOOLEAN, a \in AuthLens}
  \cup {RespMsg(sl, a) : sl \in StubLens, a \in AuthLens}
  \cup {FaultMsg(sl, a) : sl \in StubLens, a \in AuthLens}

(* verification trailer commands *)
CmdKinds == {"bitmask", "pcontext", "header2", "raw0", "raw1", "raw5"}
MkCmd(k, flags) ==
  CASE k = "bitmask" -> [k |-> "bitmask", flags |-> flags, bits |-> <<1, 0, 0, 0>>]
    [] k = "pcontext" -> [k |-> "pcontext", flags |-> flags, iface |-> Syn(1), transfer |-> Syn(2)]
    [] k = "header2" -> [k |-> "header2", flags |-> flags, ptype |-> 0, drep |-> <<16, 0, 0, 0>>, call_id |-> <<2, 0, 0, 0>>,
                         ctx |-> 1, opnum |-> 0]
    [] k = "raw0" -> [k |-> "raw", type |-> 8192, flags |-> flags, value |-> <<>>]
    [] k = "raw1" -> [k |-> "raw", type |-> 7, flags |-> flags, value |-> <<9>>]
    [] k = "raw5" -> [k |-> "raw", type |-> 16383, flags |-> flags, value |-> Fill(5, 5)]
CmdLists(end) ==      \* lists of 1..4 commands; `end`: last one carries END (well-formed) or none does
  LET Seqs == UNION {[1 .. n -> CmdKinds] : n \in 1 .. 4}
  IN {[i \in 1 .. Len(q) |-> MkCmd(q[i], (IF end /\ i = Len(q) THEN 16384 ELSE 0) + (IF i % 2 = 0 THEN 32768 ELSE 0))] : q \in Seqs}

Others ==
  {[kind |-> "sec", v |-> [type |-> 9, level |-> 6, pad |-> a % 16, ctx |-> Fill(a, 4), auth |-> Fill(a, a)]] : a \in 0 .. 64}
  \cup {[kind |-> "vt", cmds |-> q] : q \in CmdLists(TRUE)}
  \cup {[kind |-> "syn", v |-> Syn(k)] : k \in 0 .. 3}

RInit == c \in Pdus \cup Others /\ s = 0 /\ ph = "rt"
RNext == UNCHANGED vars

RoundTrip ==
  CASE c.kind = "sec" -> DecSec(EncSec(c.v)) = [ok |-> TRUE, v |-> c.v] /\ Len(EncSec(c.v)) = 8 + Len(c.v.auth)
    [] c.kind = "vt" -> /\ WellFormedVt(c.cmds)
                        /\ LET d == DecVt(EncVt(c.cmds))
                           IN d.ok /\ d.cmds = c.cmds /\ d.end = Len(EncVt(c.cmds)) /\ d.iters = Len(c.cmds)
    [] c.kind = "syn" -> DecSyn(EncSyn(c.v), 0) = c.v /\ Len(EncSyn(c.v)) = 20
    [] OTHER -> /\ WellFormedPdu(c)
                /\ DecPdu(EncPdu(c)) = c
                /\ DecPdu(EncPdu(c) \o <<1, 2, 3>>) = c           \* bytes after frag_len are not part of the PDU
Alignment ==     \* the padding rules keep the variable parts 4-byte aligned
  CASE c.kind \in {"bind_ack", "alter_context_resp"} ->
         LET sa == SecAddrWire(c.sec_addr)
         IN (2 + Len(sa) + PadTo(2 + Len(sa), 4)) % 4 = 0 /\ PadTo(2 + Len(sa), 4) \in 0 .. 3
            /\ Len(EncBindAckBody(c)) = 8 + 2 + Len(sa) + PadTo(2 + Len(sa), 4) + 4 + 24 * Len(c.results)
    [] c.kind = "bind_nak" -> Len(EncBindNakBody(c)) % 4 = 0
    [] OTHER -> TRUE

(* ---- decoder loops as a step machine ------------------------------------------------------- *)
SetCount(body, off, n) == [body EXCEPT ![off + 1] = n]
Trunc(b, n) == SubSeq(b, 1, Min2(n, Len(b)))
BindBodies ==
  {[loop |-> "ctx", what |-> "count", start |-> 12, b |-> Trunc(SetCount(EncBindBody(BindMsg("bind", nc, 1, 0)), 8, ann), cut)] :
      nc \in 0 .. 3, ann \in {0, 1, 2, 3, 4, 255}, cut \in {12, 35, 36, 60, 1000}}
  \cup {[loop |-> "ctx", what |-> "ntransfer", start |-> 12,
         b |-> SetCount(EncBindBody(BindMsg("bind", 2, 1, 0)), 12 + 2, nts)] : nts \in {0, 1, 2, 3, 200, 255}}
AckBodies ==
  {[loop |-> "res", what |-> "count", start |-> 10 + Len(SecAddrWire([i \in 1 .. sl |-> 49])) + PadTo(2 + Len(SecAddrWire([i \in 1 .. sl |-> 49])), 4) + 4,
    b |-> Trunc(SetCount(EncBindAckBody(AckMsg("bind_ack", sl, nr, 0)),
                         10 + Len(SecAddrWire([i \in 1 .. sl |-> 49])) + PadTo(2 + Len(SecAddrWire([i \in 1 .. sl |-> 49])), 4), ann), cut)] :
      sl \in {0, 5}, nr \in 0 .. 3, ann \in {0, 1, 3, 4, 255}, cut \in {40, 63, 1000}}
NakBodies ==
  {[loop |-> "ver", what |-> "count", start |-> 3, b |-> Trunc(SetCount(EncBindNakBody(NakMsg(nv)), 2, ann), cut)] :
      nv \in 0 .. 4, ann \in {0, 1, 4, 5, 255}, cut \in {3, 4, 6, 1000}}
VtBodies ==
  {[loop |-> "cmd", what |-> "no_end", start |-> 8, b |-> EncVt(q)] : q \in CmdLists(FALSE)}
  \cup {[loop |-> "cmd", what |-> "end", start |-> 8, b |-> EncVt(q) \o <<0, 0, 0, 0>>] : q \in {x \in CmdLists(TRUE) : Len(x) <= 2}}
  \cup {[loop |-> "cmd", what |-> "truncated", start |-> 8, b |-> Trunc(EncVt(q), Len(EncVt(q)) - cut)] :
          q \in {x \in CmdLists(TRUE) : Len(x) <= 2}, cut \in {1, 3, 5}}
  \cup {[loop |-> "cmd", what |-> "length_beyond_data", start |-> 8, b |-> VtSignature \o <<1, 0>> \o LE16(n) \o Fill(n, k)] :
          n \in {4, 5, 255, 65535}, k \in {0, 3, 4}}
LoopCases == BindBodies \cup AckBodies \cup NakBodies \cup VtBodies

Announced(cs) ==
  CASE cs.loop = "cmd" -> 0 - 1
    [] cs.loop = "ctx" -> cs.b[9]
    [] cs.loop = "res" -> cs.b[cs.start - 3]
    [] cs.loop = "ver" -> cs.b[3]
LInit == c \in {x \in LoopCases : Len(x.b) >= x.start} /\ s = LoopInit(c.start, Announced(c)) /\ ph = "run"
LStep == ph = "run" /\ ~s.done /\ s' = Step(c.loop, c.b, s) /\ UNCHANGED <<c, ph>>
Wire(cs) ==    \* the bytes handed to the real decoder: a whole PDU around the body, or the trailer itself
  CASE cs.loop = "cmd" -> cs.b
    [] cs.loop = "ctx" -> EncHeader([Hdr("bind", 3, 0) EXCEPT !.frag_len = 16 + Len(cs.b)]) \o cs.b
    [] cs.loop = "res" -> EncHeader([Hdr("bind_ack", 3, 0) EXCEPT !.frag_len = 16 + Len(cs.b)]) \o cs.b
    [] cs.loop = "ver" -> EncHeader([Hdr("bind_nak", 3, 0) EXCEPT !.frag_len = 16 + Len(cs.b)]) \o cs.b
LEmit == ph = "run" /\ s.done /\ ph' = "done" /\ UNCHANGED <<c, s>>
(* emission as an invariant: evaluated exactly once per distinct terminal state *)
EmitCase ==
  ph = "done" =>
    PrintT(<<"CASE", ToJson([loop |-> c.loop, what |-> c.what, wire |-> Wire(c), ok |-> s.ok, iters |-> s.iters,
                             nitems |-> Len(s.items)])>>)
LNext == LStep \/ LEmit
LSpec == LInit /\ [][LNext]_vars /\ WF_vars(LNext)

IterationsBounded == ph # "rt" => s.iters <= IterBound(c.loop, Len(c.b) - c.start)
CursorInside == ph # "rt" => s.cur <= Len(c.b)
NoEndIsRejected == (ph = "done" /\ c.what = "no_end") => ~s.ok      \* missing end marker: error, not a loop
Terminates == <>(ph = "done")
=============================================================================
