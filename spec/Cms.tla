-------------------------------- MODULE Cms --------------------------------
(***************************************************************************)
(* The DPAPI-NG blob as RFC 5652 CMS over Der.tla, in the layout of real   *)
(* NCryptProtectSecret output:                                             *)
(*                                                                         *)
(* ContentInfo ::= SEQUENCE { OID 1.2.840.113549.1.7.3,                    *)
(*   [0] EXPLICIT EnvelopedData ::= SEQUENCE { version INTEGER 2,          *)
(*     recipientInfos SET { [2] KEKRecipientInfo ::= SEQUENCE-content {    *)
(*         version INTEGER 4,                                              *)
(*         kekid SEQUENCE { keyIdentifier OCTET STRING (KeyIdentifier),    *)
(*                          other SEQUENCE { OID 1.3.6.1.4.1.311.74.1,     *)
(*                                           protection descriptor } },    *)
(*         keyEncryptionAlgorithm AlgorithmIdentifier,                     *)
(*         encryptedKey OCTET STRING } },                                  *)
(*     encryptedContentInfo SEQUENCE { OID 1.2.840.113549.1.7.1,           *)
(*         AlgorithmIdentifier, [0] IMPLICIT OCTET STRING OPTIONAL } } } } *)
(* followed, in the trailing layout, by the encrypted content.             *)
(*                                                                         *)
(* A blob value x is a record                                              *)
(*   kid  = [version, flags, l0, l1, l2 : <<hi16, lo16>>,                  *)
(*           g = [d1 : <<hi16, lo16>>, d2, d3 : 0..65535, d4 : 8 bytes],   *)
(*           key_info : bytes, domain, forest : code points]               *)
(*   sid : code points, enc_cek : bytes, cek_alg / ct_alg : OID arcs,      *)
(*   cek_par / ct_par = [p : BOOLEAN, raw : bytes] (ANY, raw DER),         *)
(*   content : bytes.                                                      *)
(***************************************************************************)
EXTENDS Der

(******************************* byte helpers *****************************)
U16LE(n) == <<n % 256, n \div 256>>
U32LE(l) == U16LE(l[2]) \o U16LE(l[1])               \* l = <<hi16, lo16>>
Limbs(n) == <<n \div 65536, n % 65536>>              \* a TLC natural as limbs
Utf16Char(c) ==
  IF c < 65536 THEN U16LE(c)
  ELSE LET d == c - 65536 IN U16LE(55296 + (d \div 1024)) \o U16LE(56320 + (d % 1024))
Utf16z(cps) == Cat([i \in 1 .. Len(cps) |-> Utf16Char(cps[i])]) \o <<0, 0>>

RECURSIVE Utf16Dec(_)        \* UTF-16LE without terminator -> <<ok, code points>>
Utf16Dec(b) ==
  IF b = <<>> THEN <<TRUE, <<>>>>
  ELSE IF Len(b) < 2 THEN <<FALSE, <<>>>>
  ELSE
    LET u == b[1] + 256 * b[2]
    IN IF u \in 55296 .. 56319
       THEN IF Len(b) < 4 THEN <<FALSE, <<>>>>
            ELSE LET w == b[3] + 256 * b[4]
                     r == Utf16Dec(SubSeq(b, 5, Len(b)))
                 IN IF w \notin 56320 .. 57343 \/ ~r[1] THEN <<FALSE, <<>>>>
                    ELSE <<TRUE, <<65536 + (u - 55296) * 1024 + (w - 56320)>> \o r[2]>>
       ELSE IF u \in 56320 .. 57343 THEN <<FALSE, <<>>>>
       ELSE LET r == Utf16Dec(SubSeq(b, 3, Len(b)))
            IN IF ~r[1] THEN <<FALSE, <<>>>> ELSE <<TRUE, <<u>> \o r[2]>>

(************************* KeyIdentifier structure ************************)
Magic == <<75, 68, 83, 75>>                           \* "KDSK"
GuidBytes(g) == U32LE(g.d1) \o U16LE(g.d2) \o U16LE(g.d3) \o g.d4
KeyIdBytes(k) ==
  LET dom == Utf16z(k.domain)
      forest == Utf16z(k.forest)
  IN U32LE(k.version) \o Magic \o U32LE(k.flags) \o U32LE(k.l0) \o U32LE(k.l1) \o U32LE(k.l2)
     \o GuidBytes(k.g)
     \o U32LE(Limbs(Len(k.key_info))) \o U32LE(Limbs(Len(dom))) \o U32LE(Limbs(Len(forest)))
     \o k.key_info \o dom \o forest

LimbsAt(b, i) == <<b[i + 2] + 256 * b[i + 3], b[i] + 256 * b[i + 1]>>
NatAt(b, i) == LET l == LimbsAt(b, i) IN IF l[1] >= 32768 THEN -1 ELSE l[1] * 65536 + l[2]
BadKid == [ok |-> FALSE]
KeyIdParse(b) ==
  IF Len(b) < 52 \/ SubSeq(b, 5, 8) # Magic THEN BadKid
  ELSE
    LET kl == NatAt(b, 41) dl == NatAt(b, 45) fl == NatAt(b, 49)
    IN IF kl < 0 \/ dl < 2 \/ fl < 2 \/ dl % 2 # 0 \/ fl % 2 # 0 \/ 52 + kl + dl + fl # Len(b) THEN BadKid
       ELSE
         LET dom == SubSeq(b, 53 + kl, 52 + kl + dl)
             forest == SubSeq(b, 53 + kl + dl, 52 + kl + dl + fl)
             d == Utf16Dec(SubSeq(dom, 1, dl - 2))
             f == Utf16Dec(SubSeq(forest, 1, fl - 2))
         IN IF ~d[1] \/ ~f[1] \/ SubSeq(dom, dl - 1, dl) # <<0, 0>> \/ SubSeq(forest, fl - 1, fl) # <<0, 0>> THEN BadKid
            ELSE [ok |-> TRUE,
                  k |-> [version |-> LimbsAt(b, 1), flags |-> LimbsAt(b, 9), l0 |-> LimbsAt(b, 13),
                         l1 |-> LimbsAt(b, 17), l2 |-> LimbsAt(b, 21),
                         g |-> [d1 |-> LimbsAt(b, 25), d2 |-> b[29] + 256 * b[30], d3 |-> b[31] + 256 * b[32],
                                d4 |-> SubSeq(b, 33, 40)],
                         key_info |-> SubSeq(b, 53, 52 + kl), domain |-> d[2], forest |-> f[2]]]

(****************************** DER leaves ********************************)
Oid(s) == [i \in 1 .. Len(s) |-> Digits(s[i], 128)]
OidEnveloped == Oid(<<1, 2, 840, 113549, 1, 7, 3>>)
OidData == Oid(<<1, 2, 840, 113549, 1, 7, 1>>)
OidMs == Oid(<<1, 3, 6, 1, 4, 1, 311, 74, 1>>)
OidSid == Oid(<<1, 3, 6, 1, 4, 1, 311, 74, 1, 1>>)
OidAesWrap == Oid(<<2, 16, 840, 1, 101, 3, 4, 1, 45>>)
OidAesGcm == Oid(<<2, 16, 840, 1, 101, 3, 4, 1, 46>>)

CIntV(i) == LET s == SM(i) IN [k |-> "int", cls |-> 0, pc |-> 0, num |-> 2, neg |-> s.neg, mag |-> s.mag]
COctV(b) == [k |-> "oct", cls |-> 0, pc |-> 0, num |-> 4, bytes |-> b]
COidV(a) == [k |-> "oid", cls |-> 0, pc |-> 0, num |-> 6, arcs |-> a]
CUtf8V(c) == [k |-> "utf8", cls |-> 0, pc |-> 0, num |-> 12, cps |-> c]
CSeqV(kids) == [k |-> "cons", cls |-> 0, pc |-> 1, num |-> 16, kids |-> kids]
TInt == [k |-> "int", cls |-> 0, pc |-> 0, num |-> 2]
TOct == [k |-> "oct", cls |-> 0, pc |-> 0, num |-> 4]
TOid == [k |-> "oid", cls |-> 0, pc |-> 0, num |-> 6]

SidText == <<83, 73, 68>>                             \* "SID"
ProtDesc(sid) == CSeqV(<<COidV(OidSid), CSeqV(<<CSeqV(<<CSeqV(<<CUtf8V(SidText), CUtf8V(sid)>>)>>)>>)>>)
GcmParams(nonce, icvlen) == DerEnc(CSeqV(<<COctV(nonce), CIntV(icvlen)>>))
NoParams == [p |-> FALSE, raw |-> <<>>]

(****************************** the layout ********************************)
SeqOf(content) == Tlv(0, 1, 16, content)
AlgId(oid, par) == SeqOf(DerEnc(COidV(oid)) \o (IF par.p THEN par.raw ELSE <<>>))
KekId(x) ==
  SeqOf(DerEnc(COctV(KeyIdBytes(x.kid))) \o SeqOf(DerEnc(COidV(OidMs)) \o DerEnc(ProtDesc(x.sid))))
KekRi(x) ==
  Tlv(2, 1, 2, DerEnc(CIntV(4)) \o KekId(x) \o AlgId(x.cek_alg, x.cek_par) \o DerEnc(COctV(x.enc_cek)))
Eci(x, present) ==
  SeqOf(DerEnc(COidV(OidData)) \o AlgId(x.ct_alg, x.ct_par) \o (IF present THEN Tlv(2, 0, 0, x.content) ELSE <<>>))
Enveloped(x, present) == SeqOf(DerEnc(CIntV(2)) \o Tlv(0, 1, 17, KekRi(x)) \o Eci(x, present))
ContentInfo(x, present) == SeqOf(DerEnc(COidV(OidEnveloped)) \o Tlv(2, 1, 0, Enveloped(x, present)))

Layouts == {"envelope", "trailing"}
BlobBytes(x, layout) ==
  IF layout = "envelope" THEN ContentInfo(x, TRUE) ELSE ContentInfo(x, FALSE) \o x.content
(* encryptedContent is OPTIONAL: for an empty content the in-envelope layout may carry `80 00` or omit it *)
BlobBytesSet(x, layout) ==
  {BlobBytes(x, layout)} \cup (IF x.content = <<>> THEN {ContentInfo(x, FALSE)} ELSE {})

(********************** strict parse (spec-level inverse) ******************)
Bad == <<-1>>
Body(t, cls, pc, num) ==      \* content octets of a TLV that is exactly t and carries this tag
  IF t = Bad THEN Bad
  ELSE LET h == Header(t)
       IN IF h.ok /\ h.cls = cls /\ h.pc = pc /\ h.num = num /\ h.hl + h.cl = Len(t)
          THEN SubSeq(t, h.hl + 1, Len(t)) ELSE Bad
RECURSIVE Children(_)         \* content octets -> the TLVs in it (strict headers); <<Bad>> on failure
Children(c) ==
  IF c = Bad THEN <<Bad>>
  ELSE IF c = <<>> THEN <<>>
  ELSE LET h == Header(c)
       IN IF ~h.ok \/ h.hl + h.cl > Len(c) THEN <<Bad>>
          ELSE LET r == Children(SubSeq(c, h.hl + h.cl + 1, Len(c)))
               IN IF r = <<Bad>> THEN <<Bad>> ELSE <<SubSeq(c, 1, h.hl + h.cl)>> \o r
Nth(s, i) == IF i <= Len(s) /\ s # <<Bad>> THEN s[i] ELSE Bad
Leaf(ty, t) == IF t = Bad THEN DerErr ELSE LET d == DerDec(ty, t) IN IF d[2] = Len(t) THEN d[1] ELSE DerErr

AlgParse(t) ==                \* AlgorithmIdentifier -> [ok, oid, par]
  LET c == Body(t, 0, 1, 16)
      ks == Children(c)
      o == Leaf(TOid, Nth(ks, 1))
  IN IF o = DerErr THEN [ok |-> FALSE]
     ELSE LET used == Len(ks[1])
          IN [ok |-> TRUE, oid |-> o.arcs,
              par |-> IF used = Len(c) THEN NoParams ELSE [p |-> TRUE, raw |-> SubSeq(c, used + 1, Len(c))]]

PdType == TypeOf(ProtDesc(<<>>))
BadBlob == [ok |-> FALSE]
ParseBlob(b) ==
  LET h0 == Header(b)
      n0 == IF h0.ok /\ h0.hl + h0.cl <= Len(b) THEN h0.hl + h0.cl ELSE 0
      ci == IF n0 = 0 THEN Bad ELSE SubSeq(b, 1, n0)
      trailing == SubSeq(b, n0 + 1, Len(b))
      ciK == Children(Body(ci, 0, 1, 16))
      ctype == Leaf(TOid, Nth(ciK, 1))
      envK == Children(Body(Nth(ciK, 2), 2, 1, 0))
      parts == Children(Body(Nth(envK, 1), 0, 1, 16))
      envVer == Leaf(TInt, Nth(parts, 1))
      ris == Children(Body(Nth(parts, 2), 0, 1, 17))
      kek == Children(Body(Nth(ris, 1), 2, 1, 2))
      kekVer == Leaf(TInt, Nth(kek, 1))
      kekid == Children(Body(Nth(kek, 2), 0, 1, 16))
      kidOct == Leaf(TOct, Nth(kekid, 1))
      other == Children(Body(Nth(kekid, 2), 0, 1, 16))
      attrOid == Leaf(TOid, Nth(other, 1))
      pd == Leaf(PdType, Nth(other, 2))
      cekAlg == AlgParse(Nth(kek, 3))
      encKey == Leaf(TOct, Nth(kek, 4))
      eci == Children(Body(Nth(parts, 3), 0, 1, 16))
      dtype == Leaf(TOid, Nth(eci, 1))
      ctAlg == AlgParse(Nth(eci, 2))
      present == Len(eci) = 3
      inner == IF present THEN Body(Nth(eci, 3), 2, 0, 0) ELSE <<>>
  IN IF \/ n0 = 0 \/ Len(ciK) # 2 \/ ctype = DerErr \/ Len(envK) # 1 \/ Len(parts) # 3 \/ envVer = DerErr
        \/ Len(ris) < 1 \/ ris = <<Bad>> \/ Len(kek) # 4 \/ kekVer = DerErr \/ Len(kekid) # 2 \/ kidOct = DerErr
        \/ Len(other) # 2 \/ attrOid = DerErr \/ pd = DerErr \/ ~cekAlg.ok \/ encKey = DerErr
        \/ Len(eci) \notin {2, 3} \/ eci = <<Bad>> \/ dtype = DerErr \/ ~ctAlg.ok \/ inner = Bad
     THEN BadBlob
     ELSE
       LET kp == KeyIdParse(kidOct.bytes)
           pdk == pd.kids[2].kids[1].kids[1].kids
       IN IF ~kp.ok THEN BadBlob
          ELSE [ok |-> TRUE, ctype |-> ctype.arcs, dtype |-> dtype.arcs, env_version |-> envVer, kek_version |-> kekVer,
                nris |-> Len(ris), attr_oid |-> attrOid.arcs, pd_oid |-> pd.kids[1].arcs, pd_type |-> pdk[1].cps,
                present |-> present, trailing |-> trailing,
                x |-> [kid |-> kp.k, sid |-> pdk[2].cps, enc_cek |-> encKey.bytes,
                       cek_alg |-> cekAlg.oid, cek_par |-> cekAlg.par,
                       ct_alg |-> ctAlg.oid, ct_par |-> ctAlg.par,
                       content |-> IF present THEN inner ELSE trailing]]

(******************************* templates ********************************)
(* RFC 5652 structure with the DPAPI-NG fixed points *)
CmsTemplateP(p) ==
  /\ p.ok
  /\ p.ctype = OidEnveloped /\ p.dtype = OidData
  /\ p.env_version = CIntV(2) /\ p.kek_version = CIntV(4)
  /\ p.nris = 1
  /\ p.attr_oid = OidMs /\ p.pd_oid = OidSid /\ p.pd_type = SidText
  /\ (p.present => p.trailing = <<>>)

GcmType == TypeOf(CSeqV(<<COctV(<<>>), CIntV(0)>>))
WindowsTemplateP(p) ==
  /\ CmsTemplateP(p)
  /\ p.x.cek_alg = OidAesWrap /\ ~p.x.cek_par.p
  /\ p.x.ct_alg = OidAesGcm /\ p.x.ct_par.p
  /\ LET g == DerDec(GcmType, p.x.ct_par.raw)
     IN /\ g[1] # DerErr /\ g[2] = Len(p.x.ct_par.raw)
        /\ Len(g[1].kids[1].bytes) = 12 /\ g[1].kids[2] = CIntV(16)

(* the whole ContentInfo of a Windows-shaped blob as one Der.tla value tree (second route to the bytes) *)
WinTree(x, nonce, present) ==
  LET Ctx(num, kids) == [k |-> "cons", cls |-> 2, pc |-> 1, num |-> num, kids |-> kids]
      eci == <<COidV(OidData), CSeqV(<<COidV(OidAesGcm), CSeqV(<<COctV(nonce), CIntV(16)>>)>>)>>
             \o (IF present THEN <<[k |-> "oct", cls |-> 2, pc |-> 0, num |-> 0, bytes |-> x.content]>> ELSE <<>>)
      kekri == Ctx(2, <<CIntV(4),
                        CSeqV(<<COctV(KeyIdBytes(x.kid)), CSeqV(<<COidV(OidMs), ProtDesc(x.sid)>>)>>),
                        CSeqV(<<COidV(OidAesWrap)>>),
                        COctV(x.enc_cek)>>)
  IN CSeqV(<<COidV(OidEnveloped),
             Ctx(0, <<CSeqV(<<CIntV(2), [k |-> "cons", cls |-> 0, pc |-> 1, num |-> 17, kids |-> <<kekri>>], CSeqV(eci)>>)>>)>>)

CmsTemplate(b) == CmsTemplateP(ParseBlob(b))
WindowsTemplate(b) == WindowsTemplateP(ParseBlob(b))
=============================================================================
