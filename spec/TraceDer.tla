------------------------------ MODULE TraceDer ------------------------------
(***************************************************************************)
(* Case-trace validation for C07.  Every line is one execution of the real *)
(* dpapi_ng ASN1Writer followed by the real ASN1Reader.                    *)
(*                                                                         *)
(* k = "t"  general case: vals (value trees, see Der.tla) written in order *)
(*          to one writer; w / wexc = emitted bytes or exception class;    *)
(*          rin = bytes given to the reader before the trailer `trail`     *)
(*          (the writer's bytes; the spec encoding when the writer failed  *)
(*          -- TLC checks rin = DerEncAll(vals) itself; rw = TRUE means    *)
(*          "the reader was given exactly w"); rvals = trees               *)
(*          rebuilt from what read_* returned, rexc = exception class;     *)
(*          rest = get_remaining_data() after the last read; sub_left =    *)
(*          octets left in every nested reader after its last child;       *)
(*          hdr = peek_header() of the first value                         *)
(*          <<cls, pc, num, header octets, content octets>>.               *)
(* k = "i"  one small integer (TLC int) v, universal INTEGER.              *)
(* k = "ib" a batch of consecutive small integers lo, lo+1, ...            *)
(* k = "L"  large content as runs <<byte, count>> wrapped in `wrap`        *)
(*          SEQUENCEs; emitted bytes and returned bytes as canonical runs. *)
(***************************************************************************)
EXTENDS Der, TLC, Json, IOUtils, FiniteSetsExt
VARIABLE dummy
TInit == dummy = 0
TNext == UNCHANGED dummy

IntV(i) == LET sm == SM(i) IN [k |-> "int", cls |-> 0, pc |-> 0, num |-> 2, neg |-> sm.neg, mag |-> sm.mag]

TFails(ln) ==
  LET vals == ln.vals
      n == Len(vals)
  IN IF \E i \in 1 .. n : ~WfVal(vals[i]) THEN {"MACHINERY_bad_value"}
     ELSE
       LET enc == DerEncAll(vals)
           tys == [i \in 1 .. n |-> TypeOf(vals[i])]
           rin == IF ln.rw THEN ln.w ELSE ln.rin
           dec == DecAll(tys, rin \o ln.trail)
           v1 == vals[1]
           c1 == Len(Content(v1))
           hdr == <<v1.cls, v1.pc, v1.num, Len(IdOctets(v1.cls, v1.pc, v1.num)) + Len(LenOctets(c1)), c1>>
       IN (IF rin # enc /\ ~(ln.rw /\ ln.wexc = "") THEN {"MACHINERY_reader_input_is_not_spec_encoding"} ELSE {})
          \cup (IF rin = enc /\ dec # <<TRUE, vals, Len(enc)>> THEN {"MACHINERY_spec_decoder_disagrees"} ELSE {})
          \cup (IF ln.wexc # "" THEN {"writer_raises"}
                ELSE IF ln.w # enc THEN {"writer_bytes_not_minimal_der"} ELSE {})
          \cup (IF ln.rexc # "" THEN {"reader_raises"}
                ELSE (IF ln.rvals # vals THEN {"reader_value_differs"} ELSE {})
                     \cup (IF ln.rest # ln.trail THEN {"reader_consumption_not_exact"} ELSE {})
                     \cup (IF \E i \in 1 .. Len(ln.sub_left) : ln.sub_left[i] # 0
                             THEN {"nested_reader_left_over"} ELSE {}))
          \cup (IF ln.hdr # hdr THEN {"header_mismatch"} ELSE {})

IFails(ln) ==
  LET enc == DerEnc(IntV(ln.v))
  IN (IF ln.wexc # "" THEN {"writer_raises"} ELSE IF ln.w # enc THEN {"writer_bytes_not_minimal_der"} ELSE {})
     \cup (IF ~ln.rw /\ ln.rin # enc THEN {"MACHINERY_reader_input_is_not_spec_encoding"} ELSE {})
     \cup (IF ln.rexc # "" THEN {"reader_raises"}
           ELSE (IF ln.rv # ln.v THEN {"reader_value_differs"} ELSE {})
                \cup (IF ln.left # 0 THEN {"reader_consumption_not_exact"} ELSE {}))

IBFails(ln) ==
  LET n == Len(ln.w)
  IN (IF Len(ln.rv) # n \/ Len(ln.left) # n THEN {"MACHINERY_bad_batch"} ELSE {})
     \cup (IF \E i \in 1 .. n : ln.w[i] # DerEnc(IntV(ln.lo + i - 1)) THEN {"writer_bytes_not_minimal_der"} ELSE {})
     \cup (IF \E i \in 1 .. n : ln.rv[i] # ln.lo + i - 1 THEN {"reader_value_differs"} ELSE {})
     \cup (IF \E i \in 1 .. n : ln.left[i] # 0 THEN {"reader_consumption_not_exact"} ELSE {})

RECURSIVE WrapRuns(_, _)
WrapRuns(r, d) == IF d = 0 THEN r ELSE WrapRuns(TlvRuns(0, 1, 16, r), d - 1)
LFails(ln) ==
  LET content == Canon(<<<<ln.run[1], ln.run[2]>>>>)
      inner == TlvRuns(ln.cls, ln.pc, ln.num, content)
      exp == WrapRuns(inner, ln.wrap)
      hl == Len(IdOctets(ln.cls, ln.pc, ln.num)) + Len(LenOctets(ln.run[2]))
  IN (IF ln.wexc # "" THEN {"writer_raises"} ELSE IF ln.w # exp THEN {"writer_bytes_not_minimal_der"} ELSE {})
     \cup (IF ln.rexc # "" THEN {"reader_raises"}
           ELSE (IF ln.rv # content THEN {"reader_value_differs"} ELSE {})
                \cup (IF ln.left # 0 THEN {"reader_consumption_not_exact"} ELSE {})
                \cup (IF ln.hdr # <<ln.cls, ln.pc, ln.num, hl, ln.run[2]>> THEN {"header_mismatch"} ELSE {}))

Fails(ln) ==
  CASE ln.k = "t" -> TFails(ln)
    [] ln.k = "i" -> IFails(ln)
    [] ln.k = "ib" -> IBFails(ln)
    [] ln.k = "L" -> LFails(ln)
    [] OTHER -> {"MACHINERY_unknown_row_kind"}

Result ==
  LET L == ndJsonDeserialize(IOEnv.TRACE_FILE)
      N == Len(L)
      F == [i \in 1 .. N |-> Fails(L[i])]
  IN <<"RESULT", [n |-> N], {<<L[i].id, F[i]>> : i \in {j \in 1 .. N : F[j] # {}}}>>
ASSUME PrintT(Result)
=============================================================================
