------------------------------ MODULE ApaClock ------------------------------
(* Unbounded arithmetic lemmas for C09, discharged by Apalache (--length=0): *)
(*  (1) for every natural t the MS-GKDI formula with the real constants names *)
(*      an interval that contains t, with L1, L2 in 0..31;                    *)
(*  (2) the decimal-limb representation used by the TLC trace checks is       *)
(*      faithful: floor(t / 3.6e11) = hi \div 36 for t = hi*10^10+mid*10^5+lo *)
EXTENDS Integers
VARIABLES
  \* @type: Int;
  t,
  \* @type: Int;
  hi,
  \* @type: Int;
  mid,
  \* @type: Int;
  lo
Base == 360000000000
idx == t \div Base
L0 == idx \div 1024
L1 == (idx \div 32) % 32
L2 == idx % 32
StartT == ((L0 * 32 + L1) * 32 + L2) * Base
Init == /\ t \in Nat /\ hi \in Nat /\ mid \in 0 .. 99999 /\ lo \in 0 .. 99999
Next == UNCHANGED <<t, hi, mid, lo>>
Lemma1 == /\ StartT <= t /\ t < StartT + Base /\ L1 \in 0 .. 31 /\ L2 \in 0 .. 31 /\ L0 >= 0
Lemma2 == (hi * 10000000000 + mid * 100000 + lo) \div Base = hi \div 36
(* nested floor divisions compose: the statement's formula = the idx form      *)
Lemma3 == t \div (1024 * Base) = idx \div 1024 /\ t \div (32 * Base) = idx \div 32
Inv == Lemma1 /\ Lemma2 /\ Lemma3
=============================================================================
