---------------------------- MODULE MC_GkdiLemma ----------------------------
(* Constant-level lemmas about the derivation graph, evaluated by TLC.      *)
EXTENDS GkdiGraph, TLC, Json
VARIABLE dummy
LInit == dummy = 0
LNext == UNCHANGED dummy

(* every non-root node has exactly one parent chain ending at the root       *)
ChainsEnd == \A n \in Nodes \ {Root} : Dist(Root, n) >= 1
DepthBound == \A n \in Nodes : Dist(Root, n) <= 2 * Fan + 1
(* contexts are pairwise distinct: no two derivation steps share KDF input   *)
ContextsDistinct == \A m, n \in Nodes \ {Root} : m # n => KdfContext(m) # KdfContext(n)
CoverLemma == \A e \in AllEnvs : \A r1, r2 \in Idx : Covers(e, r1, r2) <=> Derivable(e, r1, r2)
RootEnvShaped == WellShaped([RootEnv EXCEPT !.l2 = None]) 
ASSUME ChainsEnd
ASSUME DepthBound
ASSUME ContextsDistinct
ASSUME CoverLemma
ASSUME RootEnv \in AllEnvs
=============================================================================
