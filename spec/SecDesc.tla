------------------------------ MODULE SecDesc ------------------------------
(***************************************************************************)
(* MS-DTYP 2.4.2 SID, 2.4.4 ACE, 2.4.5 ACL, 2.4.6 self-relative SECURITY_  *)
(* DESCRIPTOR as byte layouts over Seq(0..255), the string form of a SID   *)
(* (2.4.2.1) as a grammar over code points, and the target security        *)
(* descriptor MS-GKDI / DPAPI-NG builds for a SID protection descriptor.    *)
(*                                                                         *)
(* Constant level (no variables): MC_SecDesc and TraceSecDesc EXTEND it.   *)
(*                                                                         *)
(* Numbers that exceed TLC's 32-bit integers (authority < 2^48,            *)
(* sub-authority < 2^32, and the out-of-range near misses up to 2^64 and   *)
(* beyond) are DECIMAL DIGIT SEQUENCES (Seq(0..9), most significant        *)
(* first); conversion to bytes is long division by 256 on the digits, so   *)
(* nothing here depends on machine integers larger than 2559.              *)
(*                                                                         *)
(* An abstract SID is [rev |-> 0..9, auth |-> digits, subs |-> Seq(digits)]*)
(* with canonical digit sequences (no leading zeros).                      *)
(***************************************************************************)
EXTENDS Naturals, Sequences, FiniteSets

(* ---- small helpers -------------------------------------------------------- *)
MinOf(S) == CHOOSE x \in S : \A y \in S : x <= y
Rev(s) == [i \in 1 .. Len(s) |-> s[Len(s) + 1 - i]]

RECURSIVE Flat(_)
Flat(ss) == IF ss = <<>> THEN <<>> ELSE Head(ss) \o Flat(Tail(ss))

LE16(n) == <<n % 256, (n \div 256) % 256>>
LE32(n) == <<n % 256, (n \div 256) % 256, (n \div 65536) % 256, (n \div 16777216) % 256>>
FromLE16(b) == b[1] + 256 * b[2]
(* offsets/sizes read from bytes: -1 when it does not fit TLC's integers      *)
FromLE32(b) == IF b[4] >= 128 THEN 0 - 1 ELSE b[1] + 256 * b[2] + 65536 * b[3] + 16777216 * b[4]

(* ---- decimal digit sequences ------------------------------------------------ *)
IsDigits(ds) == Len(ds) >= 1 /\ \A i \in 1 .. Len(ds) : ds[i] \in 0 .. 9

StripZeros(ds) ==
  LET nz == {i \in 1 .. Len(ds) : ds[i] # 0}
  IN IF nz = {} THEN <<0>> ELSE SubSeq(ds, MinOf(nz), Len(ds))

IsCanonicalDigits(ds) == IsDigits(ds) /\ (Len(ds) = 1 \/ ds[1] # 0)

(* a < b on arbitrary digit sequences (leading zeros allowed)                   *)
DecLess(a, b) ==
  LET x == StripZeros(a)
      y == StripZeros(b)
  IN \/ Len(x) < Len(y)
     \/ /\ Len(x) = Len(y)
        /\ \E i \in 1 .. Len(x) : x[i] < y[i] /\ \A j \in 1 .. (i - 1) : x[j] = y[j]

RECURSIVE NatDigits(_)
NatDigits(n) == IF n < 10 THEN <<n>> ELSE NatDigits(n \div 10) \o <<n % 10>>

(* ds = 256 * q + r, school division from the most significant digit           *)
DivMod256(ds) ==
  LET n == Len(ds)
      F[i \in 0 .. n] ==
        IF i = 0 THEN [q |-> <<>>, r |-> 0]
        ELSE LET p == F[i - 1]
                 cur == p.r * 10 + ds[i]
             IN [q |-> Append(p.q, cur \div 256), r |-> cur % 256]
  IN F[n]

RECURSIVE ToBytesLE(_, _)
ToBytesLE(ds, n) ==              \* the n low-order base-256 digits, least significant first
  IF n = 0 THEN <<>>
  ELSE LET dm == DivMod256(ds) IN <<dm.r>> \o ToBytesLE(dm.q, n - 1)
ToBytesBE(ds, n) == Rev(ToBytesLE(ds, n))

RECURSIVE QuotAfter(_, _)
QuotAfter(ds, n) == IF n = 0 THEN ds ELSE QuotAfter(DivMod256(ds).q, n - 1)
(* ds < 256^n, decided by division (independent of the constants below)         *)
Fits(ds, n) == StripZeros(QuotAfter(ds, n)) = <<0>>

(* ds * 256 + b                                                                  *)
MulAdd256(ds, b) ==
  LET n == Len(ds)
      G[k \in 0 .. n] ==
        IF k = 0 THEN [d |-> <<>>, c |-> b]
        ELSE LET p == G[k - 1]
                 v == ds[n - k + 1] * 256 + p.c
             IN [d |-> <<v % 10>> \o p.d, c |-> v \div 10]
  IN StripZeros(NatDigits(G[n].c) \o G[n].d)

RECURSIVE BytesToDigitsAcc(_, _)
BytesToDigitsAcc(acc, bs) ==
  IF bs = <<>> THEN acc ELSE BytesToDigitsAcc(MulAdd256(acc, Head(bs)), Tail(bs))
BytesToDigits(bs) == BytesToDigitsAcc(<<0>>, bs)        \* big-endian bytes -> canonical digits

Pow2_32 == <<4, 2, 9, 4, 9, 6, 7, 2, 9, 6>>
Pow2_48 == <<2, 8, 1, 4, 7, 4, 9, 7, 6, 7, 1, 0, 6, 5, 6>>

(* ---- MS-DTYP 2.4.2.2 SID (binary) ------------------------------------------ *)
WellFormedSid(x) ==
  /\ x.rev \in 0 .. 9
  /\ IsCanonicalDigits(x.auth) /\ DecLess(x.auth, Pow2_48)
  /\ Len(x.subs) \in 1 .. 15
  /\ \A i \in 1 .. Len(x.subs) : IsCanonicalDigits(x.subs[i]) /\ DecLess(x.subs[i], Pow2_32)

SidBytes(x) ==
  <<x.rev, Len(x.subs)>>                                   \* Revision, SubAuthorityCount
  \o ToBytesBE(x.auth, 6)                                  \* IdentifierAuthority, big-endian
  \o Flat([i \in 1 .. Len(x.subs) |-> ToBytesLE(x.subs[i], 4)])   \* SubAuthority[], little-endian

NoSid == [rev |-> 99, auth |-> <<>>, subs |-> <<>>]

(* independent reader: SID at 0-based offset off of b                            *)
SidAt(b, off) ==
  IF off < 0 \/ off + 8 > Len(b) THEN [ok |-> FALSE, len |-> 0, sid |-> NoSid]
  ELSE LET n == b[off + 2]
       IN IF off + 8 + 4 * n > Len(b) THEN [ok |-> FALSE, len |-> 0, sid |-> NoSid]
          ELSE [ok  |-> TRUE,
                len |-> 8 + 4 * n,
                sid |-> [rev  |-> b[off + 1],
                         auth |-> BytesToDigits(SubSeq(b, off + 3, off + 8)),
                         subs |-> [i \in 1 .. n |->
                                     BytesToDigits(Rev(SubSeq(b, off + 8 + 4 * (i - 1) + 1, off + 8 + 4 * i)))]]]

SidParse(b) == LET r == SidAt(b, 0) IN IF r.ok /\ r.len = Len(b) THEN r.sid ELSE NoSid

(* ---- MS-DTYP 2.4.4.2 ACCESS_ALLOWED_ACE, 2.4.5 ACL --------------------------- *)
AceBytes(sidBytes, mask) ==
  <<0, 0>> \o LE16(8 + Len(sidBytes)) \o LE32(mask) \o sidBytes   \* type, flags, size, mask, sid

AclBytes(aces) ==
  LET body == Flat(aces)
  IN <<2, 0>> \o LE16(8 + Len(body)) \o LE16(Len(aces)) \o <<0, 0>> \o body

(* ---- MS-DTYP 2.4.6 self-relative security descriptor, no SACL ------------------ *)
(* dynamic data in the order Windows (and therefore the KDF input) uses:            *)
(* DACL, owner, group                                                               *)
SdBytes(ownerBytes, groupBytes, daclBytes) ==
  LET offDacl  == 20
      offOwner == offDacl + Len(daclBytes)
      offGroup == offOwner + Len(ownerBytes)
  IN <<1, 0>> \o <<4, 128>>                                \* Revision, Sbz1, Control = 0x8004 (SR | DP)
     \o LE32(offOwner) \o LE32(offGroup) \o LE32(0) \o LE32(offDacl)
     \o daclBytes \o ownerBytes \o groupBytes

SystemSid   == [rev |-> 1, auth |-> <<5>>, subs |-> << <<1, 8>> >>]     \* S-1-5-18
EveryoneSid == [rev |-> 1, auth |-> <<1>>, subs |-> << <<0>> >>]        \* S-1-1-0

TargetSd(x) ==
  SdBytes(SidBytes(SystemSid), SidBytes(SystemSid),
          AclBytes(<<AceBytes(SidBytes(x), 3), AceBytes(SidBytes(EveryoneSid), 2)>>))

(* ---- independent SD reader ------------------------------------------------------- *)
NoAce == [ok |-> FALSE, type |-> 0, flags |-> 0, size |-> 0, mask |-> <<>>, sid |-> NoSid, sidlen |-> 0]

AceAt(b, off) ==
  IF off < 0 \/ off + 8 > Len(b) THEN NoAce
  ELSE LET s == SidAt(b, off + 8)
       IN [ok |-> s.ok, type |-> b[off + 1], flags |-> b[off + 2],
           size |-> FromLE16(SubSeq(b, off + 3, off + 4)),
           mask |-> SubSeq(b, off + 5, off + 8), sid |-> s.sid, sidlen |-> s.len]

RECURSIVE AcesFrom(_, _, _)
AcesFrom(b, off, k) ==
  IF k = 0 THEN <<>>
  ELSE LET a == AceAt(b, off)
       IN IF ~a.ok \/ a.size < 8 THEN <<a>> ELSE <<a>> \o AcesFrom(b, off + a.size, k - 1)

SdParse(b) ==
  IF Len(b) < 20 THEN [ok |-> FALSE]
  ELSE LET oo == FromLE32(SubSeq(b, 5, 8))
           og == FromLE32(SubSeq(b, 9, 12))
           os == FromLE32(SubSeq(b, 13, 16))
           od == FromLE32(SubSeq(b, 17, 20))
       IN IF od < 0 \/ od + 8 > Len(b) THEN [ok |-> FALSE]
          ELSE LET cnt  == FromLE16(SubSeq(b, od + 5, od + 6))
                   aces == AcesFrom(b, od + 8, cnt)
               IN [ok |-> TRUE, rev |-> b[1], sbz1 |-> b[2], control |-> FromLE16(SubSeq(b, 3, 4)),
                   oo |-> oo, og |-> og, os |-> os, od |-> od,
                   owner |-> SidAt(b, oo), group |-> SidAt(b, og),
                   aclrev |-> b[od + 1], aclsbz1 |-> b[od + 2],
                   aclsize |-> FromLE16(SubSeq(b, od + 3, od + 4)),
                   count |-> cnt, aclsbz2 |-> FromLE16(SubSeq(b, od + 7, od + 8)),
                   aces |-> aces]

SumSizes(aces) == LET F[i \in 0 .. Len(aces)] == IF i = 0 THEN 0 ELSE F[i - 1] + aces[i].size IN F[Len(aces)]

(* What the property statement demands of the target SD for SID x, clause by clause,   *)
(* evaluated on bytes b with the reader above.  {} iff nothing is wrong.               *)
SdDefects(b, x) ==
  LET p == SdParse(b)
  IN IF ~p.ok THEN {"sd_unreadable"}
     ELSE
       (IF p.rev # 1 \/ p.sbz1 # 0 THEN {"sd_revision"} ELSE {})
       \cup (IF p.control # 32772 THEN {"sd_control_not_0x8004"} ELSE {})
       \cup (IF p.os # 0 THEN {"sd_sacl_offset_not_zero"} ELSE {})
       \cup (IF p.od # 20 THEN {"sd_dacl_offset"} ELSE {})
       \cup (IF ~p.owner.ok \/ p.owner.sid # SystemSid THEN {"sd_owner_not_system"} ELSE {})
       \cup (IF ~p.group.ok \/ p.group.sid # SystemSid THEN {"sd_group_not_system"} ELSE {})
       \cup (IF p.aclrev # 2 \/ p.aclsbz1 # 0 \/ p.aclsbz2 # 0 THEN {"acl_revision"} ELSE {})
       \cup (IF p.count # 2 \/ Len(p.aces) # 2 THEN {"acl_ace_count"} ELSE {})
       \cup (IF \E i \in 1 .. Len(p.aces) : ~p.aces[i].ok THEN {"ace_unreadable"} ELSE {})
       \cup (IF \E i \in 1 .. Len(p.aces) : p.aces[i].ok /\ p.aces[i].size # 8 + p.aces[i].sidlen
               THEN {"ace_size"} ELSE {})
       \cup (IF \E i \in 1 .. Len(p.aces) : p.aces[i].type # 0 \/ p.aces[i].flags # 0
               THEN {"ace_type_flags"} ELSE {})
       \cup (IF p.aclsize # 8 + SumSizes(p.aces) THEN {"acl_size"} ELSE {})
       \cup (IF Len(p.aces) >= 1 /\ p.aces[1].sid # x THEN {"ace1_sid_is_not_the_target_sid"} ELSE {})
       \cup (IF Len(p.aces) >= 1 /\ p.aces[1].mask # <<3, 0, 0, 0>> THEN {"ace1_mask_not_3"} ELSE {})
       \cup (IF Len(p.aces) >= 2 /\ p.aces[2].sid # EveryoneSid THEN {"ace2_sid_is_not_everyone"} ELSE {})
       \cup (IF Len(p.aces) >= 2 /\ p.aces[2].mask # <<2, 0, 0, 0>> THEN {"ace2_mask_not_2"} ELSE {})
       \cup (IF p.oo # p.od + p.aclsize THEN {"sd_owner_offset"} ELSE {})
       \cup (IF p.owner.ok /\ p.og # p.oo + p.owner.len THEN {"sd_group_offset"} ELSE {})
       \cup (IF p.group.ok /\ Len(b) # p.og + p.group.len THEN {"sd_total_length"} ELSE {})

(* ---- string form (MS-DTYP 2.4.2.1, decimal authority) ----------------------------- *)
Dash == 45
RECURSIVE Split(_)
Split(s) ==
  LET idx == {i \in 1 .. Len(s) : s[i] = Dash}
  IN IF idx = {} THEN <<s>>
     ELSE LET k == MinOf(idx) IN <<SubSeq(s, 1, k - 1)>> \o Split(SubSeq(s, k + 1, Len(s)))

IsAsciiDigits(p) == Len(p) >= 1 /\ \A i \in 1 .. Len(p) : p[i] \in 48 .. 57
PartDigits(p) == [i \in 1 .. Len(p) |-> p[i] - 48]
NoLeadZero(p) == Len(p) = 1 \/ p[1] # 48

(* "S" "-" digit "-" digits ("-" digits)*  -- P is Split(s)                            *)
ShapedP(P) ==
  /\ Len(P) >= 3
  /\ P[1] = <<83>>
  /\ Len(P[2]) = 1 /\ IsAsciiDigits(P[2])
  /\ \A i \in 3 .. Len(P) : IsAsciiDigits(P[i])
BadCountP(P) == Len(P) - 3 \notin 1 .. 15
OutOfRangeP(P) ==
  \/ ~DecLess(PartDigits(P[3]), Pow2_48)
  \/ \E i \in 4 .. Len(P) : ~DecLess(PartDigits(P[i]), Pow2_32)
CanonicalP(P) ==
  /\ ShapedP(P) /\ ~BadCountP(P) /\ ~OutOfRangeP(P)
  /\ \A i \in 3 .. Len(P) : NoLeadZero(P[i])

Canonical(s) == CanonicalP(Split(s))

SidOfString(s) ==                       \* defined for Canonical(s)
  LET P == Split(s)
  IN [rev |-> P[2][1] - 48, auth |-> PartDigits(P[3]),
      subs |-> [i \in 1 .. Len(P) - 3 |-> PartDigits(P[i + 3])]]

RECURSIVE JoinDash(_)
JoinDash(ps) == IF Len(ps) = 1 THEN ps[1] ELSE ps[1] \o <<Dash>> \o JoinDash(Tail(ps))
DigitChars(ds) == [i \in 1 .. Len(ds) |-> 48 + ds[i]]
SidString(x) ==
  JoinDash(<<<<83>>, <<48 + x.rev>>, DigitChars(x.auth)>> \o [i \in 1 .. Len(x.subs) |-> DigitChars(x.subs[i])])

(* ---- near misses the statement names ------------------------------------------------ *)
(* Unicode 15 code points of category Nd with digit value 0 other than U+0030; each       *)
(* starts a run of ten digits.  Python's \d and int() accept all of them.                *)
NonAsciiZeros ==
  {1632, 1776, 1984, 2406, 2534, 2662, 2790, 2918, 3046, 3174, 3302, 3430, 3558, 3664, 3792,
   3872, 4160, 4240, 6112, 6160, 6470, 6608, 6784, 6800, 6992, 7088, 7232, 7248, 42528, 43216,
   43264, 43472, 43504, 43600, 44016, 65296, 66720, 68912, 69734, 69872, 69942, 70096, 70384,
   70736, 70864, 71248, 71360, 71472, 71904, 72016, 72784, 73040, 73120, 73552, 92768, 92864,
   93008, 120782, 120792, 120802, 120812, 120822, 123200, 123632, 124144, 125264, 130032}
IsNonAsciiDigit(c) == c > 127 /\ \E z \in NonAsciiZeros : c \in z .. z + 9
FoldDigit(c) == IF IsNonAsciiDigit(c) THEN 48 + (c - (CHOOSE z \in NonAsciiZeros : c \in z .. z + 9)) ELSE c

Whitespace == {9, 10, 11, 12, 13, 28, 29, 30, 31, 32, 133, 160, 5760, 8232, 8233, 8239, 8287, 12288}
              \cup (8192 .. 8202)
Plus == 43

(* remove whitespace and plus signs, fold non-ASCII decimal digits to ASCII               *)
Normalize(s) ==
  LET keep == SelectSeq(s, LAMBDA c : c \notin Whitespace /\ c # Plus)
  IN [i \in 1 .. Len(keep) |-> FoldDigit(keep[i])]

EmptyPartP(t, P) ==
  /\ \A i \in 1 .. Len(t) : t[i] \in {83, Dash} \cup (48 .. 57)
  /\ \E i \in 1 .. Len(P) : P[i] = <<>>

(* The statement's rejection clause, for exactly the classes it names: a string that is   *)
(* not a canonical SID but is one up to whitespace / signs / non-ASCII digits (this        *)
(* includes the trailing newline), or is SID-shaped with 0 or 16+ sub-authorities or an    *)
(* out-of-range number, or has an empty part.                                              *)
(* ... and, by the statement's general clause ("strings that are not a canonical in-range SID are rejected ... rather  *)
(* than silently altered"), a string that is not even SID syntax: not "S", dash, one ASCII digit, dash, then            *)
(* dash-separated runs of ASCII digits - e.g. a lower case "s", U+017F, a letter in or after a number, "0x5", a two     *)
(* digit revision, "S", "SY", "S-1".  A string that IS this syntax and differs from the canonical form only by leading   *)
(* zeros stays in neither set.                                                                                          *)
NotSidSyntax(s) == ~ShapedP(Split(s))

MustReject(s) ==
  LET P0 == Split(s)
  IN /\ ~CanonicalP(P0)
     /\ LET t == Normalize(s)
            P == Split(t)
        IN \/ CanonicalP(P)
           \/ ShapedP(P) /\ (BadCountP(P) \/ OutOfRangeP(P))
           \/ EmptyPartP(t, P)
           \/ NotSidSyntax(s)

Classify(s) == IF Canonical(s) THEN "canonical" ELSE IF MustReject(s) THEN "reject" ELSE "dontcare"
=============================================================================
