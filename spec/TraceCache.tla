----------------------------- MODULE TraceCache -----------------------------
(***************************************************************************)
(* Trace validation for C10: histories recorded from the real public API   *)
(* (sync and async, one shared KeyCache, reference DC behind the scripted  *)
(* transport) are folded through KeyCache.tla's own cache operators.       *)
(* Events (one JSON object each):                                          *)
(*   load  rk                      root key loaded into the cache          *)
(*   begin o kind rk sd l0 pos     API call started                        *)
(*   rpc   o rk sd l0 pos          GetKey decoded *at the DC* for call o   *)
(*   reply o k pos                 what the DC answered (rpc = seed keys)  *)
(*   end   o res [named ...]       API call returned / raised              *)
(* A clause of the property that fails is named; differences from the      *)
(* design model that the statement does not forbid are counted as drift.   *)
(***************************************************************************)
EXTENDS KeyCache, Json, IOUtils, FiniteSetsExt
T_Rks == {"rk1", "rk2"}
T_SDs == {"sdA", "sdB"}
T_L0s == {1, 2, 3}
T_Pos == {<<0, 0>>}
T_Ops == {"o1"}
T_Clock == <<[l0 |-> 2, pos |-> <<10, 0>>]>>
T_Kinds == {"rpc"}
T_Sync == {TRUE}
TInit == Init
TNext == UNCHANGED vars

NoOp == [kind |-> "-", rk |-> NoRk, sd |-> "-", l0 |-> -1, pos |-> NoPos, mustNot |-> FALSE, predict |-> FALSE,
         rpc |-> FALSE, reply |-> NoEntry, open |-> FALSE, at |-> <<-1, -1, -1>>]

State0(tr) == [loaded |-> {}, cache |-> [t \in Triples |-> NoEntry], obtained |-> [t \in Triples |-> NoPos],
               ops |-> [o \in {tr.events[i].o : i \in {j \in 1 .. Len(tr.events) : tr.events[j].ev = "begin"}} |-> NoOp],
               fails |-> {}, drift |-> 0, nowL0 |-> tr.nowl0, now |-> <<tr.now[1], tr.now[2]>>]

Fail(s, c) == [s EXCEPT !.fails = @ \cup {c}]
Pos(p) == <<p[1], p[2]>>

OnBegin(s, tr, e) ==
  LET named == e.kind = "unprotect" \/ e.rk # NoRk
      t == IF e.kind = "unprotect" THEN <<e.rk, e.sd, e.l0>> ELSE <<e.rk, e.sd, s.nowL0>>
      p == IF e.kind = "unprotect" THEN Pos(e.pos) ELSE s.now
      lk == IF named THEN LookupIn(s.cache, s.loaded, t, p) ELSE <<FALSE, NoEntry, s.cache>>
  IN [s EXCEPT !.cache = lk[3],
               !.ops[e.o] = [NoOp EXCEPT !.kind = e.kind, !.rk = e.rk, !.sd = e.sd, !.l0 = e.l0, !.pos = Pos(e.pos),
                                         !.mustNot = named /\ CoversIn(s.obtained, t, p),
                                         !.predict = ~lk[1], !.open = TRUE, !.at = <<s.nowL0, s.now[1], s.now[2]>>]]

OnRpc(s, e) ==
  LET op == s.ops[e.o]
      argsOK == IF op.kind = "unprotect"
                  THEN e.rk = op.rk /\ e.sd = op.sd /\ e.l0 = op.l0 /\ Pos(e.pos) = op.pos
                  ELSE e.rk = op.rk /\ e.sd = op.sd /\ e.l0 = -1 /\ Pos(e.pos) = NoPos
      s1 == IF op.mustNot THEN Fail(s, "contacts_dc_although_covering_material_was_obtained") ELSE s
      s2 == IF op.rpc THEN Fail(s1, "more_than_one_getkey_for_one_call") ELSE s1
      s3 == IF ~argsOK THEN Fail(s2, "getkey_arguments_differ_from_call") ELSE s2
      s4 == IF ~op.predict /\ ~op.mustNot THEN [s3 EXCEPT !.drift = @ + 1] ELSE s3
  IN [s4 EXCEPT !.ops[e.o].rpc = TRUE]

OnReply(s, tr, e) ==
  LET op == s.ops[e.o]
      rk == IF op.rk = NoRk THEN tr.defrk ELSE op.rk
      id == IF op.kind = "unprotect" THEN <<rk, op.sd, op.l0>> ELSE <<rk, op.sd, s.nowL0>>
  IN [s EXCEPT !.ops[e.o].reply = [pos |-> Pos(e.pos), src |-> e.k, id |-> id],
               !.ops[e.o].at = IF op.kind = "protect" THEN <<s.nowL0, s.now[1], s.now[2]>> ELSE @]

OnEnd(s, tr, e) ==
  LET op == s.ops[e.o]
      rep == op.reply
      stored == op.rpc /\ rep.src = "rpc"
      failed == op.rpc /\ rep.src = "err"
      cancelled == e.res = "cancelled"
      expectPlain == op.kind = "unprotect" /\ ~(op.rpc /\ rep.src = "pub") /\ ~failed /\ ~cancelled
      rk == IF op.rk = NoRk THEN tr.defrk ELSE op.rk
      s1 == IF e.res \in {"budget", "hang"} THEN Fail(s, "call_must_terminate") ELSE s
      s2 == IF expectPlain /\ e.res # "plain_ok" /\ e.res \notin {"budget", "hang"}
              THEN Fail(s1, "unprotect_result_differs_from_fresh_cache") ELSE s1
      s3 == IF op.kind = "unprotect" /\ ~expectPlain /\ e.res \in {"plain_ok", "plain_wrong"}
              THEN Fail(s2, "MACHINERY_plaintext_from_public_key_reply") ELSE s2
      s4 == IF op.kind = "protect" /\ ~failed /\ ~cancelled /\ e.res # "blob_ok" /\ e.res \notin {"budget", "hang"}
              THEN Fail(s3, "protect_blob_does_not_decrypt_with_fresh_cache") ELSE s3
      s5 == IF op.kind = "protect" /\ e.res = "blob_ok" /\
               (e.named # <<rk, op.sd, op.at[1], op.at[2], op.at[3]>>)
              THEN Fail(s4, "protect_names_wrong_key") ELSE s4
      s6 == IF op.predict /\ ~op.rpc /\ e.res \in {"plain_ok", "blob_ok"} THEN [s5 EXCEPT !.drift = @ + 1] ELSE s5
      (* extended behaviour: a GetKey failure surfaces as an error of the call *)
      s7 == IF failed /\ e.res \in {"plain_ok", "plain_wrong", "blob_ok", "blob_bad"} THEN Fail(s6, "EXT_getkey_failure_must_fail_the_call") ELSE s6
  IN [s7 EXCEPT !.cache = IF stored /\ ~cancelled THEN StoreIn(@, rep) ELSE @,
                !.obtained = IF stored /\ ~cancelled THEN ObtainIn(@, rep) ELSE @,
                !.ops[e.o].open = FALSE]

Step(s, tr, e) ==
  CASE e.ev = "load"  -> [s EXCEPT !.loaded = @ \cup {e.rk}]
    [] e.ev = "tick"  -> [s EXCEPT !.nowL0 = e.l0, !.now = Pos(e.pos)]
    [] e.ev = "begin" -> OnBegin(s, tr, e)
    [] e.ev = "rpc"   -> OnRpc(s, e)
    [] e.ev = "reply" -> OnReply(s, tr, e)
    [] e.ev = "end"   -> OnEnd(s, tr, e)

RECURSIVE Run(_, _, _)
Run(s, tr, i) == IF i > Len(tr.events) THEN s ELSE Run(Step(s, tr, tr.events[i]), tr, i + 1)

Final(tr) ==
  LET f == Run(State0(tr), tr, 1)
  IN IF \E o \in DOMAIN f.ops : f.ops[o].open THEN Fail(f, "call_must_terminate") ELSE f

Result ==
  LET L == ndJsonDeserialize(IOEnv.TRACE_FILE)
      N == Len(L)
      F == [i \in 1 .. N |-> Final(L[i])]
  IN <<"RESULT", [n |-> N, drift |-> FoldFunction(LAMBDA x, acc : acc + x.drift, 0, F),
                  events |-> FoldFunction(LAMBDA x, acc : acc + Len(x.events), 0, L)],
       {<<L[i].id, F[i].fails>> : i \in {j \in 1 .. N : F[j].fails # {}}}>>
ASSUME PrintT(Result)
=============================================================================
