CONSTANT UseDns = TRUE
CONSTANT Legs = 1
INIT TInit
NEXT TNext
