\* Template: the driver instantiates Part = 0 (small integers), 1 (tags, lengths, OIDs,
\* strings, trees) and 2 .. Parts+1 (big-integer family) as parallel TLC runs.
CONSTANTS
  MaxPow = 4096
  Part = 1
  Parts = 8
INIT Init
NEXT Next
INVARIANTS
  WellFormed
  RoundTrip
  ExactConsumption
  Minimal
  PrefixRejected
