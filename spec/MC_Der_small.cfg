CONSTANTS
  MaxPow = 64
  Part = 0
  Parts = 1
INIT Init
NEXT Next
INVARIANTS
  WellFormed
  RoundTrip
  ExactConsumption
  Minimal
  PrefixRejected
