SPECIFICATION Spec
INVARIANT OutcomeClosed
INVARIANT BoundedKdf
INVARIANT OneDefectEnds
INVARIANT ReturnOnlyIfClean
PROPERTY Terminates
CONSTRAINT KdfView
CHECK_DEADLOCK FALSE
