---------------------------- MODULE TraceFraming ----------------------------
(* Replay results for C13: one line per real request() / reply decode.  The  *)
(* expected numbers come from RpcFraming!Layout / Regions evaluated on the   *)
(* line's configuration; the observed ones were measured on the wire by the  *)
(* scripted server (its own codec) and at the security-context boundary.     *)
EXTENDS RpcFraming, Json, IOUtils, FiniteSetsExt
T_Vt == {0}
T_Sig == {16}
TInit == cfg = [kind |-> "reply", stub |-> 0, pad |-> 0]
TNext == UNCHANGED cfg

ReqFails(ln) ==
  LET lay == Layout(ln.stub, ln.vt, ln.sig, TRUE)
      reg == Regions(lay, ln.sign)
      o == ln.obs
  IN (IF o.fragLen # o.actualLen THEN {"frag_len_equals_pdu_size"} ELSE {})
     \cup (IF o.wrapCalls # 1 THEN {"exactly_stub_plus_padding_region_is_sealed"} ELSE {})   \* sent without / with more than one pass through the security context
     \cup (IF o.authLen # ln.sig THEN {"auth_len_equals_signature_size"} ELSE {})
     \cup (IF o.actualLen # lay.fragLen THEN {"pdu_size_as_specified"} ELSE {})
     \cup (IF ln.vt > 0 /\ o.vtAt # lay.vtOff THEN {"verification_trailer_at_next_4_byte_boundary"} ELSE {})
     \cup (IF o.trailerOff # lay.trailerOff \/ (o.trailerOff - StubStart) % 16 # 0 THEN {"security_trailer_16_byte_aligned_from_stub"} ELSE {})
     \cup (IF o.padField # lay.padLength THEN {"pad_length_equals_padding_added"} ELSE {})
     \cup (IF ~o.sealedOK \/ ~o.bodyEq \/ o.wrapLens[2] # lay.sealedLen THEN {"exactly_stub_plus_padding_region_is_sealed"} ELSE {})
     \cup (IF ~o.hdrEq \/ ~o.trEq \/ o.wrapLens[1] # StubStart \/ o.wrapLens[3] # TrailerHdr THEN {"header_and_trailer_go_out_in_clear"} ELSE {})
     \cup (IF o.wrapModes # <<reg.clearMode, "data", reg.clearMode, "header">> THEN {"clear_parts_signed_iff_header_signing"} ELSE {})
     \cup (IF (o.usedSign = "true") # ln.sign THEN {"clear_parts_signed_iff_header_signing"} ELSE {})
     \cup (IF ~o.stubEq THEN {"receiver_recovers_the_stub"} ELSE {})
     \cup (IF ~o.padsZero THEN {"MACHINERY_padding_not_zero"} ELSE {})

ReplyFails(ln) ==
  (IF ln.res # "ok" THEN {"declared_auth_padding_stripped_before_decode"} ELSE {})

(* the peer received a request PDU whose frag_len field announces another number of octets than were sent *)
PartialFails(ln) ==
  {"frag_len_equals_pdu_size"} \cup (IF ln.obs.authLen # ln.sig THEN {"auth_len_equals_signature_size"} ELSE {})

Fails(ln) == IF ln.kind = "request" THEN ReqFails(ln) ELSE IF ln.kind = "request_partial" THEN PartialFails(ln) ELSE ReplyFails(ln)
Result ==
  LET L == ndJsonDeserialize(IOEnv.TRACE_FILE)
      N == Len(L)
      F == [i \in 1 .. N |-> Fails(L[i])]
  IN <<"RESULT", [n |-> N], {<<L[i].id, F[i]>> : i \in {j \in 1 .. N : F[j] # {}}}>>
ASSUME PrintT(Result)
=============================================================================
