---------------------------- MODULE TraceRpcPdu ----------------------------
(***************************************************************************)
(* Case traces for C12.  Every line is an independent obligation.          *)
(*                                                                         *)
(* t = "enc"     one real X.pack() of a generated well-formed message:     *)
(*               k codec, f field values, b = X.pack(), and the outcome of *)
(*               X.unpack(b): dec, b2 = X.unpack(b).pack(), f2 = fields of *)
(*               X.unpack(b).                                              *)
(* t = "specdec" the library's decoder on the *spec's* encoding of f       *)
(*               (only produced for messages whose pack() differs from the *)
(*               layout): b must be Enc(f).                                *)
(* t = "capdec"  a captured PDU of the repository's tests decoded by the   *)
(*               library (f2) against the spec's decoder.                  *)
(* t = "calib"   a captured PDU and the field values the tests state for   *)
(*               it: must equal the spec encoding (machinery otherwise).   *)
(* t = "term"    one run of a real decoder on an arbitrary byte string     *)
(*               under the step meter: len, steps, out.                    *)
(***************************************************************************)
EXTENDS Epm, TLC, Json, IOUtils, FiniteSets
VARIABLE dummy
TInit == dummy = 0
TNext == UNCHANGED dummy

EncOf(k, f) ==
  CASE k = "pdu" -> EncPdu(f) [] k = "hdr" -> EncHeader(f) [] k = "sec" -> EncSec(f) [] k = "syn" -> EncSyn(f) [] k = "cmd" -> EncCmd(f)
    [] k = "vt" -> EncVt(f.cmds) [] k = "floor" -> EncFloor(f) [] k = "eptmap" -> EncEptMap(f)
    [] k = "eptres" -> EptMapResultBytes(f)
WellFormedOf(k, f) ==
  CASE k = "pdu" -> WellFormedPdu(f) [] k = "hdr" -> WellFormedHeader(f) [] k = "vt" -> WellFormedVt(f.cmds) [] k = "cmd" -> WellFormedVt(<<[f EXCEPT !.flags = 16384]>>)
    [] k = "eptmap" -> WellFormedEptMap(f) [] k = "eptres" -> WellFormedEptMapResult(f) [] OTHER -> TRUE
(* spec decoder, uniformly: [ok, v] *)
DecOf(k, b) ==
  CASE k = "pdu" -> LET d == DecPdu(b) IN [ok |-> d.kind # "error", v |-> d]
    [] k = "hdr" -> IF Len(b) = 16 THEN [ok |-> TRUE, v |-> DecHeader(b)] ELSE [ok |-> FALSE]
    [] k = "sec" -> DecSec(b)
    [] k = "syn" -> IF Len(b) = 20 THEN [ok |-> TRUE, v |-> DecSyn(b, 0)] ELSE [ok |-> FALSE]
    [] k = "cmd" -> LET d == DecCmd(b, 0) IN IF d.ok /\ d.size = Len(b) THEN [ok |-> TRUE, v |-> d.v] ELSE [ok |-> FALSE]
    [] k = "vt" -> LET d == DecVt(b) IN IF d.ok /\ d.end = Len(b) THEN [ok |-> TRUE, v |-> [cmds |-> d.cmds]] ELSE [ok |-> FALSE]
    [] k = "floor" -> LET d == DecFloor(b) IN IF d.ok /\ d.size = Len(b) THEN [ok |-> TRUE, v |-> d.v] ELSE [ok |-> FALSE]
    [] k = "eptmap" -> DecEptMap(b)
    [] k = "eptres" -> LET d == DecEptMapResult(b) IN IF d.ok THEN [ok |-> TRUE, v |-> d.v] ELSE [ok |-> FALSE]

(* frag_length of a generated PDU is taken from the real pack(); the well-formed message the spec talks  *)
(* about has the frag_length of the layout.  If they differ the real encoding differs from the layout.  *)
Norm(k, f) == IF k = "pdu" THEN [f EXCEPT !.hdr.frag_len = Len(EncPdu(f))] ELSE f

InverseClauses(ln) ==        \* the statement's clauses about X.unpack(b)
  (IF ln.dec # "ok" THEN {"decoding_encoded_message_fails"} ELSE {})
  \cup (IF ln.dec = "ok" /\ ln.b2 # ln.b THEN {"reencoding_decoded_message_changes_bytes"} ELSE {})
  \cup (IF ln.dec = "ok" /\ ln.f2 # ln.f THEN {"decoding_changes_field_values"} ELSE {})

Fails(ln) ==
  CASE ln.t = "enc" ->
         (IF ~WellFormedOf(ln.k, Norm(ln.k, ln.f)) THEN {"MACHINERY_generated_message_not_well_formed"} ELSE {})
         \cup (IF EncOf(ln.k, Norm(ln.k, ln.f)) # ln.b THEN {"DRIFT_encoding_differs_from_layout"} ELSE {})
         \cup InverseClauses(ln)
    [] ln.t = "specdec" ->
         (IF EncOf(ln.k, ln.f) # ln.b THEN {"MACHINERY_not_the_spec_encoding"} ELSE {}) \cup InverseClauses(ln)
    [] ln.t = "capdec" ->
         LET d == DecOf(ln.k, ln.b)
         IN IF ~d.ok THEN {"NOTE_spec_decoder_rejects_captured_bytes"}       \* e.g. a literal shorter than its frag_length
            ELSE IF EncOf(ln.k, d.v) # ln.b THEN {"MACHINERY_spec_does_not_reproduce_captured_bytes"}
            ELSE (IF ln.dec # "ok" THEN {"decoding_captured_message_fails"} ELSE {})
                 \cup (IF ln.dec = "ok" /\ ln.f2 # d.v THEN {"decoding_captured_message_changes_field_values"} ELSE {})
    [] ln.t = "calib" ->
         IF EncOf(ln.k, ln.f) # ln.b THEN {"MACHINERY_calibration_captured_pdu_differs_from_spec"} ELSE {}
    [] ln.t = "term" ->
         (IF ln.out = "budget" \/ ln.steps > WorkBound(ln.len) THEN {"decoder_does_not_terminate_in_linear_work"} ELSE {})
         \cup (IF ln.out \notin {"ok", "error", "budget"} \/ ln.len > 65535 THEN {"MACHINERY_bad_term_row"} ELSE {})

Result ==
  LET L == ndJsonDeserialize(IOEnv.TRACE_FILE)
      N == Len(L)
      F == [i \in 1 .. N |-> Fails(L[i])]
  IN <<"RESULT",
       [n |-> N,
        spec |-> {<<L[i].id, EncOf(L[i].k, Norm(L[i].k, L[i].f))>> : i \in {j \in 1 .. N : "DRIFT_encoding_differs_from_layout" \in F[j]}}],
       {<<L[i].id, F[i]>> : i \in {j \in 1 .. N : F[j] # {}}}>>
ASSUME PrintT(Result)
=============================================================================
