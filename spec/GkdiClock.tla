----------------------------- MODULE GkdiClock -----------------------------
(***************************************************************************)
(* "Encryption names the group key of the interval containing the current  *)
(* time" as a small clock model.  Time is an integer number of ticks; one  *)
(* L2 interval lasts Base ticks (3.6*10^11 in MS-GKDI, scaled here), Fan   *)
(* L2 intervals make an L1 interval, Fan L1 intervals an L0 interval.      *)
(* The clock may tick or jump; Protect names an interval from `now`.       *)
(***************************************************************************)
EXTENDS Integers
CONSTANTS Fan, Base, MaxT
VARIABLES now, named
vars == <<now, named>>
NoName == [t |-> -1, l0 |-> -1, l1 |-> -1, l2 |-> -1]

(* the formula of MS-GKDI 3.1.4.1 / the property statement                  *)
Name(t) ==
  [t |-> t, l0 |-> t \div (Fan * Fan * Base), l1 |-> (t \div (Fan * Base)) % Fan, l2 |-> (t \div Base) % Fan]

(* the property as a definition: [Start, Start + Base) contains t            *)
Start(n) == ((n.l0 * Fan + n.l1) * Fan + n.l2) * Base
Contains(n) == /\ n.l1 \in 0 .. Fan - 1 /\ n.l2 \in 0 .. Fan - 1 /\ n.l0 >= 0
               /\ Start(n) <= n.t /\ n.t < Start(n) + Base

Init == now \in 0 .. MaxT /\ named = NoName
Tick == now < MaxT /\ now' = now + 1 /\ UNCHANGED named
Jump == \E t \in 0 .. MaxT : now' = t /\ UNCHANGED named
Protect == named' = Name(now) /\ UNCHANGED now
Next == Tick \/ Jump \/ Protect
Spec == Init /\ [][Next]_vars

NamesContainingInterval == named # NoName => Contains(named)
NeverFutureNeverPast ==
  [][named' # named => (Start(named') <= now /\ now < Start(named') + Base)]_vars
(* the interval index is monotone in time                                    *)
Monotone == \A s, t \in 0 .. MaxT : s <= t => Start(Name(s)) <= Start(Name(t))
=============================================================================
