CONSTANT Groups <- MC_Groups
INIT Init
NEXT Next
INVARIANT BothSidesAgree
INVARIANT WidthExact
CHECK_DEADLOCK FALSE
