CONSTANT Fan = 32
CONSTANT Plaintexts <- MC_Pts2
CONSTANT SidClasses <- MC_Sid1
CONSTANT Instants <- MC_Instant1
CONSTANT MaxProtects = 1
CONSTANT MaxTampers = 2
INIT Init
NEXT Next
CONSTRAINT OneConfigPerLayout
INVARIANT NoForgery
INVARIANT RoundTrip
CHECK_DEADLOCK FALSE
