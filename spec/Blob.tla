-------------------------------- MODULE Blob --------------------------------
(***************************************************************************)
(* The protect / unprotect pipeline of DPAPI-NG with symbolic cryptography.*)
(*                                                                         *)
(*  Protect(cfg, pt)  names the key interval of `now`, draws a fresh CEK,  *)
(*     GCM nonce and key-identifier randomness (nonce, or ephemeral key in *)
(*     public-key mode), and emits a blob record                           *)
(*  Tamper(f, k)      an adversary changes one field class of the last     *)
(*     blob in one of several ways                                         *)
(*  Unprotect         runs the parse / key / unwrap / open stages on the   *)
(*     (possibly tampered) blob with offline key material                  *)
(*                                                                         *)
(* AES key wrap and AES-GCM are authentic-or-fail: Unwrap(k', AesKw(k,c))  *)
(* = c iff k' = k and the wrapped bytes are intact; likewise Open.  The    *)
(* KEK on both sides is the Kek.tla term, keyed by the key position named  *)
(* in the blob and by the security descriptor made from its SID.           *)
(***************************************************************************)
EXTENDS Kek, GkdiGraph

CONSTANTS Plaintexts,     \* abstract plaintext classes
          SidClasses,     \* abstract SID shapes
          Instants,       \* clock values as limbs <<hi, mid, lo>>
          MaxProtects,    \* history bound for freshness
          MaxTampers      \* tamper depth

Layouts == {"in_envelope", "trailing"}
Flavours == {"sync", "async"}
Configs == [hash : Hashes, mode : Modes, layout : Layouts, flavour : Flavours, pt : Plaintexts, sid : SidClasses, t : Instants]

(* field classes of a blob and what a change to them can influence                 *)
FieldEffect ==
  [der_structure |-> "structure", kid_position |-> "key", kid_root_key |-> "key", kid_flags |-> "key", kid_key_info |-> "key",
   kid_names |-> "none", kid_version |-> "none", sid_text |-> "key", wrapped_cek |-> "integrity", alg_oid |-> "structure",
   gcm_nonce |-> "integrity", icv_len |-> "none", ciphertext |-> "integrity", tag |-> "integrity", trailing_bytes |-> "layout"]
Fields == DOMAIN FieldEffect
TamperKinds == {"flip", "substitute", "insert", "delete", "truncate"}

VARIABLES blobs,     \* sequence of blob records emitted so far
          draws,     \* number of fresh values drawn so far (fresh value = its index)
          tampers,   \* sequence of <<field, kind>> applied to the last blob
          result,    \* outcome of the last Unprotect
          hist       \* observation: operations performed
vars == <<blobs, draws, tampers, result, hist>>

NoResult == <<"none">>
Init == blobs = <<>> /\ draws = 0 /\ tampers = <<>> /\ result = NoResult /\ hist = <<>>

(* the key both sides derive: position named from the clock, SD from the SID, mode per configuration *)
KeyFor(c, pos, keyinfo) == <<"KEK", c.hash, c.mode, pos, c.sid, keyinfo>>

Protect(c) ==
  /\ Len(blobs) < MaxProtects
  /\ LET pos == IntervalOf(c.t)
         cek == draws + 1
         nonce == draws + 2
         keyinfo == draws + 3
         b == [cfg |-> c, pos |-> pos, keyinfo |-> keyinfo, cek |-> cek, nonce |-> nonce,
               wrapped |-> <<"AesKw", KeyFor(c, pos, keyinfo), cek>>,
               ct |-> <<"Gcm", cek, nonce, c.pt>>]
     IN /\ blobs' = Append(blobs, b)
        /\ draws' = draws + 3
        /\ hist' = Append(hist, <<"protect", c>>)
  /\ tampers' = <<>> /\ result' = NoResult

Tamper(f, k) ==
  /\ blobs # <<>> /\ Len(tampers) < MaxTampers /\ result = NoResult
  /\ tampers' = Append(tampers, <<f, k>>)
  /\ hist' = Append(hist, <<"tamper", f, k>>)
  /\ UNCHANGED <<blobs, draws, result>>

Effects(b) ==
  {(IF FieldEffect[tampers[i][1]] = "layout"
      THEN (IF b.cfg.layout = "trailing" THEN "integrity" ELSE "none")
      ELSE IF tampers[i][2] = "truncate" /\ tampers[i][1] # "trailing_bytes" THEN "structure"
      ELSE FieldEffect[tampers[i][1]]) : i \in 1 .. Len(tampers)}

(* offline unprotect with the right root key loaded                                   *)
Outcome(b) ==
  LET e == Effects(b)
  IN IF "structure" \in e THEN {<<"error">>}
     ELSE IF "key" \in e THEN {<<"error">>, <<"needs_network">>}      \* another key: unwrap fails, or the key is not in the cache
     ELSE IF "integrity" \in e THEN {<<"error">>}
     ELSE {<<"plain", b.cfg.pt>>}

Unprotect ==
  /\ blobs # <<>> /\ result = NoResult
  /\ result' \in Outcome(blobs[Len(blobs)])
  /\ hist' = Append(hist, <<"unprotect">>)
  /\ UNCHANGED <<blobs, draws, tampers>>

Next == \/ \E c \in Configs : Protect(c)
        \/ \E f \in Fields, k \in TamperKinds : Tamper(f, k)
        \/ Unprotect
Spec == Init /\ [][Next]_vars

(* ---- properties ------------------------------------------------------------------ *)
Last == blobs[Len(blobs)]
(* C01: without tampering, unprotect returns exactly the plaintext                     *)
RoundTrip == (result # NoResult /\ tampers = <<>>) => result = <<"plain", Last.cfg.pt>>
(* the blob names the interval containing the protect-time clock (C09 on limbs)        *)
NamesInterval == \A i \in 1 .. Len(blobs) : Contains(blobs[i].pos.l0, blobs[i].pos.l1, blobs[i].pos.l2, blobs[i].cfg.t)
(* C04: a modified blob never decrypts to different plaintext                          *)
NoForgery == result # NoResult => result \in {<<"error">>, <<"needs_network">>, <<"plain", Last.cfg.pt>>}
(* C19: CEKs, GCM nonces and key-identifier randomness pairwise distinct; no (CEK, nonce) pair twice; *)
(* equal plaintexts give different ciphertexts                                          *)
NoReuse ==
  \A i, j \in 1 .. Len(blobs) : i # j =>
     /\ blobs[i].cek # blobs[j].cek /\ blobs[i].nonce # blobs[j].nonce /\ blobs[i].keyinfo # blobs[j].keyinfo
     /\ <<blobs[i].cek, blobs[i].nonce>> # <<blobs[j].cek, blobs[j].nonce>>
     /\ blobs[i].ct # blobs[j].ct
DrawsDuringCall == draws = 3 * Len(blobs)
=============================================================================
