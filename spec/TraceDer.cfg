INIT TInit
NEXT TNext
