------------------------------- MODULE RpcSeal -------------------------------
(***************************************************************************)
(* Sealed request/response exchange on an authenticated connection against *)
(* a network adversary who does not hold the session key (Dolev-Yao style: *)
(* the security context is authentic-or-fail).                             *)
(*                                                                         *)
(* For each call the server seals a reply with its send sequence number;   *)
(* the adversary delivers it unchanged, alters a part, strips the security *)
(* trailer, replays an earlier reply or injects a reply of its own; the    *)
(* client either returns a stub to its caller or raises an error.          *)
(***************************************************************************)
EXTENDS Integers, Sequences, FiniteSets, TLC

CONSTANTS Calls            \* number of consecutive calls on the connection
VARIABLES signHeader,      \* header signing negotiated at bind time
          call,            \* current call number (1..Calls), Calls+1 when finished
          phase,           \* "sealed" | "inflight" | "decided"
          sendSeq, recvSeq,\* server send / client receive sequence numbers
          net,             \* the reply in flight
          seen,            \* replies the adversary has recorded
          returned,        \* call |-> what the client's request() returned ("error" or a stub id)
          action           \* the adversary's last action (observation)
vars == <<signHeader, call, phase, sendSeq, recvSeq, net, seen, returned, action>>

Stub(c) == <<"stub", c>>
Evil == <<"evil">>
NoMsg == [body |-> <<"none">>, trailer |-> FALSE, sealedBy |-> "nobody", seq |-> -1,
          bodyOK |-> TRUE, sigOK |-> TRUE, hdrOK |-> TRUE, trOK |-> TRUE]

Init == /\ signHeader \in BOOLEAN /\ call = 1 /\ phase = "sealed" /\ sendSeq = 0 /\ recvSeq = 0
        /\ net = [NoMsg EXCEPT !.body = Stub(1), !.trailer = TRUE, !.sealedBy = "server", !.seq = 0]
        /\ seen = {} /\ returned = <<>> /\ action = "none"

(* what the security context accepts: sealed by the key holder, for this sequence   *)
(* number, with every protected part intact                                         *)
Verifies(m) ==
  /\ m.trailer /\ m.sealedBy = "server" /\ m.seq = recvSeq
  /\ m.bodyOK /\ m.sigOK
  /\ signHeader => (m.hdrOK /\ m.trOK)

(* the intended client: no trailer on an authenticated connection = error            *)
Decide(m) == IF Verifies(m) THEN m.body ELSE <<"error">>

Adversary ==
  /\ phase = "sealed"
  /\ \E a \in {"pass", "strip", "flip_body", "flip_sig", "flip_hdr", "flip_trailer", "replay", "inject_clear", "inject_bogus_trailer"} :
       /\ action' = a
       /\ CASE a = "pass" -> net' = net
            [] a = "strip" -> net' = [net EXCEPT !.trailer = FALSE]
            [] a = "flip_body" -> net' = [net EXCEPT !.bodyOK = FALSE]
            [] a = "flip_sig" -> net' = [net EXCEPT !.sigOK = FALSE]
            [] a = "flip_hdr" -> net' = [net EXCEPT !.hdrOK = FALSE]
            [] a = "flip_trailer" -> net' = [net EXCEPT !.trOK = FALSE]
            [] a = "replay" -> /\ seen # {} /\ net' \in seen
            [] a = "inject_clear" -> net' = [NoMsg EXCEPT !.body = Evil, !.sealedBy = "adversary"]
            [] a = "inject_bogus_trailer" -> net' = [NoMsg EXCEPT !.body = Evil, !.sealedBy = "adversary", !.trailer = TRUE]
  /\ seen' = seen \cup {net}
  /\ phase' = "inflight"
  /\ UNCHANGED <<signHeader, call, sendSeq, recvSeq, returned>>

ClientReceives ==
  /\ phase = "inflight"
  /\ returned' = Append(returned, Decide(net))
  /\ recvSeq' = IF net.trailer THEN recvSeq + 1 ELSE recvSeq   \* the context consumes a sequence number per unwrap attempt
  /\ phase' = "decided"
  /\ UNCHANGED <<signHeader, call, sendSeq, net, seen, action>>

NextCall ==
  /\ phase = "decided" /\ call < Calls /\ returned[call] # <<"error">>
  /\ call' = call + 1 /\ sendSeq' = sendSeq + 1
  /\ net' = [NoMsg EXCEPT !.body = Stub(call + 1), !.trailer = TRUE, !.sealedBy = "server", !.seq = sendSeq + 1]
  /\ phase' = "sealed"
  /\ UNCHANGED <<signHeader, recvSeq, seen, returned, action>>

Next == Adversary \/ ClientReceives \/ NextCall
Spec == Init /\ [][Next]_vars

(* ---- properties --------------------------------------------------------------------- *)
OnlySealedAccepted ==
  \A c \in 1 .. Len(returned) : returned[c] # <<"error">> => returned[c] = Stub(c)
NoTrailerRejected ==
  (phase = "decided" /\ ~net.trailer) => returned[Len(returned)] = <<"error">>
AlteredRejected ==
  (phase = "decided" /\ (~net.bodyOK \/ ~net.sigOK \/ (signHeader /\ (~net.hdrOK \/ ~net.trOK))))
     => returned[Len(returned)] = <<"error">>
AuthenticAccepted ==
  (phase = "decided" /\ action = "pass") => returned[Len(returned)] = Stub(call)
Emit == phase = "decided" => PrintT(<<"CASE", signHeader, call, action, returned[Len(returned)]>>)
=============================================================================
