------------------------------ MODULE MC_Gkdi ------------------------------
EXTENDS Gkdi
OutOfRange == {<<-1, 0>>, <<0, -1>>, <<Fan, 0>>, <<0, Fan>>, <<Fan, Fan>>, <<Fan + 8, 3>>}
MC_EnvEdge == {0, 1, Fan \div 2, Top} \X {0, 1, Top - 1, Top}
MC_EnvAll  == Idx \X Idx
MC_ReqAll  == (Idx \X Idx) \cup OutOfRange
MC_L0Offsets == {-1, 0, 1}
=============================================================================
