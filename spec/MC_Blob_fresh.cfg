CONSTANT Fan = 32
CONSTANT Plaintexts <- MC_Pts2
CONSTANT SidClasses <- MC_Sid1
CONSTANT Instants <- MC_Instant1
CONSTANT MaxProtects = 5
CONSTANT MaxTampers = 0
INIT Init
NEXT Next
CONSTRAINT FreshConfigs
INVARIANT NoReuse
INVARIANT DrawsDuringCall
INVARIANT RoundTrip
CHECK_DEADLOCK FALSE
