---- MODULE MC_RpcFraming ----
EXTENDS RpcFraming, Json
MC_Vt == {0, 52}
MC_Sig == {16, 28, 60, 76}
====
