--------------------------------- MODULE Kek ---------------------------------
(***************************************************************************)
(* Key-encryption-key construction of DPAPI-NG on both sides, as symbolic  *)
(* terms over uninterpreted primitives (SP800-108 counter-mode KDF,        *)
(* SP800-56A concatenation KDF, modular exponentiation, EC scalar          *)
(* multiplication).  Terms are tuples whose head names the constructor;    *)
(* harness/evaluator.py interprets exactly these constructors in bytes.    *)
(*                                                                         *)
(*   nonce mode       KEK = Kdf108(h, L2, "KDS service", nonce, 32)        *)
(*   public-key mode  priv   = Kdf108(h, L2, "KDS service", Utf16z(alg),   *)
(*                                    ceil(privLenBits / 8))               *)
(*                    Z      = FixedWidth(pub ^ priv mod p, keyLen)  (DH)  *)
(*                           = x-coordinate of priv * Q, curve size (ECDH) *)
(*                    secret = ConcatKdf(curve hash | SHA256, Z,           *)
(*                               "SHA512" || "KDS public key" || "KDS service") *)
(*                    KEK    = Kdf108(h, secret, "KDS service",            *)
(*                                    "KDS public key", 32)                *)
(* Small DH groups are computed concretely by TLC so that leading-zero     *)
(* public values and shared secrets are explicit states.                   *)
(***************************************************************************)
EXTENDS Integers, Sequences, FiniteSets, TLC

Hashes == {"SHA1", "SHA256", "SHA384", "SHA512"}
Modes == {"nonce", "DH", "ECDH_P256", "ECDH_P384"}

Str(s) == <<"Str", s>>                  \* NUL-terminated UTF-16LE string literal
Kdf108(h, key, label, ctx, len) == <<"Kdf108", <<"Lit", h>>, key, label, ctx, len>>
ConcatKdf(h, z, other, len) == <<"ConcatKdf", <<"Lit", h>>, z, other, len>>
Concat(a, b, c) == <<"Concat", a, b, c>>
Label == Str("KDS service")
PubLabel == Str("KDS public key")
OtherInfo == Concat(Str("SHA512"), PubLabel, Label)

SecretHash(mode) == CASE mode = "DH" -> "SHA256" [] mode = "ECDH_P256" -> "SHA256" [] mode = "ECDH_P384" -> "SHA384"
HashLen(h) == CASE h = "SHA1" -> 20 [] h = "SHA256" -> 32 [] h = "SHA384" -> 48 [] h = "SHA512" -> 64
Ceil8(n) == (n + 7) \div 8

NonceKek(h) == Kdf108(h, "L2", Label, "nonce", 32)
PrivTerm(h, mode, privLenBits) == Kdf108(h, "L2", Label, Str(mode), Ceil8(privLenBits))

(* shared secrets in a normal form that makes Diffie-Hellman commutation syntactic:      *)
(* the set of the two private exponents / scalars                                        *)
Shared(mode, a, b) == <<"Shared", mode, {a, b}>>
KekFromShared(h, mode, z) ==
  Kdf108(h, ConcatKdf(SecretHash(mode), z, OtherInfo, HashLen(SecretHash(mode))), Label, PubLabel, 32)

(* encrypting side: ephemeral private "e", peer public value made from the seed-derived private *)
EncKek(h, mode, privLenBits) ==
  IF mode = "nonce" THEN NonceKek(h) ELSE KekFromShared(h, mode, Shared(mode, <<"Eph">>, PrivTerm(h, mode, privLenBits)))
(* decrypting side: private re-derived from the L2 seed key, peer public value = key_info      *)
DecKek(h, mode, privLenBits) ==
  IF mode = "nonce" THEN NonceKek(h) ELSE KekFromShared(h, mode, Shared(mode, PrivTerm(h, mode, privLenBits), <<"Eph">>))

(* the decrypting-side term with the shared secret spelled out for the evaluator               *)
DecKekConcrete(h, mode, privLenBits) ==
  IF mode = "nonce" THEN NonceKek(h)
  ELSE LET priv == PrivTerm(h, mode, privLenBits)
           z == IF mode = "DH" THEN <<"FixedWidth", <<"DhPow", "peer_y", priv, "p">>, "key_len">>
                ELSE <<"FixedWidth", <<"EcMulX", <<"Lit", IF mode = "ECDH_P256" THEN "P256" ELSE "P384">>, priv, "peer_point">>, "key_len">>
       IN KekFromShared(h, mode, z)

(* ---- concrete small groups --------------------------------------------------------------- *)
RECURSIVE PowMod(_, _, _)
PowMod(b, e, m) == IF e = 0 THEN 1 % m ELSE LET hlf == PowMod(b, e \div 2, m) sq == (hlf * hlf) % m IN IF e % 2 = 1 THEN (sq * b) % m ELSE sq

(* big-endian bytes of x in exactly n octets (leading zeros kept)                               *)
FixedWidth(x, n) == [i \in 1 .. n |-> (x \div (256 ^ (n - i))) % 256]
LeadingZeros(bs) == IF \A i \in 1 .. Len(bs) : bs[i] = 0 THEN Len(bs)
                    ELSE (CHOOSE k \in 0 .. Len(bs) - 1 : bs[k + 1] # 0 /\ \A i \in 1 .. k : bs[i] = 0)
=============================================================================
