---------------------------- MODULE TraceSecDesc ----------------------------
(* Case traces for C08.  Every line is one SID string (code points) given to the  *)
(* real dpapi_ng._security_descriptor.sid_to_bytes (o1, sid) and to               *)
(* ProtectionDescriptor.parse(s).get_target_sd() (o2, sd).  TLC classifies the    *)
(* string with the grammar of SecDesc.tla and decides:                            *)
(*   canonical  -> both calls succeed and the bytes equal SidBytes / TargetSd;    *)
(*                 on a difference the independent reader names what is wrong;    *)
(*   reject     -> both calls raise ValueError (o = "ValueError"); acceptance     *)
(*                 (o = "ok") and any other exception type (o = type name) fail;  *)
(*   dontcare   -> nothing is demanded (counted as drift when accepted).          *)
(* `want` is the class the generator intended: a mismatch with the spec's class   *)
(* is a machinery failure (the generator does not produce what it claims).        *)
(* kind = "calib": an SD made by Windows; it must equal TargetSd of the SID found *)
(* in its first ACE by the independent reader.                                    *)
EXTENDS SecDesc, TLC, Json, IOUtils, FiniteSetsExt
VARIABLE dummy
TInit == dummy = 0
TNext == UNCHANGED dummy

SidDefects(b, x) ==
  LET r == SidAt(b, 0)
  IN IF ~r.ok THEN {"sid_unreadable"}
     ELSE (IF r.len # Len(b) \/ Len(b) # 8 + 4 * Len(x.subs) THEN {"sid_length"} ELSE {})
          \cup (IF r.sid.rev # x.rev THEN {"sid_revision"} ELSE {})
          \cup (IF Len(r.sid.subs) # Len(x.subs) THEN {"sid_subauthority_count"} ELSE {})
          \cup (IF r.sid.auth # x.auth THEN {"sid_authority"} ELSE {})
          \cup (IF Len(r.sid.subs) = Len(x.subs) /\ r.sid.subs # x.subs THEN {"sid_subauthority"} ELSE {})

IsBytes(b) == \A i \in 1 .. Len(b) : b[i] \in 0 .. 255

RejectFails(o, suffix) ==
  IF o = "ok" THEN {"noncanonical_string_accepted" \o suffix}
  ELSE IF o # "ValueError" THEN {"noncanonical_string_crashes_not_ValueError" \o suffix}
  ELSE {}

SidFails(ln, cls) ==
     (IF ln.want # "any" /\ cls # ln.want THEN {"MACHINERY_class_mismatch"} ELSE {})
     \cup (IF ~IsBytes(ln.sid) \/ ~IsBytes(ln.sd) THEN {"MACHINERY_bad_bytes"} ELSE {})
     \cup
     (IF cls = "canonical" THEN
        LET x == SidOfString(ln.s)
        IN (IF ln.o1 # "ok" THEN {"wellformed_sid_rejected"}
            ELSE IF ln.sid # SidBytes(x) THEN {"sid_bytes_differ_from_msdtyp"} \cup SidDefects(ln.sid, x)
            ELSE {})
           \cup
           (IF ln.o2 # "ok" THEN {"wellformed_sid_rejected_sd"}
            ELSE IF ln.sd # TargetSd(x) THEN {"sd_bytes_differ_from_msdtyp"} \cup SdDefects(ln.sd, x)
            ELSE {})
      ELSE IF cls = "reject" THEN RejectFails(ln.o1, "") \cup RejectFails(ln.o2, "_sd")
      ELSE {})

CalibSid(ln) == LET p == SdParse(ln.sd) IN IF p.ok /\ Len(p.aces) >= 1 THEN p.aces[1].sid ELSE NoSid
CalibFails(ln) ==
  LET x == CalibSid(ln)
  IN IF x # NoSid /\ WellFormedSid(x) /\ TargetSd(x) = ln.sd /\ SdDefects(ln.sd, x) = {}
     THEN {} ELSE {"MACHINERY_calibration"}

Fails(ln, cls) == IF ln.kind = "calib" THEN CalibFails(ln) ELSE SidFails(ln, cls)

Result ==
  LET L == ndJsonDeserialize(IOEnv.TRACE_FILE)
      N == Len(L)
      C == [i \in 1 .. N |-> IF L[i].kind = "calib" THEN "calib" ELSE Classify(L[i].s)]
      F == [i \in 1 .. N |-> Fails(L[i], C[i])]
  IN <<"RESULT",
       [n |-> N,
        canonical |-> Cardinality({i \in 1 .. N : C[i] = "canonical"}),
        reject |-> Cardinality({i \in 1 .. N : C[i] = "reject"}),
        dontcare |-> Cardinality({i \in 1 .. N : C[i] = "dontcare"}),
        dontcare_accepted |-> {L[i].id : i \in {j \in 1 .. N : C[j] = "dontcare" /\ (L[j].o1 = "ok" \/ L[j].o2 = "ok")}},
        calib |-> {SidString(CalibSid(L[i])) : i \in {j \in 1 .. N : L[j].kind = "calib" /\ F[j] = {}}}],
       {<<L[i].id, F[i]>> : i \in {j \in 1 .. N : F[j] # {}}}>>
ASSUME PrintT(Result)
=============================================================================
