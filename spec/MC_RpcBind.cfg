CONSTANT MaxLegs = 3
CONSTANT ResultCodes <- MC_Codes
CONSTANT ServerTokens <- MC_Toks
INIT Init
NEXT Next
INVARIANT TokensRelayed
INVARIANT NoEmptyAlter
INVARIANT ServerTokensFed
INVARIANT StopsWhenComplete
INVARIANT RequestOnlyOnAccepted
INVARIANT SignHeader
INVARIANT FailClosed
INVARIANT NoRequestAfterRejection
INVARIANT BoundedExchange
CHECK_DEADLOCK FALSE
