#!/usr/bin/env python3
"""Regenerates MANIFEST.json from the table below (keeps it schema-valid at all times)."""
import json, pathlib, subprocess

HERE = pathlib.Path(__file__).parent
CHECKS = json.loads((HERE / "checks.json").read_text())
NA = json.loads((HERE / "not_applicable.json").read_text())
props = [json.loads(l)["id"] for l in (HERE / "properties.jsonl").read_text().splitlines() if l.strip()]

def commits():
    try:
        out = subprocess.run(["git", "-C", "/repo", "log", "--format=%h %s"], capture_output=True, text=True).stdout
        return [l.split()[0] for l in out.splitlines() if " verif-hook:" in l]
    except Exception:
        return []

checks = []
for c in CHECKS:
    pid = c["property_id"]
    checks.append({
        "property_id": pid,
        "quick_cmd": f"./check {pid} --tier quick",
        "thorough_cmd": f"./check {pid} --tier thorough",
        "evidence_file": f"/verif/evidence/{pid}.json",
        "replay_cmd_template": f"./check {pid} --replay {{path}}",
        "engine": "tlc+conformance",
        "level_claimed": {"category": "model_checking", "text": c["text"], "design_ref": c.get("design_ref", f"DESIGN.md section 6 {pid}")},
        "level_note": c["note"],
        "technique": c["technique"],
    })
claimed = {c["property_id"] for c in checks}
na = [n for n in NA if n["property_id"] not in claimed]
for p in props:
    if p not in claimed and p not in {n["property_id"] for n in na}:
        na.append({"property_id": p, "reason": "check not built yet in this session (planned, see DESIGN.md section 6); not claimed until its check passes on the unchanged tree"})
m = {
    "version": 1,
    "setup_cmd": "./setup.sh",
    "hooks": {
        "guard": "DPAPI_NG_VERIF",
        "enable": "no source hooks: every observation point is a boundary the library already exposes (socket, spnego context, dns resolver, clock, KDF primitive), replaced in the driver process; checks import /repo/src from the working tree via PYTHONPATH",
        "baseline_off_cmd": "cd /repo && /venv/bin/python -m pytest -ra -q -p no:cacheprovider --timeout=900 --continue-on-collection-errors",
        "source_commits": commits(),
        "add_only": True,
    },
    "engines": [
        {"name": "tlc+conformance", "path": "/verif/check", "serves_properties": sorted(claimed),
         "kind_free_text": "explicit TLA+ specification (spec/*.tla) model-checked with TLC; bound to the code by replaying TLC-generated cases into the real library and by validating traces recorded from the real library against Trace*.tla with TLC"},
    ],
    "checks": checks,
    "not_applicable": na,
    "notes": "See DESIGN.md. Exit 0 = held on everything explored; exit 1 + VIOLATION line = violation; exit 2 = machinery failure. Fixes to /repo are unguarded 'fix:' commits listed in known_findings.json.",
}
(HERE / "MANIFEST.json").write_text(json.dumps(m, indent=1) + "\n")
print("claimed:", sorted(claimed), "na:", len(na))
