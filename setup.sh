#!/bin/sh
# Offline setup: nothing to build; verify the tools the checks need and create scratch dirs.
set -e
cd "$(dirname "$0")"
mkdir -p run evidence replays
command -v java >/dev/null
test -f /opt/veriftools/tla/tla2tools.jar
test -x /venv/bin/python
/venv/bin/python -c "import cryptography, spnego, dns, hypothesis" 
echo "setup ok"
