"""Shared machinery for C04 / C05: valid target blobs with offline key material, field maps,
mutations, and a metered, network-tapped unprotect."""
from __future__ import annotations

import asyncio
import socket
import struct
import typing as t
import uuid

from . import taps
from . import blobref, refdc
from .core import REPO, MachineryError
from .gkdiref import kdf_parameters

USER = f"{refdc.DOMAIN}\\{refdc.USER}"
SID = "S-1-5-21-2185496602-3367037166-1388177638-1103"
SECRET = {"DH": ("DH", 512, 2048), "ECDH_P256": ("ECDH_P256", 256, 256), "ECDH_P384": ("ECDH_P384", 384, 384)}
SRC_PREFIX = str(REPO / "src" / "dpapi_ng")


class NeedsNetwork(Exception):
    pass


class NetworkTap:
    """Any attempt to reach DNS or a socket raises NeedsNetwork (the statement allows 'tries to contact a DC')."""

    def __enter__(self) -> "NetworkTap":
        import dns.asyncresolver
        import dns.resolver

        self._o = (dns.resolver.resolve, dns.asyncresolver.resolve, socket.create_connection, asyncio.open_connection)

        def boom(*a: t.Any, **k: t.Any) -> t.Any:
            raise NeedsNetwork()

        async def aboom(*a: t.Any, **k: t.Any) -> t.Any:
            raise NeedsNetwork()

        dns.resolver.resolve = boom  # type: ignore
        dns.asyncresolver.resolve = aboom  # type: ignore
        socket.create_connection = boom  # type: ignore
        asyncio.open_connection = aboom  # type: ignore
        return self

    def __exit__(self, *a: t.Any) -> None:
        import dns.asyncresolver
        import dns.resolver

        dns.resolver.resolve, dns.asyncresolver.resolve, socket.create_connection, asyncio.open_connection = self._o  # type: ignore


class Target:
    """A valid blob produced by the library itself plus the offline key material that decrypts it."""

    def __init__(self, rng: t.Any, h: str, mode: str, layout: str, pt: bytes) -> None:
        import dpapi_ng
        import dpapi_ng._client as client
        from dpapi_ng._blob import DPAPINGBlob

        self.h, self.mode, self.layout, self.pt = h, mode, layout, pt
        self.rkid = uuid.UUID(bytes=rng.randbytes(16))
        self.root = rng.randbytes(64)
        sec = SECRET.get(mode, SECRET["DH"])
        self.load = dict(key=self.root, root_key_id=self.rkid, kdf_parameters=kdf_parameters(h), secret_algorithm=sec[0],
                         private_key_length=sec[1], public_key_length=sec[2])
        if sec[0] != "DH":
            self.load["secret_parameters"] = b""
        cache = dpapi_ng.KeyCache()
        if mode == "nonce":
            cache.load_key(**self.load)
            blob = dpapi_ng.ncrypt_protect_secret(pt, SID, root_key_identifier=self.rkid, cache=cache)
        else:
            refdc.ensure_ntlm_users()
            dc = refdc.DC()
            dc.add_root_key(self.rkid, refdc.RootKeyInfo(self.root, h, sec[0], sec[1], sec[2]))
            dc.reply_kind = "pubkey"
            dc.now = (361, rng.randrange(32), rng.randrange(32))
            with refdc.Network(dc):
                blob = dpapi_ng.ncrypt_protect_secret(pt, SID, server="dc01", username=USER, password=refdc.PASSWORD, auth_protocol="ntlm")
        if layout == "trailing":
            blob = DPAPINGBlob.unpack(blob).pack(blob_in_envelope=False)
        self.blob = bytes(blob)
        self.protect_args = None
        self.fields = field_ranges(self.blob)
        self.parsed = blobref.parse_blob(self.blob)
        if self.unprotect(self.blob)[0] != "plain_ok":
            raise MachineryError("target blob does not decrypt with its own key material")

    def fresh_cache(self) -> t.Any:
        import dpapi_ng

        c = dpapi_ng.KeyCache()
        c.load_key(**self.load)
        return c

    last_peak = 0

    def unprotect(self, data: bytes, kdf_budget: int = 300, step_budget: t.Optional[int] = None, use_async: bool = False,
                  cache: t.Any = None, measure_mem: bool = False) -> tuple[str, str, int, int]:
        """-> (outcome, exception class, kdf calls, line events)"""
        import dpapi_ng

        cache = cache if cache is not None else self.fresh_cache()
        meter = taps.StepMeter(SRC_PREFIX, step_budget) if step_budget else None
        steps = 0
        self.last_peak = 0
        if measure_mem:
            import tracemalloc

            tracemalloc.start()
        with NetworkTap(), taps.KdfTap(budget=kdf_budget, record=False) as tap:
            try:
                if meter:
                    meter.__enter__()
                try:
                    with taps.time_limit(30 + len(data) / 5000):
                        out = (asyncio.run(dpapi_ng.async_ncrypt_unprotect_secret(data, cache=cache)) if use_async
                               else dpapi_ng.ncrypt_unprotect_secret(data, cache=cache))
                finally:
                    if meter:
                        meter.__exit__()
                        steps = meter.n
                res = ("plain_ok" if out == self.pt else "plain_different"), ""
            except NeedsNetwork:
                res = "needs_network", ""
            except taps.BudgetExceeded as e:
                res = ("kdf_budget" if "KDF" in str(e) else "step_budget"), "BudgetExceeded"
            except taps.Hang:
                res = "step_budget", "Hang"
            except MachineryError:
                raise
            except RecursionError:
                res = "error", "builtins.RecursionError"
            except Exception as e:  # noqa
                res = "error", exc_name(e)
            finally:
                if measure_mem:
                    import tracemalloc

                    self.last_peak = tracemalloc.get_traced_memory()[1]
                    tracemalloc.stop()
            return res[0], res[1], tap.n, steps


DELIBERATE = ("ValueError", "NotImplementedError", "NotEnougData", "InvalidTag", "InvalidUnwrap")


def exc_name(e: BaseException) -> str:
    """The deliberate type an exception is (by MRO), else its own class name."""
    names = [c.__name__ for c in type(e).__mro__]
    for d in DELIBERATE:
        if d in names:
            return d if type(e).__name__ == d else f"{d}<{type(e).__name__}>"
    return type(e).__name__


def field_ranges(blob: bytes) -> dict[str, list[tuple[int, int]]]:
    """Byte ranges of the Blob.tla field classes inside a concrete blob (found with the independent parser)."""
    p = blobref.parse_blob(blob)
    f: dict[str, list[tuple[int, int]]] = {k: [] for k in
                                           ("kid_version", "kid_flags", "kid_position", "kid_root_key", "kid_key_info", "kid_names", "sid_text",
                                            "wrapped_cek", "alg_oid", "gcm_nonce", "icv_len", "ciphertext", "tag", "der_structure")}

    def find(b: bytes, start: int = 0) -> int:
        i = blob.find(b, start)
        if i < 0 or blob.find(b, i + 1) >= 0 and len(b) < 8:
            raise MachineryError(f"cannot locate field {b[:8].hex()}")
        return i

    k0 = find(p["kid_raw"])
    kid = p["kid"]
    f["kid_version"].append((k0, k0 + 4))
    f["der_structure"].append((k0 + 4, k0 + 8))      # magic: checked by the parser
    f["kid_flags"].append((k0 + 8, k0 + 12))
    f["kid_position"].append((k0 + 12, k0 + 24))
    f["kid_root_key"].append((k0 + 24, k0 + 40))
    f["der_structure"].append((k0 + 40, k0 + 52))     # length fields
    ki = len(kid["key_info"])
    f["kid_key_info"].append((k0 + 52, k0 + 52 + ki))
    f["kid_names"].append((k0 + 52 + ki, k0 + kid["total"]))
    s0 = find(p["sid"].encode())
    f["sid_text"].append((s0, s0 + len(p["sid"])))
    w0 = find(p["enc_cek"])
    f["wrapped_cek"].append((w0, w0 + len(p["enc_cek"])))
    for oid in (blobref.OID_AESWRAP, blobref.OID_AESGCM, blobref.OID_ENVELOPED, blobref.OID_DATA, blobref.OID_SID):
        enc = blobref.der_oid(oid)
        i = blob.find(enc)
        f["alg_oid"].append((i + 2, i + len(enc)))
    # OID_MS is a prefix of OID_SID: first occurrence is the attribute id
    enc = blobref.der_oid(blobref.OID_MS)
    i = blob.find(enc)
    f["alg_oid"].append((i + 2, i + len(enc)))
    n0 = find(p["nonce"])
    f["gcm_nonce"].append((n0, n0 + 12))
    f["icv_len"].append((n0 + 12 + 2, n0 + 12 + 3))
    c0 = blob.rfind(p["ct"])
    ct = p["ct"]
    f["ciphertext"].append((c0, c0 + max(0, len(ct) - 16)))
    f["tag"].append((c0 + max(0, len(ct) - 16), c0 + len(ct)))
    covered = sorted(r for lst in f.values() for r in lst)
    pos = 0
    for a, b in covered:
        if a > pos:
            f["der_structure"].append((pos, a))
        pos = max(pos, b)
    if pos < len(blob):
        f["der_structure"].append((pos, len(blob)))
    f = {k: [r for r in v if r[1] > r[0]] for k, v in f.items()}
    return f


def field_of(fields: dict[str, list[tuple[int, int]]], byte: int) -> str:
    for k, lst in fields.items():
        for a, b in lst:
            if a <= byte < b:
                return k
    return "der_structure"


def apply(blob: bytes, rng: t.Any, fields: dict, tampers: list[tuple[str, str]], in_envelope: bool = True) -> tuple[bytes, list]:
    """Concretise abstract tampers <<field, kind>> at seeded positions inside the field's byte range."""
    sites = []
    for fld, kind in tampers:
        if fld == "trailing_bytes":
            sites.append((len(blob), fld, kind))
            continue
        rs = fields.get(fld) or fields["der_structure"]
        a, b = rng.choice(rs)
        sites.append((rng.randrange(a, b), fld, kind))
    out = bytearray(blob)
    trunc = None
    for pos, fld, kind in sorted(sites, reverse=True):
        if fld == "trailing_bytes":
            if kind in ("delete", "truncate") and not in_envelope:
                out = out[:-1] if kind == "delete" else out[: max(0, len(out) - rng.randrange(1, 17))]
            else:
                out += bytes([rng.randrange(256)]) * rng.randrange(1, 9)
        elif not out:
            continue
        elif kind == "flip":
            pos = min(pos, len(out) - 1)
            out[pos] ^= 1 << rng.randrange(8)
        elif kind == "substitute":
            pos = min(pos, len(out) - 1)
            out[pos] = (out[pos] + rng.randrange(1, 256)) % 256
        elif kind == "insert":
            out[pos:pos] = bytes([rng.randrange(256)])
        elif kind == "delete":
            del out[min(pos, len(out) - 1)]
        elif kind == "truncate":
            trunc = pos if trunc is None else min(trunc, pos)
    if trunc is not None:
        out = out[:trunc]
    return bytes(out), [(p, f, k) for p, f, k in sites]


# ---- generic DER tree (for structure-aware mutations) -------------------------------------------------
def parse_tree(b: bytes) -> list:
    """-> list of nodes [tag, payload]; payload = bytes (primitive) or list of nodes (constructed)."""
    out = []
    off = 0
    while off < len(b):
        tag, content, off = blobref.read_tlv(b, off)
        out.append([tag, parse_tree(content) if tag & 0x20 else bytes(content)])
    return out


def enc_node(node: list, path: tuple, mut: t.Optional[tuple]) -> bytes:
    """mut = (path, op, arg).  Ops change how exactly one node is encoded."""
    tag, payload = node
    if isinstance(payload, list):
        parts = []
        for i, ch in enumerate(payload):
            p = path + (i,)
            if mut and mut[0] == p and mut[1] == "drop":
                continue
            e = enc_node(ch, p, mut)
            if mut and mut[0] == p and mut[1] == "insert_before":
                parts.append(mut[2])          # an extra (optional / unexpected) member in front of this one
            parts.append(e)
            if mut and mut[0] == p and mut[1] == "dup":
                parts.append(e)
        content = b"".join(parts)
    else:
        content = payload
    if mut and mut[0] == path:
        op, arg = mut[1], mut[2]
        if op == "wrong_tag":
            tag = arg
        elif op == "zero_length":
            content = b""
        elif op == "replace":
            content = arg
        elif op == "short_content":
            return bytes([tag]) + blobref.der_len(len(content)) + content[: len(content) // 2]
        elif op == "overlong":
            return bytes([tag]) + blobref.der_len(len(content) + arg) + content
        elif op == "huge_length":
            return bytes([tag]) + b"\x84\xff\xff\xff\xff" + content
        elif op == "indefinite":
            return bytes([tag]) + b"\x80" + content + b"\x00\x00"
        elif op == "nonminimal":
            return bytes([tag]) + b"\x82" + len(content).to_bytes(2, "big") + content
        elif op == "high_tag":
            return bytes([tag | 0x1F]) + arg + blobref.der_len(len(content)) + content
        elif op == "deep_nest":
            # the element as a constructed encoding nested `arg` levels deep (BER allows constructed strings)
            inner = bytes([tag]) + blobref.der_len(len(content)) + content
            for _ in range(arg):
                inner = bytes([tag | 0x20]) + blobref.der_len(len(inner)) + inner
            return inner
    return bytes([tag]) + blobref.der_len(len(content)) + content


def all_paths(nodes: list, prefix: tuple = ()) -> list[tuple]:
    out = []
    for i, n in enumerate(nodes):
        p = prefix + (i,)
        out.append(p)
        if isinstance(n[1], list):
            out += all_paths(n[1], p)
    return out


def node_at(nodes: list, path: tuple) -> list:
    n = nodes[path[0]]
    for i in path[1:]:
        n = n[1][i]
    return n


def render(tree: list, mut: t.Optional[tuple], trailing: bytes = b"") -> bytes:
    out = b""
    for i, n in enumerate(tree):
        if mut and mut[0] == (i,) and mut[1] == "drop":
            continue
        if mut and mut[0] == (i,) and mut[1] == "insert_before":
            out += mut[2]
        out += enc_node(n, (i,), mut)
    return out + trailing


def raw_key_identifier(version: int = 1, magic: bytes = b"KDSK", flags: int = 0, l0: int = 361, l1: int = 3, l2: int = 4, rkid: bytes = b"\x11" * 16,
                       key_info: bytes = b"\x22" * 32, domain: bytes = "d.test\0".encode("utf-16-le"), forest: bytes = "f.test\0".encode("utf-16-le"),
                       ki_len: t.Optional[int] = None, dom_len: t.Optional[int] = None, for_len: t.Optional[int] = None, cut: t.Optional[int] = None) -> bytes:
    m = 0xFFFFFFFF
    b = (struct.pack("<I", version & m) + magic + struct.pack("<IIII", flags & m, l0 & m, l1 & m, l2 & m) + rkid
         + struct.pack("<III", (len(key_info) if ki_len is None else ki_len) & m, (len(domain) if dom_len is None else dom_len) & m,
                       (len(forest) if for_len is None else for_len) & m) + key_info + domain + forest)
    return b if cut is None else b[:cut]
