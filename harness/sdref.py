"""Independent MS-DTYP encoder for SIDs / ACEs / ACLs / self-relative security descriptors."""
from __future__ import annotations

import struct


def sid_bytes(sid: str) -> bytes:
    parts = sid.split("-")
    assert parts[0] == "S"
    rev, auth = int(parts[1]), int(parts[2])
    subs = [int(x) for x in parts[3:]]
    return bytes([rev, len(subs)]) + auth.to_bytes(6, "big") + b"".join(struct.pack("<I", s) for s in subs)


def ace(sid: str, mask: int) -> bytes:
    s = sid_bytes(sid)
    return struct.pack("<BBHI", 0, 0, 8 + len(s), mask) + s


def acl(aces: list[bytes]) -> bytes:
    body = b"".join(aces)
    return struct.pack("<BBHHH", 2, 0, 8 + len(body), len(aces), 0) + body


def target_sd(sid: str) -> bytes:
    """O:SY G:SY D:(A;;0x3;;;<sid>)(A;;0x2;;;WD), self-relative, order DACL, owner, group."""
    dacl = acl([ace(sid, 3), ace("S-1-1-0", 2)])
    owner = sid_bytes("S-1-5-18")
    group = sid_bytes("S-1-5-18")
    off_dacl = 20
    off_owner = off_dacl + len(dacl)
    off_group = off_owner + len(owner)
    return struct.pack("<BBHIIII", 1, 0, 0x8004, off_owner, off_group, 0, off_dacl) + dacl + owner + group


def parse_sd(b: bytes) -> dict:
    rev, sbz, ctrl, oo, og, os_, od = struct.unpack("<BBHIIII", b[:20])

    def sid_at(off: int) -> tuple[str, int]:
        r, n = b[off], b[off + 1]
        auth = int.from_bytes(b[off + 2 : off + 8], "big")
        subs = struct.unpack("<" + "I" * n, b[off + 8 : off + 8 + 4 * n])
        return "-".join(["S", str(r), str(auth)] + [str(s) for s in subs]), 8 + 4 * n

    out = {"rev": rev, "control": ctrl, "owner": sid_at(oo)[0], "group": sid_at(og)[0], "sacl": os_, "aces": []}
    ar, asbz, asz, acnt, asbz2 = struct.unpack("<BBHHH", b[od : od + 8])
    out["acl"] = {"rev": ar, "size": asz, "count": acnt}
    off = od + 8
    for _ in range(acnt):
        at, af, sz, mask = struct.unpack("<BBHI", b[off : off + 8])
        s, sl = sid_at(off + 8)
        out["aces"].append({"type": at, "flags": af, "size": sz, "mask": mask, "sid": s, "size_ok": sz == 8 + sl})
        off += sz
    out["acl_size_ok"] = off - od == asz
    out["total_ok"] = max(oo + sid_at(oo)[1], og + sid_at(og)[1], od + asz) == len(b)
    return out
