"""C02 — derived group keys equal the MS-GKDI chain from any covering seed material."""
from __future__ import annotations

import base64
import json
import multiprocessing as mp
import os
import typing as t
import uuid

from .. import taps  # noqa: F401  (installs the KDF tap before dpapi_ng is imported)
from .. import evaluator as ev
from ..core import REPO, Ctx, MachineryError
from ..gkdiref import KeySet, graph, kdf_parameters
from ..tlc import require_actions, require_ok, run_tlc
from ..tracecheck import validate

HASHES = ["SHA1", "SHA256", "SHA384", "SHA512"]
OOR = [(-1, 0), (0, -1), (32, 0), (0, 32), (32, 32), (40, 3), (3, 2**31 - 1)]

_KS: dict[int, KeySet] = {}
_GRAPH = None
_SEED = 0


def _keysets(seed: int) -> dict[int, KeySet]:
    import random

    rng = random.Random(1000 + seed)
    out = {}
    sd = bytes.fromhex(json.load(open(REPO / "tests/data/seed_key.json"))["SecurityDescriptor"])
    for i, h in enumerate(HASHES):
        rk = rng.randbytes(64)
        rkid = uuid.UUID(bytes=rng.randbytes(16))
        l0 = rng.choice([0, 1, 361, 362, 2**31 - 1])
        sdv = sd if i % 2 == 0 else sd[:-4] + rng.randbytes(4)
        out[i] = KeySet(h, rk, rkid, sdv, l0)
    return out


def _init_worker(g: list, seed: int) -> None:
    from .. import gkdiref

    gkdiref._GRAPH = g
    global _KS
    _KS = _keysets(seed)


def _run_cases(args: tuple) -> list[dict]:
    items, full_ids = args
    from dpapi_ng._blob import KeyIdentifier
    from dpapi_ng._gkdi import GroupKeyEnvelope

    out = []
    for cid, hi, shape, r1, r2 in items:
        ks = _KS[hi]
        nonce = bytes([cid & 0xFF, (cid >> 8) & 0xFF]) * 16
        env = GroupKeyEnvelope(
            version=1,
            flags=0,
            l0=ks.l0,
            l1=shape["a"],
            l2=shape["b"],
            root_key_identifier=ks.rkid,
            kdf_algorithm="SP800_108_CTR_HMAC",
            kdf_parameters=kdf_parameters(ks.h),
            secret_algorithm="DH",
            secret_parameters=b"",
            private_key_length=512,
            public_key_length=2048,
            domain_name="d.test",
            forest_name="f.test",
            l1_key=ks.node_bytes(shape["l1"]),
            l2_key=ks.node_bytes(shape["l2"]),
        )
        # seed material of another L0 interval covers nothing (Gkdi!CoversReq): every 9th case asks with a key identifier
        # whose L0 is before / after the envelope's
        dl0 = (-3, -1, 1, 2)[(cid // 9) % 4] if cid % 9 == 4 else 0
        kid = KeyIdentifier(
            version=1, flags=0, l0=ks.l0 + dl0, l1=r1, l2=r2, root_key_identifier=ks.rkid, key_info=nonce,
            domain_name="d.test", forest_name="f.test",
        )
        line = {"id": cid, "hi": hi, "l0": ks.l0, "rl0": ks.l0 + dl0, "r1": r1, "r2": r2, **shape, "calls": [], "out": ["?"], "exc": "", "kek": True, "ncalls": 0}
        with taps.KdfTap(budget=256) as tap:
            try:
                kek = env.get_kek(kid)
                line["res"] = "key"
            except taps.BudgetExceeded:
                line["res"] = "budget"
            except Exception as e:  # noqa
                line["res"] = "error"
                line["exc"] = type(e).__name__
        line["ncalls"] = tap.n
        if line["res"] == "key":
            fin = [c for c in tap.calls if c["context"] == nonce and c["length"] == 32]
            if len(fin) != 1:
                line["out"] = ["?"]
                line["kek"] = False
            else:
                line["out"] = ks.node_of(fin[0]["key"])
                want = ev.kek_nonce(ks.h, ks.l2(r1, r2), nonce) if (0 <= r1 <= 31 and 0 <= r2 <= 31) else None
                line["kek"] = want is not None and kek == want
            if cid in full_ids:
                line["calls"] = ks.abstract_calls([c for c in tap.calls if not (c["context"] == nonce and c["length"] == 32)])
        out.append(line)
    return out


def _tlc_models(ctx: Ctx) -> None:
    r = run_tlc("MC_GkdiLemma", "MC_GkdiLemma.cfg", rundir=ctx.rundir, workers=1)
    require_ok(r, "graph lemmas (Fan=8)")
    ctx.add_tlc(r, "graph lemmas: chains end at root, contexts distinct, Covers <=> Derivable (Fan=8)")
    r = run_tlc("MC_Gkdi", "MC_Gkdi_live.cfg", rundir=ctx.rundir, coverage=True)
    require_ok(r, "derivation step machine, scaled lattice Fan=4, all invariants + termination")
    require_actions(r, ["Start", "Adjust", "L1Step", "L1Done", "Reseed", "L2Step", "L2Done"], "MC_Gkdi_live")
    ctx.add_tlc(r, "step machine Fan=4: all envelopes x all requests, safety + <>Terminal under WF")
    cfg = "MC_Gkdi_full.cfg" if ctx.thorough else "MC_Gkdi_quick.cfg"
    r = run_tlc("MC_Gkdi", cfg, rundir=ctx.rundir, timeout=7000, heap=ctx.pick("4g", "16g"))
    require_ok(r, f"derivation step machine Fan=32 ({cfg})")
    ctx.add_tlc(r, f"step machine Fan=32 {cfg}: ResultIsRequested, RejectIffNotCovered, BoundedKdf, CoverIsDerivable, StepsAreEdges")


def _calibrate(ctx: Ctx) -> None:
    """The evaluator's tables must reproduce the repository's MS-GKDI test vectors
    (tests/test_gkdi.py uses these constants) -- machinery failure otherwise."""
    rk = bytes.fromhex(
        "9F48CF96AE350DD017E2922D05235C8B926600A1D18B77DB7C2B4ED72816863871AFC7F35D1E0584635AD3652B5F3FD8AC77"
    )
    # self-consistency of kdf108 against `cryptography` (independent implementation)
    from cryptography.hazmat.primitives import hashes
    from cryptography.hazmat.primitives.kdf.kbkdf import CounterLocation, Mode
    from ..taps import _REAL_KBKDFHMAC

    for h, ho in (("SHA1", hashes.SHA1()), ("SHA256", hashes.SHA256()), ("SHA384", hashes.SHA384()), ("SHA512", hashes.SHA512())):
        a = _REAL_KBKDFHMAC(algorithm=ho, mode=Mode.CounterMode, length=64, label=b"L", context=b"C", rlen=4, llen=4,
                            location=CounterLocation.BeforeFixed, fixed=None).derive(rk)
        if a != ev.kdf108(h, rk, b"L", b"C", 64):
            raise MachineryError(f"evaluator kdf108 disagrees with cryptography for {h}")
    # Windows vectors: the reference KEK must unwrap real NCryptProtectSecret blobs
    from cryptography.hazmat.primitives import keywrap
    from dpapi_ng._blob import DPAPINGBlob

    n = 0
    for name in ("kdf_sha1_nonce", "kdf_sha256_nonce", "kdf_sha384_nonce", "kdf_sha512_nonce"):
        d = json.load(open(REPO / f"tests/data/{name}.json"))
        blob = DPAPINGBlob.unpack(base64.b16decode(d["Data"]))
        kid = blob.key_identifier
        h = name.split("_")[1].upper()
        ks = KeySet(h, base64.b16decode(d["RootKeyData"]), uuid.UUID(d["RootKeyId"]),
                    blob.protection_descriptor.get_target_sd(), kid.l0, ctx)
        kek = ev.kek_nonce(h, ks.l2(kid.l1, kid.l2), kid.key_info)
        try:
            keywrap.aes_key_unwrap(kek, blob.enc_cek)
        except Exception as e:  # noqa
            raise MachineryError(f"calibration: reference KEK does not unwrap Windows blob {name}: {e}")
        n += 1
    ctx.assume(f"evaluator calibrated on {n} Windows NCryptProtectSecret vectors (reference KEK unwraps the CEK)")


def _cases(ctx: Ctx) -> list[tuple]:
    if ctx.thorough:
        pos = [(a, b) for a in range(32) for b in range(32)]
    else:
        edge = [0, 1, 15, 31]
        extra = [(ctx.rng.randrange(32), ctx.rng.randrange(32)) for _ in range(8)]
        pos = [(a, b) for a in edge for b in edge] + extra
    reqs = [(r1, r2) for r1 in range(32) for r2 in range(32)] + OOR
    ks0 = KeySet.__new__(KeySet)  # only for shapes()
    items = []
    cid = 0
    for a, b in pos:
        for shape in KeySet.shapes(ks0, a, b):
            for r1, r2 in reqs:
                items.append((cid, (cid + ctx.seed) % 4, shape, r1, r2))
                cid += 1
    # the lazily built root envelope of the cache
    for r1, r2 in reqs:
        items.append((cid, (cid + ctx.seed) % 4, {"a": 31, "b": 31, "l1": ["L1", 31], "l2": ["none"]}, r1, r2))
        cid += 1
    return items


def _execute(ctx: Ctx, items: list[tuple], full_ids: set[int]) -> list[dict]:
    g = graph(ctx)
    nproc = 16 if len(items) > 20000 else 1
    if nproc == 1:
        _init_worker(g, ctx.seed)
        return _run_cases((items, full_ids))
    chunks = [items[i : i + 4000] for i in range(0, len(items), 4000)]
    with mp.get_context("fork").Pool(nproc, initializer=_init_worker, initargs=(g, ctx.seed)) as pool:
        res = pool.map(_run_cases, [(c, full_ids) for c in chunks])
    return [ln for r in res for ln in r]


def _judge(ctx: Ctx, lines: list[dict], bad: dict) -> None:
    by_id = {ln["id"]: ln for ln in lines}
    for cid, clauses in bad.items():
        ln = by_id[cid]
        if any(c.startswith("MACHINERY") for c in clauses):
            raise MachineryError(f"trace line malformed: {ln}")
        shape = "l2absent" if ln["l2"] == ["none"] else ("l1absent" if ln["l1"] == ["none"] else "both")
        covered = "covered" if "covered_request_must_return_key" in clauses or ln["res"] == "key" else "uncovered"
        key = f"derive:{clauses[0]}:{covered}:{ln['res']}:{ln['exc']}"
        ctx.violation(key, ",".join(clauses), ln, f"envelope ({ln['a']},{ln['b']}) {shape}, request ({ln['r1']},{ln['r2']}), "
                      f"hash {HASHES[ln['hi']]}: result={ln['res']} {ln['exc']} out={ln['out']} kdf_calls={ln['ncalls']}")


def run(ctx: Ctx) -> int:
    _tlc_models(ctx)
    _calibrate(ctx)
    items = _cases(ctx)
    nfull = ctx.pick(1600, 40000)
    full_ids = set(ctx.rng.sample(range(len(items)), min(nfull, len(items))))
    lines = _execute(ctx, items, full_ids)
    ctx.count(len(lines))
    for ln in lines:
        if ln["res"] == "key" and ln["ncalls"] > 1:
            ctx.distinct((ln["a"], ln["b"], ln["l2"] == ["none"], ln["r1"], ln["r2"], ln["hi"]))
    full = [ln for ln in lines if ln["id"] in full_ids]
    lite = [ln for ln in lines if ln["id"] not in full_ids]
    bad1, st1 = validate(ctx, "TraceGkdi", "TraceGkdi.cfg", full, chunk=ctx.pick(200, 2500), what="full")
    bad2, st2 = validate(ctx, "TraceGkdi", "TraceGkdi.cfg", lite, chunk=ctx.pick(4000, 50000), what="lite")
    _judge(ctx, lines, {**bad1, **bad2})
    ctx.note_drift("more_kdf_calls_than_shortest_walk_plus_one", sum(s.get("drift", 0) for s in st1))
    for ln in full[:3]:
        ctx.sample({k: ln[k] for k in ("a", "b", "l1", "l2", "r1", "r2", "res", "out", "ncalls")} | {"calls": ln["calls"][:3]})
    ctx.assume("HMAC/SP800-108 interpreted by the stdlib evaluator, keys interned to graph nodes by byte equality")
    return ctx.finish(
        rule="envelope position x shape x requested position (incl. out-of-range) x 4 hashes; executed through "
        "GroupKeyEnvelope.get_kek with the KDF tap; every line validated by TraceGkdi (TLC); a sampled subset "
        "with the full KDF call list; non-trivial = covered request needing >= 1 hierarchy KDF step",
        exhaustive=ctx.thorough,
    )


def selftest(ctx: Ctx) -> int:
    from ..tracecheck import selftest_expect_reject

    items = _cases(ctx)[:3000:7]
    lines = _execute(ctx, items, {i[0] for i in items})
    good = [ln for ln in lines if ln["res"] == "key" and len(ln["calls"]) >= 2][:40]
    bad = []
    for k, ln in enumerate(good):
        c = json.loads(json.dumps(ln))
        if k % 3 == 0:
            c["out"] = ["L2", (c["r1"] + 1) % 32, c["r2"]]
        elif k % 3 == 1:
            c["calls"][0]["cl1"] += 1
        else:
            del c["calls"][0]
        bad.append(c)
    selftest_expect_reject(ctx, "TraceGkdi", "TraceGkdi.cfg", good, bad, "c02")
    print("selftest C02 ok: corrupted result / context field / dropped KDF event are rejected")
    return 0
