"""C17 — online against a conforming DC: faithful requests, correct results, sync = async."""
from __future__ import annotations

import asyncio
import copy
import typing as t
import uuid

from .. import taps
from .. import blobref, refdc, sdref
from ..core import Ctx, MachineryError
from ..tlc import require_ok, run_tlc
from ..tracecheck import validate

USER = f"{refdc.DOMAIN}\\{refdc.USER}"
HASHES = ["SHA1", "SHA256", "SHA384", "SHA512"]
SECRETS = [("DH", 512, 2048), ("ECDH_P256", 256, 256), ("ECDH_P384", 384, 384)]


def syn(x: list) -> str:
    return f"{x[0]}/{x[1]}.{x[2]}"


def normalise(tr: list[dict]) -> list[dict]:
    out = []
    for e in tr:
        ev = e["ev"]
        if ev == "shutdown":
            continue
        if ev == "connect":
            out.append({"ev": "connect", "port": e["port"], "host": e["host"]})
        elif ev == "dns":
            out.append({"ev": "dns", "qname": e["qname"], "rdtype": e["rdtype"], "search": e["search"]})
        elif ev == "close":
            out.append({"ev": "close"})
        elif ev in ("bind", "alter_context"):
            a = e["auth"]
            out.append({"ev": ev, "flags": e["flags"], "ctxs": [{"id": c["id"], "abs": syn(c["abstract"]), "ts": [syn(x) for x in c["transfer"]]} for c in e["contexts"]],
                        "authType": a["type"] if a else -1, "authLevel": a["level"] if a else 0, "sign": e["client_sign"],
                        "fragOK": e["frag_ok"] and e["trailing"] == 0, "authLenOK": a["auth_len_ok"] if a else True,
                        "completeAfter": a.get("complete_after", False) if a else True, "accepted": a.get("accepted", False) if a else True})
        elif ev == "request":
            a = e["auth"]
            d = {"ev": "request", "ctx": e["ctx"], "opnum": e["opnum"], "obj": e["obj"], "fragOK": e["frag_ok"], "acceptedCtx": e["accepted_ctx"],
                 "authType": a["type"] if a else -1, "authLevel": a["level"] if a else 0, "unseal": e.get("unseal", "none"), "sealed": e["sealed"],
                 "aligned16": e.get("trailer_aligned16", True), "authLenOK": a["auth_len_ok"] if a else True, "kind": "other"}
            if "ept_map" in e and "error" not in e["ept_map"]:
                m = e["ept_map"]
                d.update(kind="ept_map", floors=m["floors"], objNull=m["obj_null"], handleNull=m["handle_null"], maxTowers=m["max_towers"],
                         towerLenOK=m["tower_len_ok"] and m["tower_ref"], consumedAll=m["consumed_all"])
            if "get_key" in e and "error" not in e["get_key"]:
                g, v = e["get_key"], e["vt"]
                d.update(kind="get_key", sd=g["sd"], rkid=g["rkid"] or "none", l0=g["l0"], l1=g["l1"], l2=g["l2"], cbEqMaxc=g["cb_eq_maxc"], padsZero=g["pads_zero"] and e.get("pad_zero", True),
                         vtPresent=v["present"], vtOffsetOK=v["offset_ok"] and v["pad_zero"],
                         vtCmds=[{"type": c["type"], "end": c["end"], "iface": syn(c["iface"]) if c["iface"] else "none", "transfer": syn(c["transfer"]) if c["transfer"] else "none"} for c in v["commands"]],
                         vtEndsAtStubEnd=v["ends_at_stub_end"])
            out.append(d)
        else:
            out.append({"ev": ev})
    return out


def sid_with(n: int, rng: t.Any) -> str:
    subs = [21] + [rng.choice([0, 1, 2**32 - 1, rng.randrange(2**32)]) for _ in range(n - 1)]
    return "S-1-5-" + "-".join(str(s) for s in subs[:n]) if n > 1 else "S-1-5-18"


def one_call(ctx: Ctx, cfg: dict) -> dict:
    import dpapi_ng

    rng = ctx.rng
    dc = refdc.DC()
    rkid = uuid.UUID(bytes=rng.randbytes(16))
    sec = cfg["secret"]
    dc.add_root_key(rkid, refdc.RootKeyInfo(rng.randbytes(64), cfg["hash"], sec[0], sec[1], sec[2]))
    dc.now = cfg["now"]
    dc.reply_kind = cfg["reply"]
    dc.reply_policy = cfg["policy"]
    dc.l2_at_31 = cfg["l2_at_31"]
    dc.header_sign = cfg["dc_sign"]
    dc.domain, dc.forest = cfg["domain"], cfg["forest"]
    dc.isd_port = cfg["port"]
    dc.alloc_hint = cfg.get("alloc", "padded")
    if cfg["towers"] >= 1:
        dc.epm_extra_towers = [refdc.tower_octets(refdc.tcp_tower(refdc.ISD_KEY, 2000 + k)) for k in range(cfg["towers"])]
    if cfg["towers"] == 2:
        # a named-pipe tower (no TCP floor) first: the first tower *with a TCP floor* decides
        np = [refdc.uuid_floor(refdc.ISD_KEY), refdc.uuid_floor(refdc.NDR), refdc.floor(0x0B, b"", b"\x00\x00"),
              refdc.floor(0x0F, b"", b"\\pipe\\lsass\x00"), refdc.floor(0x11, b"", b"\\\\DC01\x00")]
        dc.epm_towers_before = [refdc.tower_octets(np)]
    sid = cfg["sid"]
    sd = sdref.target_sd(sid)
    info = dc.root_keys[rkid]
    plain = rng.randbytes(rng.choice([0, 1, 15, 16, 17, 100]))
    if cfg["op"] == "unprotect":
        l0, l1, l2 = cfg["named"]
        ks = dc.keyset(rkid, sd, l0)
        blob = blobref.make_blob(cfg["hash"], ks.l2(l1, l2), rkid, l0, l1, l2, sid, plain, rng.randbytes, domain=cfg["domain"], forest=cfg["forest"])
    kw = dict(server="dc.verif.test", username=USER, password=refdc.PASSWORD, auth_protocol=cfg["proto"])
    qname, host = "none", "dc.verif.test"
    if cfg.get("dns") and not cfg["domain"].startswith("."):
        # no server given: SRV discovery; the answer has several records, the best one (lowest priority, highest weight) decides
        kw["server"] = None
        qname = "_ldap._tcp.dc._msdcs." + cfg["domain"]
        host = "best." + cfg["domain"]
        if cfg["op"] == "protect" and cfg.get("upn"):
            # neither server nor domain_name: the bare locator prefix goes through the resolver's search list, whatever the
            # form of the user name (a UPN suffix is not the domain to look in)
            kw["username"] = f"{refdc.USER}@{refdc.DOMAIN}"
            qname = "_ldap._tcp.dc._msdcs"
        elif cfg["op"] == "protect":
            kw["domain_name"] = cfg["domain"]
    if cfg.get("dc_error"):
        dc.root_keys.clear()      # the DC does not know the root key: GetKey fails with an HRESULT
    import dns.asyncresolver
    import dns.rdata
    import dns.rdataclass
    import dns.rdatatype
    import dns.resolver

    def srv_answer(q: t.Any, rdtype: t.Any = "A", *a: t.Any, **k: t.Any) -> list:
        dc.transcript.append({"ev": "dns", "qname": str(q), "rdtype": str(rdtype), "search": bool(k.get("search"))})
        recs = [(10, 5, "worse1." + cfg["domain"] + "."), (0, 1, "lowweight." + cfg["domain"] + "."), (0, 100, host + "."), (7, 200, "worse2." + cfg["domain"] + ".")]
        return [dns.rdata.from_text(dns.rdataclass.IN, dns.rdatatype.SRV, f"{p} {w} 389 {tg}") for p, w, tg in recs]

    async def asrv_answer(q: t.Any, rdtype: t.Any = "A", *a: t.Any, **k: t.Any) -> list:
        return srv_answer(q, rdtype, *a, **k)

    o_res = (dns.resolver.resolve, dns.asyncresolver.resolve)
    dns.resolver.resolve, dns.asyncresolver.resolve = srv_answer, asrv_answer  # type: ignore
    res, named, trs = {}, {}, {}
    for fl in ("sync", "async"):
        dc.transcript.clear()
        dc.getkey_log.clear()
        try:
            with refdc.Network(dc), taps.time_limit(40):
                if cfg["op"] == "unprotect":
                    out = dpapi_ng.ncrypt_unprotect_secret(blob, **kw) if fl == "sync" else asyncio.run(dpapi_ng.async_ncrypt_unprotect_secret(blob, **kw))
                    res[fl] = "plain_ok" if out == plain else "plain_wrong"
                    named[fl] = [-1, -1, -1]
                else:
                    rk_arg = rkid if cfg["name_rk"] else None
                    out = (dpapi_ng.ncrypt_protect_secret(plain, sid, root_key_identifier=rk_arg, **kw) if fl == "sync"
                           else asyncio.run(dpapi_ng.async_ncrypt_protect_secret(plain, sid, root_key_identifier=rk_arg, **kw)))
                    try:
                        pt, p = blobref.open_blob(out, cfg["hash"], lambda kid: dc.keyset(kid["rkid"], sd, kid["l0"]).l2(kid["l1"], kid["l2"]), info.secret_alg, info.priv_len_bits)
                        k = p["kid"]
                        ok = pt == plain and p["sid"] == sid and k["rkid"] == rkid and bool(k["flags"] & 1) == (cfg["reply"] == "pubkey")
                        res[fl] = "blob_ok" if ok else "blob_bad"
                        named[fl] = [k["l0"], k["l1"], k["l2"]]
                    except Exception as e:  # noqa
                        res[fl] = "blob_bad:" + type(e).__name__
                        named[fl] = [-1, -1, -1]
        except MachineryError:
            raise
        except (Exception, taps.Hang) as e:  # noqa
            res[fl] = "error:" + type(e).__name__
            named[fl] = [-1, -1, -1]
        trs[fl] = normalise(copy.deepcopy(dc.transcript))
    dns.resolver.resolve, dns.asyncresolver.resolve = o_res  # type: ignore
    n = cfg["named"] if cfg["op"] == "unprotect" else (-1, -1, -1)
    call = {"op": cfg["op"], "sd": sd.hex(), "rkid": str(rkid) if (cfg["op"] == "unprotect" or cfg["name_rk"]) else "none",
            "l0": n[0], "l1": n[1], "l2": n[2], "proto": cfg["proto"], "isdPort": cfg["port"], "dcSign": cfg["dc_sign"], "qname": qname, "host": host}
    return {"call": call, "sync": trs["sync"], "async": trs["async"], "resS": res["sync"], "resA": res["async"], "namedS": named["sync"], "namedA": named["async"],
            "dcnow": list(cfg["now"]), "replyKind": "hresult" if cfg.get("dc_error") else ("pub" if cfg["reply"] == "pubkey" else "seed")}


def configs(ctx: Ctx, n: int) -> list[dict]:
    rng = ctx.rng
    out = []
    edge = [0, 1, 15, 30, 31]
    for i in range(n):
        now = (361 + rng.randrange(3), rng.choice(edge + [rng.randrange(32)]), rng.choice(edge + [rng.randrange(32)]))
        op = "unprotect" if i % 3 else "protect"
        l0 = now[0] - (1 if rng.random() < 0.4 else 0)
        if l0 < now[0]:
            named = (l0, rng.choice(edge + [rng.randrange(32)]), rng.choice(edge + [rng.randrange(32)]))
        else:
            cands = [(a, b) for a in edge + [rng.randrange(32)] for b in edge + [rng.randrange(32)] if (a, b) <= (now[1], now[2])]
            named = (l0, *rng.choice(cands))
        reply = "seed" if rng.random() < 0.6 else "pubkey"
        out.append({"op": op, "now": now, "named": named, "hash": HASHES[i % 4], "secret": SECRETS[(i // 4) % 3], "reply": reply,
                    "policy": "later" if rng.random() < 0.4 else "requested", "l2_at_31": "absent" if rng.random() < 0.3 else "present",
                    "dc_sign": rng.random() < 0.7, "proto": "negotiate" if i % 5 == 0 else "ntlm", "sid": ("S-1-1-0" if i % 29 == 11 else sid_with(1 + i % 15, rng)),
                    "domain": "d" * (i % 9) + ".test", "forest": "f" * ((i // 9) % 9) + ".test", "port": rng.choice([49664, 1025, 65535]),
                    "name_rk": rng.random() < 0.5, "towers": i % 3, "dns": i % 4 == 1, "dc_error": i % 17 == 5,
                    "alloc": ("padded", "unpadded", "zero")[(i // 2) % 3]})
    return out


def run(ctx: Ctx) -> int:
    refdc.ensure_ntlm_users()
    r = run_tlc("MC_Online", "MC_Online.cfg", rundir=ctx.rundir)
    require_ok(r, "Online composition")
    ctx.add_tlc(r, "MC_Online: intended client x conforming DC over op x 5 positions x 2 L0 x 3 DC clocks x seed/pub x ntlm/negotiate x 1..3 legs x "
                   "root key named or not x DC header signing: ConversationAccepted, RequestedKeyIsNamedKey, ResultCorrect, FlavourIndependent")
    rows = []
    for i, cfg in enumerate(configs(ctx, ctx.pick(240, 8000))):
        row = one_call(ctx, cfg)
        row["id"] = i
        row["cfg"] = {k: (list(v) if isinstance(v, tuple) else v) for k, v in cfg.items()}
        rows.append(row)
        ctx.distinct((cfg["op"], cfg["named"], cfg["now"], cfg["hash"], cfg["secret"][0], cfg["reply"], cfg["sid"].count("-"), len(cfg["domain"]), cfg["proto"]))
    ctx.count(2 * len(rows))
    slim = [{k: r_[k] for k in r_ if k != "cfg"} for r_ in rows]
    bad, _ = validate(ctx, "TraceOnline", "TraceOnline.cfg", slim, chunk=ctx.pick(60, 400), what="online")
    ctx.cov["traces_validated_against_impl"] = 2 * len(rows)
    for i, clauses in list(bad.items()):
        r_ = rows[i]
        ext = [c for c in clauses if c.startswith("EXT_")]
        for c in ext:
            ctx.note_drift("extended_behaviour:" + c)      # specified beyond the listed properties: reported, never a VIOLATION
        clauses = [c for c in clauses if not c.startswith("EXT_")]
        if not clauses:
            continue
        if any(c.startswith("MACHINERY") for c in clauses):
            raise MachineryError(f"{clauses}: {r_['cfg']} {r_['resS']} {r_['resA']}")
        c = r_["cfg"]
        ctx.violation(f"online:{clauses[0]}:{c['op']}:{c['reply']}:{r_['resS']}", ",".join(clauses), {"cfg": c, "resS": r_["resS"], "resA": r_["resA"], "sync": r_["sync"]},
                      f"{c['op']} named {c['named']} DC now {c['now']} {c['hash']} {c['secret'][0]} reply {c['reply']}/{c['policy']} l2@31 {c['l2_at_31']} "
                      f"{c['proto']} sid {c['sid']}: sync={r_['resS']} async={r_['resA']}")
    ctx.sample({"call": rows[0]["call"], "sync": rows[0]["sync"], "res": rows[0]["resS"]})
    ctx.sample({"call": rows[1]["call"], "n_events_sync": len(rows[1]["sync"]), "res": [rows[1]["resS"], rows[1]["resA"]]})
    ctx.assume("reference DC with its own codec, real NTLM / SPNEGO(NTLM) security contexts (no Kerberos KDC in the sandbox)")
    ctx.assume("expected security descriptor bytes come from the independent MS-DTYP encoder harness/sdref.py (spec'd in SecDesc.tla, C08)")
    return ctx.finish(
        rule="calls = seeded configurations over op x blob position x DC clock x 4 hashes x {seed, DH/P256/P384 public-key reply} x SID shape 1..15 "
        "sub-authorities x domain/forest name lengths x reply position policy x L2 key present/absent at 31 x DC header signing x ntlm/negotiate "
        "x mapped port; each made with the sync and the async API against the reference DC; both transcripts folded through Online!Step by "
        "TraceOnline (TLC), results judged with the reference KEK; distinct = distinct configuration tuples",
    )


def selftest(ctx: Ctx) -> int:
    refdc.ensure_ntlm_users()
    from ..tracecheck import selftest_expect_reject

    good, bad = [], []
    for i, cfg in enumerate(configs(ctx, 8)):
        row = one_call(ctx, cfg)
        row["id"] = i
        good.append(row)
        b = copy.deepcopy(row)
        b["id"] = 100 + i
        gk = [e for e in b["sync"] if e["ev"] == "request" and e["kind"] == "get_key"][0]
        if i % 4 == 0:
            gk["l2"] = (gk["l2"] + 1) % 32
        elif i % 4 == 1:
            gk["vtCmds"] = []
        elif i % 4 == 2:
            gk["authLevel"] = 5
        else:
            b["sync"] = [e for e in b["sync"] if e["ev"] != "alter_context"] if cfg["proto"] == "ntlm" else b["sync"][:-1]
        bad.append(b)
    selftest_expect_reject(ctx, "TraceOnline", "TraceOnline.cfg", good, bad, "c17")
    print("selftest C17 ok")
    return 0
