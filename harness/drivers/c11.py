"""C11 — MS-GKDI structures and GetKey stubs have exactly the specified byte layout.

Spec: spec/GkdiStructs.tla (layouts + independent decoders; NDR64 stubs as relations).
TLC:  spec/MC_GkdiStructs.tla (Unpack(Pack(x)) = x, lengths, alignment, known vectors).
Bind: generated field values -> spec/ExportGkdiStructs.tla renders the bytes fed to the real
      decoders (so the driver has no encoder) -> the real pack()/unpack()/GetKey.pack/
      GetKey.unpack/GetKey.unpack_response/_process_get_key_result run -> spec/TraceGkdiStructs.tla
      (TLC) decides every row.  tests/data/{group_key_envelope,ffc_dh_parameters,ffc_dh_key,
      ecdh_key} calibrate the spec's layouts and decoders.
"""
from __future__ import annotations

import concurrent.futures as cf
import json
import typing as t
import uuid

from ..core import REPO, Ctx, MachineryError, write_ndjson
from ..tlc import require_ok, run_tlc
from ..tracecheck import selftest_expect_reject, validate

P32 = 1 << 32


# ---- abstract representation (see GkdiStructs.tla) --------------------------------------------
def digits(n: int) -> list[int]:
    if not isinstance(n, int) or isinstance(n, bool) or n < 0:
        raise TypeError(f"not an unsigned integer: {n!r}")
    return [int(c) for c in str(n)]


def undigits(d: t.Sequence[int]) -> int:
    return int("".join(str(c) for c in d))


def cps(s: str) -> list[int]:
    if not isinstance(s, str):
        raise TypeError(f"not text: {s!r}")
    return [ord(c) for c in s]


def mag(n: int) -> list[int]:
    if not isinstance(n, int) or isinstance(n, bool) or n < 0:
        raise TypeError(f"not an unsigned integer: {n!r}")
    return list(n.to_bytes((n.bit_length() + 7) // 8, "big"))


def unmag(m: t.Sequence[int]) -> int:
    return int.from_bytes(bytes(m), "big")


def blist(b: t.Any) -> list[int]:
    if not isinstance(b, (bytes, bytearray, memoryview)):
        raise TypeError(f"not bytes: {b!r}")
    return list(bytes(b))


def s32(v: t.Any) -> int:
    if not isinstance(v, int) or isinstance(v, bool) or not -(1 << 31) <= v < (1 << 31):
        raise TypeError(f"not a LONG: {v!r}")
    return v


def txt(c: t.Sequence[int]) -> str:
    return "".join(chr(x) for x in c)


# ---- value pools ---------------------------------------------------------------------------------
U32S = [0, 1, 2, 255, 256, 361, 65535, 65536, (1 << 31) - 1, 1 << 31, P32 - 2, P32 - 1]
TEXTS = ["", "A", "d", "domain.test", "SP800_108_CTR_HMAC", "DH", "ECDH_P256", "SHA512", "\U0001F600", "a\U00010000b",
         "\U0010FFFF", "\uffff", "\ud7ff\ue000", "\xe9", "\u5b50\u57df.test", "x" * 40, "a\x00b", "\U0001F600" * 5,
         "\ufeffdomain.test", "\ufffex", "\ufeff", "a\ufeffb"]       # UTF-16LE text may begin with U+FEFF / U+FFFE: characters, not byte order marks
BLENS = [0, 1, 2, 3, 5, 7, 8, 9, 15, 16, 17, 31, 32, 33, 64]
KLENS = [0, 1, 2, 3, 5, 8, 16, 32, 48, 66]
LONGS = [-1, 0, 1, 31, 32, 361, (1 << 31) - 1, -(1 << 31), -2, 255, 256, -256, 65536]


def r_u32(rng: t.Any) -> int:
    return rng.choice(U32S) if rng.random() < 0.45 else rng.getrandbits(rng.choice([8, 16, 24, 31, 32]))


def r_char(rng: t.Any) -> str:
    k = rng.randrange(6)
    if k <= 2:
        return chr(rng.randrange(0x20, 0x7F))
    if k == 3:
        return chr(rng.randrange(0xA0, 0x800))
    if k == 4:
        c = rng.randrange(0x800, 0x10000)
        return chr(c if not 0xD800 <= c <= 0xDFFF else 0x4E00 + (c & 0xFF))
    return chr(rng.randrange(0x10000, 0x110000))


def r_text(rng: t.Any) -> str:
    if rng.random() < 0.5:
        return rng.choice(TEXTS)
    return "".join(r_char(rng) for _ in range(rng.randrange(0, 13)))


def r_bytes(rng: t.Any, big: int = 80) -> bytes:
    n = rng.choice(BLENS) if rng.random() < 0.6 else rng.randrange(0, big + 1)
    k = rng.randrange(4)
    if k == 0:
        return bytes(n)
    if k == 1:
        return b"\xff" * n
    return rng.randbytes(n)


def r_guid(rng: t.Any) -> bytes:
    k = rng.randrange(5)
    return bytes(16) if k == 0 else b"\xff" * 16 if k == 1 else rng.randbytes(16)


def r_klen(rng: t.Any) -> int:
    x = rng.random()
    return rng.choice(KLENS) if x < 0.8 else rng.randrange(0, 70) if x < 0.985 else rng.choice([128, 256])


def r_int(rng: t.Any, k: int) -> int:
    """integer that fits k bytes, with emphasis on leading zero bytes and the extremes"""
    if k == 0:
        return 0
    c = rng.randrange(7)
    if c == 0:
        return 0
    if c == 1:
        return 1
    if c == 2:
        return (1 << (8 * k)) - 1
    if c == 3:
        return 1 << (8 * k - 1)
    if c == 4:
        return rng.getrandbits(8 * rng.randrange(1, k + 1))          # leading zero bytes
    if c == 5:
        return rng.getrandbits(8 * k) >> rng.randrange(0, 8)
    return rng.getrandbits(8 * k)


def r_long(rng: t.Any) -> int:
    return rng.choice(LONGS) if rng.random() < 0.6 else rng.randrange(-(1 << 31), 1 << 31)


# ---- per-kind: generator of abstract fields, abstract -> real object, real object -> abstract ----------
def gen_kid(rng: t.Any) -> dict:
    return {"version": digits(r_u32(rng)), "flags": digits(r_u32(rng)), "l0": digits(r_u32(rng)), "l1": digits(r_u32(rng)),
            "l2": digits(r_u32(rng)), "root_key_identifier": list(r_guid(rng)), "key_info": list(r_bytes(rng)),
            "domain_name": cps(r_text(rng)), "forest_name": cps(r_text(rng))}


def gen_env(rng: t.Any, l2_len: t.Optional[int] = None) -> dict:
    small = rng.random() < 0.9
    return {"version": digits(r_u32(rng)), "flags": digits(r_u32(rng)), "l0": digits(r_u32(rng)), "l1": digits(r_u32(rng)),
            "l2": digits(r_u32(rng)), "root_key_identifier": list(r_guid(rng)),
            "kdf_algorithm": cps(r_text(rng)), "kdf_parameters": list(r_bytes(rng, 40)),
            "secret_algorithm": cps(r_text(rng)), "secret_parameters": list(r_bytes(rng, 40 if small else 300)),
            "private_key_length": digits(r_u32(rng)), "public_key_length": digits(r_u32(rng)),
            "domain_name": cps(r_text(rng)), "forest_name": cps(r_text(rng)),
            "l1_key": list(r_bytes(rng, 64)), "l2_key": list(r_bytes(rng, 64) if l2_len is None else rng.randbytes(l2_len))}


def gen_kdf(rng: t.Any) -> dict:
    return {"hash_name": cps(rng.choice(["SHA1", "SHA256", "SHA384", "SHA512"]) if rng.random() < 0.3 else r_text(rng))}


def gen_ffcp(rng: t.Any) -> dict:
    k = r_klen(rng)
    return {"key_length": k, "field_order": mag(r_int(rng, k)), "generator": mag(r_int(rng, k))}


def gen_ffck(rng: t.Any) -> dict:
    k = r_klen(rng)
    return {"key_length": k, "field_order": mag(r_int(rng, k)), "generator": mag(r_int(rng, k)), "public_key": mag(r_int(rng, k))}


def gen_ecdh(rng: t.Any) -> dict:
    k = rng.choice([32, 48, 66]) if rng.random() < 0.5 else r_klen(rng)
    return {"curve_name": rng.choice(["P256", "P384", "P521"]), "key_length": k, "x": mag(r_int(rng, k)), "y": mag(r_int(rng, k))}


def gen_req(rng: t.Any, n: int) -> dict:
    c = rng.randrange(4)
    has = c != 0
    g = bytes(16) if c == 1 else rng.randbytes(16)
    return {"target_sd": list(rng.randbytes(n)), "has_root_key": has, "root_key_id": list(g) if has else [0] * 16,
            "l0": r_long(rng), "l1": r_long(rng), "l2": r_long(rng)}


def _u(g: t.Sequence[int]) -> uuid.UUID:
    return uuid.UUID(bytes=bytes(g))


def make(kind: str, x: dict) -> t.Any:
    from dpapi_ng import _gkdi as gkdi
    from dpapi_ng._blob import KeyIdentifier

    if kind == "kid":
        return KeyIdentifier(version=undigits(x["version"]), flags=undigits(x["flags"]), l0=undigits(x["l0"]),
                             l1=undigits(x["l1"]), l2=undigits(x["l2"]), root_key_identifier=_u(x["root_key_identifier"]),
                             key_info=bytes(x["key_info"]), domain_name=txt(x["domain_name"]), forest_name=txt(x["forest_name"]))
    if kind in ("env", "resp"):
        return gkdi.GroupKeyEnvelope(
            version=undigits(x["version"]), flags=undigits(x["flags"]), l0=undigits(x["l0"]), l1=undigits(x["l1"]),
            l2=undigits(x["l2"]), root_key_identifier=_u(x["root_key_identifier"]), kdf_algorithm=txt(x["kdf_algorithm"]),
            kdf_parameters=bytes(x["kdf_parameters"]), secret_algorithm=txt(x["secret_algorithm"]),
            secret_parameters=bytes(x["secret_parameters"]), private_key_length=undigits(x["private_key_length"]),
            public_key_length=undigits(x["public_key_length"]), domain_name=txt(x["domain_name"]),
            forest_name=txt(x["forest_name"]), l1_key=bytes(x["l1_key"]), l2_key=bytes(x["l2_key"]))
    if kind == "kdf":
        return gkdi.KDFParameters(hash_name=txt(x["hash_name"]))
    if kind == "ffcp":
        return gkdi.FFCDHParameters(key_length=x["key_length"], field_order=unmag(x["field_order"]), generator=unmag(x["generator"]))
    if kind == "ffck":
        return gkdi.FFCDHKey(key_length=x["key_length"], field_order=unmag(x["field_order"]), generator=unmag(x["generator"]),
                             public_key=unmag(x["public_key"]))
    if kind == "ecdh":
        return gkdi.ECDHKey(curve_name=x["curve_name"], key_length=x["key_length"], x=unmag(x["x"]), y=unmag(x["y"]))
    if kind == "req":
        return gkdi.GetKey(target_sd=bytes(x["target_sd"]), root_key_id=_u(x["root_key_id"]) if x["has_root_key"] else None,
                           l0_key_id=x["l0"], l1_key_id=x["l1"], l2_key_id=x["l2"])
    raise MachineryError(kind)


def cls_of(kind: str) -> t.Any:
    from dpapi_ng import _gkdi as gkdi
    from dpapi_ng._blob import KeyIdentifier

    return {"kid": KeyIdentifier, "env": gkdi.GroupKeyEnvelope, "kdf": gkdi.KDFParameters, "ffcp": gkdi.FFCDHParameters,
            "ffck": gkdi.FFCDHKey, "ecdh": gkdi.ECDHKey, "req": gkdi.GetKey}[kind]


def _klen(v: t.Any) -> int:
    if not isinstance(v, int) or isinstance(v, bool) or not 0 <= v < (1 << 31):
        raise TypeError(f"key length {v!r}")
    return v


def abstract(kind: str, o: t.Any) -> dict:
    if kind == "kid":
        return {"version": digits(o.version), "flags": digits(o.flags), "l0": digits(o.l0), "l1": digits(o.l1), "l2": digits(o.l2),
                "root_key_identifier": list(o.root_key_identifier.bytes), "key_info": blist(o.key_info),
                "domain_name": cps(o.domain_name), "forest_name": cps(o.forest_name)}
    if kind in ("env", "resp"):
        return {"version": digits(o.version), "flags": digits(o.flags), "l0": digits(o.l0), "l1": digits(o.l1), "l2": digits(o.l2),
                "root_key_identifier": list(o.root_key_identifier.bytes), "kdf_algorithm": cps(o.kdf_algorithm),
                "kdf_parameters": blist(o.kdf_parameters), "secret_algorithm": cps(o.secret_algorithm),
                "secret_parameters": blist(o.secret_parameters), "private_key_length": digits(o.private_key_length),
                "public_key_length": digits(o.public_key_length), "domain_name": cps(o.domain_name),
                "forest_name": cps(o.forest_name), "l1_key": blist(o.l1_key), "l2_key": blist(o.l2_key)}
    if kind == "kdf":
        return {"hash_name": cps(o.hash_name)}
    if kind == "ffcp":
        return {"key_length": _klen(o.key_length), "field_order": mag(o.field_order), "generator": mag(o.generator)}
    if kind == "ffck":
        return {"key_length": _klen(o.key_length), "field_order": mag(o.field_order), "generator": mag(o.generator),
                "public_key": mag(o.public_key)}
    if kind == "ecdh":
        if not isinstance(o.curve_name, str):
            raise TypeError("curve name")
        return {"curve_name": o.curve_name, "key_length": _klen(o.key_length), "x": mag(o.x), "y": mag(o.y)}
    if kind == "req":
        has = o.root_key_id is not None
        return {"target_sd": blist(o.target_sd), "has_root_key": has, "root_key_id": list(o.root_key_id.bytes) if has else [0] * 16,
                "l0": s32(o.l0_key_id), "l1": s32(o.l1_key_id), "l2": s32(o.l2_key_id)}
    raise MachineryError(kind)


def _zero_like(x: dict) -> dict:
    out: dict = {}
    for k, v in x.items():
        out[k] = [] if isinstance(v, list) else (False if isinstance(v, bool) else ("" if isinstance(v, str) else 0))
    return out


def _try(fn: t.Callable[[], t.Any]) -> tuple[str, t.Any]:
    try:
        return "ok", fn()
    except Exception as e:  # noqa
        return type(e).__name__, None


# ---- case generation -----------------------------------------------------------------------------------------
def cases(ctx: Ctx) -> list[dict]:
    rng = ctx.rng
    out: list[dict] = []
    n_struct = ctx.pick(1000, 20000)
    gens = {"kid": gen_kid, "env": gen_env, "kdf": gen_kdf, "ffcp": gen_ffcp, "ffck": gen_ffck, "ecdh": gen_ecdh}
    for kind, g in gens.items():
        for i in range(n_struct if kind not in ("kdf",) else min(n_struct, 4000)):
            out.append({"id": f"{kind}{i}", "kind": kind, "x": g(rng)})
    # GetKey request: every SD length residue mod 8 many times, real target SD sizes, each pointer / LONG shape
    n_req = ctx.pick(1000, 20000)
    for i in range(n_req):
        n = i % 48 if i < n_req // 2 else rng.choice([0, 1, 7, 8, 9, 76, 80, 84, 88, 92, 96, 100, 104, 108, 112, 136, rng.randrange(0, 160)])
        x = gen_req(rng, n)
        p = -n % 8
        zero = rng.random() < 0.3
        out.append({"id": f"req{i}", "kind": "req", "x": x, "fill4": [0] * 4 if zero else list(rng.randbytes(4)),
                    "fillp": [0] * p if zero else list(rng.randbytes(p)),
                    "ref": [0, 0, 2, 0, 0, 0, 0, 0] if zero else _nonzero_ref(rng)})
    # GetKey response: every envelope length residue mod 8 x {no trailer, auth pad 0..15}
    n_env = ctx.pick(8, 150)
    k = 0
    for r in range(8):
        for j in range(n_env):
            x = gen_env(rng, 0)
            base = _env_len(x)
            x["l2_key"] = list(rng.randbytes((r - base) % 8 + 8 * rng.randrange(0, 5)))
            if _env_len(x) % 8 != r:
                raise MachineryError("envelope length residue")
            zero = rng.random() < 0.3
            m = _env_len(x)
            for pad in [None] + list(range(16)):
                out.append({"id": f"resp{k}", "kind": "resp", "x": x, "fill4": [0] * 4 if zero else list(rng.randbytes(4)),
                            "ref": [0, 0, 2, 0, 0, 0, 0, 0] if zero else _nonzero_ref(rng),
                            "fillq": [0] * (-m % 4) if zero else list(rng.randbytes(-m % 4)), "hresult": [0] * 4,
                            "trailer": pad is not None,
                            "authpad": [] if not pad else ([0] * pad if rng.random() < 0.5 else list(rng.randbytes(pad)))})
                k += 1
    return out


def _nonzero_ref(rng: t.Any) -> list[int]:
    k = rng.randrange(4)
    b = b"\x01" + bytes(7) if k == 0 else bytes(7) + b"\x80" if k == 1 else rng.randbytes(8)
    return list(b if any(b) else b"\x01" * 8)


def _env_len(x: dict) -> int:
    def z(c: list[int]) -> int:
        return 2 * sum(2 if v >= 0x10000 else 1 for v in c) + 2

    return (80 + z(x["kdf_algorithm"]) + len(x["kdf_parameters"]) + z(x["secret_algorithm"]) + len(x["secret_parameters"])
            + z(x["domain_name"]) + z(x["forest_name"]) + len(x["l1_key"]) + len(x["l2_key"]))


# ---- phase A: the spec renders the bytes fed to the decoders -------------------------------------------------------
def export(ctx: Ctx, cs: list[dict], chunk: int, what: str = "export") -> dict[str, bytes]:
    files = []
    for k in range(0, len(cs), chunk):
        pin = ctx.rundir / f"ExportGkdiStructs-{what}-{k // chunk:04d}.in.ndjson"
        pout = ctx.rundir / f"ExportGkdiStructs-{what}-{k // chunk:04d}.out.ndjson"
        write_ndjson(pin, cs[k:k + chunk])
        if pout.exists():
            pout.unlink()
        files.append((pin, pout))

    def one(pp: tuple) -> t.Any:
        return run_tlc("ExportGkdiStructs", "ExportGkdiStructs.cfg", rundir=ctx.rundir, workers=1,
                       env={"IN_FILE": str(pp[0]), "OUT_FILE": str(pp[1])}, tag=pp[0].stem, heap="3g")

    fed: dict[str, bytes] = {}
    with cf.ThreadPoolExecutor(max_workers=min(12, len(files))) as ex:
        for (pin, pout), res in zip(files, ex.map(one, files)):
            if not res.ok or not pout.exists():
                raise MachineryError(f"export failed for {pin.name}: {res.errors[:3]}\n{res.out[-2000:]}")
            for line in open(pout):
                d = json.loads(line)
                fed[d["id"]] = bytes(d["bytes"])
            ctx.cov["tlc_runs"].append({"what": f"spec renders decoder inputs {pin.name}", "module": "ExportGkdiStructs",
                                        "wall_s": round(res.wall, 2)})
    missing = [c["id"] for c in cs if c["id"] not in fed]
    if missing:
        raise MachineryError(f"export did not render {missing[:5]}")
    return fed


# ---- phase B: the real code --------------------------------------------------------------------------------------------
def _response(stub: bytes, pad: t.Optional[int]) -> t.Any:
    import dpapi_ng._rpc as rpc

    tr = None
    if pad is not None:
        tr = rpc.SecTrailer(type=rpc.SecurityProvider.RPC_C_AUTHN_WINNT, level=rpc.AuthenticationLevel.RPC_C_AUTHN_LEVEL_PKT_PRIVACY,
                            pad_length=pad, context_id=0, auth_value=b"\x01" + bytes(15))
    hdr = rpc.PDUHeader(version=5, version_minor=0, packet_type=rpc.PacketType.RESPONSE,
                        packet_flags=rpc.PacketFlags.PFC_FIRST_FRAG | rpc.PacketFlags.PFC_LAST_FRAG, data_rep=rpc.DataRep(),
                        frag_len=24 + len(stub) + (24 if tr else 0), auth_len=16 if tr else 0, call_id=1)
    return rpc.Response(header=hdr, sec_trailer=tr, alloc_hint=len(stub), context_id=0, cancel_count=0, stub_data=stub)


def execute(c: dict, fed: bytes) -> dict:
    kind = c["kind"]
    row = dict(c)
    row["fed"] = list(fed)
    x = c["x"]
    if kind == "resp":
        from dpapi_ng import _client as client
        from dpapi_ng import _gkdi as gkdi

        k1, o1 = _try(lambda: gkdi.GetKey.unpack_response(fed))
        if k1 == "ok":
            k1, u1 = _try(lambda: abstract("env", o1))
            k1 = k1 if k1 == "ok" else "shape:" + k1
        pad = len(c["authpad"]) if c["trailer"] else None
        k2, o2 = _try(lambda: client._process_get_key_result(_response(fed + bytes(c["authpad"]), pad)))
        if k2 == "ok":
            k2, u2 = _try(lambda: abstract("env", o2))
            k2 = k2 if k2 == "ok" else "shape:" + k2
        row.update(k1=k1, u1=u1 if k1 == "ok" else _zero_like(x), k2=k2, u2=u2 if k2 == "ok" else _zero_like(x))
        return row
    pk, real = _try(lambda: make(kind, x).pack())
    if pk == "ok" and not isinstance(real, (bytes, bytearray)):
        pk, real = "not_bytes", None
    uk, o = _try(lambda: cls_of(kind).unpack(fed))
    un = None
    if uk == "ok":
        uk, un = _try(lambda: abstract(kind, o))
        uk = uk if uk == "ok" else "shape:" + uk
    row.update(pk=pk, real=list(real) if pk == "ok" else [], uk=uk, un=un if uk == "ok" else _zero_like(x))
    return row


CALIB = {"calib_env": "group_key_envelope", "calib_ffcp": "ffc_dh_parameters", "calib_ffck": "ffc_dh_key", "calib_ecdh": "ecdh_key"}


def calib_rows() -> list[dict]:
    return [{"id": k, "kind": k, "bytes": list((REPO / "tests/data" / f).read_bytes())} for k, f in CALIB.items()]


def _check_calibration(bad: dict, stats: list[dict]) -> str:
    got = {}
    for st in stats:
        for item in st.get("calib", []):
            got[item[0]] = item[1:]
    if any(k in bad for k in CALIB) or set(got) != set(CALIB):
        raise MachineryError(f"calibration: spec layouts do not reproduce tests/data files: {[(k, bad.get(k)) for k in CALIB]} {sorted(got)}")
    env = got["calib_env"]
    f = env[0]
    ok = (undigits(f["l0"]) == 361 and undigits(f["l1"]) == 17 and undigits(f["l2"]) == 8 and txt(f["domain_name"]) == "domain.test"
          and txt(f["kdf_algorithm"]) == "SP800_108_CTR_HMAC" and txt(f["secret_algorithm"]) == "DH"
          and undigits(f["public_key_length"]) == 2048 and txt(env[1]) == "SHA512" and env[2] == 256
          and str(_u(f["root_key_identifier"])) == "d778c271-9025-9a82-f6dc-b8960b8ad8c5"
          and got["calib_ffcp"] == [256] and got["calib_ffck"] == [256] and got["calib_ecdh"] == [32])
    if not ok:
        raise MachineryError(f"calibration landmarks (tests/test_gkdi.py values) not found by the spec decoder: {got}")
    return ("tests/data group_key_envelope / ffc_dh_parameters / ffc_dh_key / ecdh_key: Pack(Unpack(bytes)) = bytes, nested KDF / "
            "FFC parameters readable, landmarks L0=361 L1=17 L2=8 domain.test SHA512 key lengths 256/256/32")


def _first_diff(a: bytes, b: bytes) -> int:
    for i, (p, q) in enumerate(zip(a, b)):
        if p != q:
            return i
    return min(len(a), len(b))


def run(ctx: Ctx) -> int:
    r = run_tlc("MC_GkdiStructs", "MC_GkdiStructs.cfg", rundir=ctx.rundir, workers=1)
    require_ok(r, "GkdiStructs lemmas")
    lem = r.tagged("LEMMAS")
    if not lem:
        raise MachineryError("MC_GkdiStructs did not report")
    ctx.add_tlc(r, f"GkdiStructs lemmas over {lem[0][0]}: Unpack(Pack(x)) = x for all six structures, lengths, UTF-16 surrogates, "
                   "two's complement LONGs, GUID byte order, NDR64 request / response alignment (8-byte items at 0 mod 8) for SD / "
                   "envelope lengths 0..25 with arbitrary filler and referent, test-suite vectors")

    cs = cases(ctx)
    fed = export(ctx, cs, chunk=ctx.pick(800, 9000))
    rows = [execute(c, fed[c["id"]]) for c in cs]
    nexec = sum(3 if c["kind"] == "resp" else 2 for c in cs)
    ctx.count(nexec)
    for c in cs:
        ctx.distinct((c["kind"], json.dumps(c["x"], sort_keys=True), c.get("trailer"), len(c.get("authpad", []))))
    ctx.cov["cases_per_kind"] = {k: sum(1 for c in cs if c["kind"] == k) for k in ("kid", "env", "kdf", "ffcp", "ffck", "ecdh", "req", "resp")}
    ctx.cov["sd_length_residues"] = sorted({len(c["x"]["target_sd"]) % 8 for c in cs if c["kind"] == "req"})
    ctx.cov["envelope_length_residues"] = sorted({_env_len(c["x"]) % 8 for c in cs if c["kind"] == "resp"})

    bad, stats = validate(ctx, "TraceGkdiStructs", "TraceGkdiStructs.cfg", calib_rows() + rows, chunk=ctx.pick(800, 9000), what="structs")
    ctx.cov["calibration"] = _check_calibration(bad, stats)
    nz = sum(st.get("nonzero_filler", 0) for st in stats)
    if nz:
        ctx.note_drift("request stub uses non-zero alignment filler (allowed)", nz)

    by = {r_["id"]: r_ for r_ in rows}
    groups: dict[str, list] = {}
    for rid, clauses in bad.items():
        if any(c.startswith("MACHINERY") for c in clauses):
            raise MachineryError(f"malformed trace line / fed bytes not the spec encoding: {rid} {clauses}")
        for c in clauses:
            groups.setdefault(f"{by[rid]['kind']}:{c}", []).append(by[rid])
    for key, items in sorted(groups.items()):
        row = min(items, key=lambda r_: len(r_["fed"]))
        kind = row["kind"]
        if kind == "resp":
            detail = (f"{len(items)} rows; e.g. envelope of {_env_len(row['x'])} bytes, trailer={row['trailer']} auth pad "
                      f"{len(row['authpad'])}: unpack_response -> {row['k1']}, _process_get_key_result -> {row['k2']}; "
                      f"reply stub {bytes(row['fed']).hex()}")
            if row["k2"] == "ok":
                diff = [f for f in row["x"] if row["u2"][f] != row["x"][f]]
                detail += f"; fields differing after _process_get_key_result: {diff}"
        else:
            fedb, real = bytes(row["fed"]), bytes(row["real"])
            detail = (f"{len(items)} rows; e.g. fields {json.dumps(row['x'])[:500]}: pack -> {row['pk']} {real.hex()[:400]}; "
                      f"layout ({'one admissible rendering' if kind == 'req' else 'spec'}) {fedb.hex()[:400]}; first difference at offset "
                      f"{_first_diff(real, fedb)}; unpack(layout bytes) -> {row['uk']}")
            if row["uk"] == "ok":
                detail += f" fields differing: {[f for f in row['x'] if row['un'][f] != row['x'][f]]}"
        ctx.violation(key, key.split(":", 1)[1], {k: v for k, v in row.items()}, detail)
    for kind in ("kid", "env", "req", "resp"):
        row = next(r_ for r_ in rows if r_["kind"] == kind)
        ctx.sample({"kind": kind, "fields": json.dumps(row["x"])[:300], "fed": bytes(row["fed"]).hex()[:200]})
    ctx.assume("u32 fields are given to TLC as decimal digits, big integers as minimal big-endian magnitudes (Python int.to_bytes), "
               "text as code points; the bytes fed to the real decoders are rendered by TLC from GkdiStructs.tla")
    ctx.assume("dpapi_ng._rpc.Response / SecTrailer objects are constructed directly (PDU parsing is C12's subject)")
    return ctx.finish(
        rule="per structure: seeded random field values over boundary pools (0 / 2^32-1, empty / non-BMP / long text, empty / odd / "
             "long byte fields, integers with leading zero bytes, key lengths 0..256); GetKey request: SD lengths in every residue "
             "mod 8 x null / nil / random root key id x boundary LONGs; reply: envelope lengths in every residue mod 8 x {no trailer, "
             "auth pad 0..15}; each case runs pack + unpack (reply: unpack_response + _process_get_key_result); distinct = distinct "
             "(kind, fields, pad)")


def selftest(ctx: Ctx) -> int:
    ctx.tier = "quick"
    rng = ctx.rng
    cs: list[dict] = []
    gens = {"kid": gen_kid, "env": gen_env, "kdf": gen_kdf, "ffcp": gen_ffcp, "ffck": gen_ffck, "ecdh": gen_ecdh}
    for kind, g in gens.items():
        for i in range(6):
            cs.append({"id": f"{kind}{i}", "kind": kind, "x": g(rng)})
    for i in range(10):
        x = gen_req(rng, i)
        x["has_root_key"], x["root_key_id"] = (i % 2 == 0), (list(rng.randbytes(16)) if i % 2 == 0 else [0] * 16)
        cs.append({"id": f"req{i}", "kind": "req", "x": x, "fill4": [0] * 4, "fillp": [0] * (-i % 8), "ref": [0, 0, 2, 0, 0, 0, 0, 0]})
    for i in range(8):
        x = gen_env(rng, i)
        m = _env_len(x)
        cs.append({"id": f"resp{i}", "kind": "resp", "x": x, "fill4": [0] * 4, "ref": [0, 0, 2, 0, 0, 0, 0, 0], "fillq": [0] * (-m % 4),
                   "hresult": [0] * 4, "trailer": True, "authpad": [0] * i})
    fed = export(ctx, cs, chunk=100, what="selftest")
    good, corrupted = [], []
    for n, c in enumerate(cs):
        b = fed[c["id"]]
        row = dict(c, fed=list(b))
        if c["kind"] == "resp":
            row.update(k1="ok", u1=c["x"], k2="ok", u2=c["x"])
            good.append(row)
            u = dict(c["x"])
            u["l2_key"] = u["l2_key"][:-1] if u["l2_key"] else [0]
            corrupted.append(dict(row, id=row["id"] + "-u2", u2=u))                 # envelope sliced off by the padding
            corrupted.append(dict(row, id=row["id"] + "-k1", k1="ValueError"))
            continue
        row.update(pk="ok", real=list(b), uk="ok", un=c["x"])
        good.append(row)
        bb = list(b)
        bb[len(bb) - 1 if c["kind"] == "req" else len(bb) // 2] ^= 1      # (the middle of a request may be free filler)
        corrupted.append(dict(row, id=row["id"] + "-flip", real=bb))
        corrupted.append(dict(row, id=row["id"] + "-trunc", real=list(b[:-1])))
        corrupted.append(dict(row, id=row["id"] + "-exc", pk="OverflowError", real=[]))
        f = sorted(c["x"])[n % len(c["x"])]
        v = c["x"][f]
        nv = (not v) if isinstance(v, bool) else (v + 1 if isinstance(v, int) else ("P384" if v == "P256" else "P256") if isinstance(v, str)
                                                   else (v + [1] if f != "root_key_id" and f != "root_key_identifier" else [v[0] ^ 1] + v[1:]))
        corrupted.append(dict(row, id=row["id"] + "-field", un=dict(c["x"], **{f: nv})))
        if c["kind"] == "req":
            n_sd = len(c["x"]["target_sd"])
            corrupted.append(dict(row, id=row["id"] + "-pad4", real=list(b[:16 + n_sd]) + [0] * (-n_sd % 4) + list(b[16 + n_sd + (-n_sd % 8):])
                                  if n_sd % 8 not in (0, 5, 6, 7) else list(b) + [0]))
            if c["x"]["has_root_key"]:
                po = 16 + n_sd + (-n_sd % 8)
                corrupted.append(dict(row, id=row["id"] + "-nullref", real=list(b[:po]) + [0] * 8 + list(b[po + 8:])))
    good += calib_rows()
    cr = calib_rows()[0]
    cr2 = dict(cr, id="calib_env", bytes=cr["bytes"][:-1])
    selftest_expect_reject(ctx, "TraceGkdiStructs", "TraceGkdiStructs.cfg", good, corrupted + [cr2], "c11")
    # fed bytes that are not the spec encoding are machinery, not a verdict
    mis = [dict(good[0], id="misfed", fed=good[0]["fed"] + [0])]
    bad, _ = validate(ctx, "TraceGkdiStructs", "TraceGkdiStructs.cfg", mis, what="c11-misfed", count_traces=False)
    if "MACHINERY_fed_bytes_are_not_the_spec_encoding" not in bad.get("misfed", []):
        raise MachineryError("selftest: wrong fed bytes not reported")
    print(f"selftest C11 ok: {len(good)} good rows accepted, {len(corrupted) + 1} corrupted rows rejected")
    return 0
