"""C20 — DC discovery asks the right SRV name and picks the best record.

Spec: spec/Dns.tla (QueryName, Strip, BestIdx / IsBest, RefChoice).
TLC:  spec/MC_Dns.tla enumerates every answer sequence of length 1..3 (quick) / 1..4 (thorough)
      over priorities {0,1,2} x weights {0,1,2} x trailing dot on/off with distinct targets
      (length 5 by -simulate), checks RefIsBest / PermutationInvariant on each and emits it with
      its set of acceptable indices; the code / target tables are printed by TLC too.
Bind: every emitted sequence is replayed through the real lookup_dc and async_lookup_dc
      (domain given / not given) with the resolver entry points replaced by recording fakes that
      return real dns.rdtypes.IN.SRV.SRV rdata; the recorded rows are decided by TLC with
      spec/TraceDns.tla.  The acceptable set emitted by the generator is only used as a
      cross-check of the machinery against the trace verdict.
"""
from __future__ import annotations

import asyncio
import contextlib
import typing as t

from ..core import Ctx, MachineryError
from ..tlc import require_ok, run_tlc
from ..tracecheck import selftest_expect_reject, validate

_ARGNAMES = ["qname", "rdtype", "rdclass", "tcp", "source", "raise_on_no_answer", "source_port", "lifetime", "search"]


class Answer(list):
    """Stands for dns.resolver.Answer: iterating it yields the rdata of the answer RRset."""

    @property
    def rrset(self) -> "Answer":
        return self


class Taps:
    """Replaces every public way into the stub resolver in this process."""

    def __init__(self) -> None:
        self.calls: list[dict] = []
        self.answer: Answer = Answer()
        self.fail_first: t.Optional[str] = None        # "nxdomain" | "noanswer": what the resolver reports for the FIRST query

    def _record(self, flavour: str, args: tuple, kwargs: dict) -> Answer:
        import dns.name
        import dns.rdatatype

        d = dict(zip(_ARGNAMES, args))
        d.update(kwargs)
        q = d.get("qname")
        rt = d.get("rdtype", "A")
        try:
            rt = dns.rdatatype.RdataType.make(rt).name
        except Exception:  # noqa
            rt = repr(rt)
        s = d.get("search", "absent")
        self.calls.append({
            "flavour": flavour,
            "qname": q.to_text() if isinstance(q, dns.name.Name) else str(q),
            "qname_type": type(q).__name__,
            "rdtype": rt,
            "search": "absent" if s == "absent" or s is None else ("true" if s is True else "false"),
            "kwargs": sorted(k for k in d if k not in ("qname", "rdtype")),
        })
        if self.fail_first and len(self.calls) == 1:
            import dns.resolver

            raise dns.resolver.NXDOMAIN() if self.fail_first == "nxdomain" else dns.resolver.NoAnswer()
        return self.answer

    @contextlib.contextmanager
    def installed(self) -> t.Iterator[None]:
        import dns.asyncresolver
        import dns.resolver

        taps = self

        def sync_resolve(*a: t.Any, **k: t.Any) -> Answer:
            return taps._record("sync", a, k)

        async def async_resolve(*a: t.Any, **k: t.Any) -> Answer:
            return taps._record("async", a, k)

        def sync_method(self_: t.Any, *a: t.Any, **k: t.Any) -> Answer:
            return taps._record("sync", a, k)

        async def async_method(self_: t.Any, *a: t.Any, **k: t.Any) -> Answer:
            return taps._record("async", a, k)

        saved = [
            (dns.resolver, "resolve", dns.resolver.resolve),
            (dns.asyncresolver, "resolve", dns.asyncresolver.resolve),
            (dns.resolver.Resolver, "resolve", dns.resolver.Resolver.resolve),
            (dns.asyncresolver.Resolver, "resolve", dns.asyncresolver.Resolver.resolve),
        ]
        dns.resolver.resolve = sync_resolve  # type: ignore
        dns.asyncresolver.resolve = async_resolve  # type: ignore
        dns.resolver.Resolver.resolve = sync_method  # type: ignore
        dns.asyncresolver.Resolver.resolve = async_method  # type: ignore
        try:
            yield
        finally:
            for obj, name, val in saved:
                setattr(obj, name, val)


def _cp(s: str) -> list[int]:
    return [ord(c) for c in s]


def _txt(cp: t.Sequence[int]) -> str:
    return "".join(chr(c) for c in cp)


def make_rdata(prio: int, weight: int, port: int, target: str) -> t.Any:
    import dns.name
    import dns.rdataclass
    import dns.rdatatype
    from dns.rdtypes.IN.SRV import SRV

    # origin=None keeps a name without trailing dot relative, as a resolver configured with
    # relativization would hand it over; with the dot it is the usual absolute name
    return SRV(dns.rdataclass.IN, dns.rdatatype.SRV, prio, weight, port, dns.name.from_text(target, origin=None))


def _res_of(x: t.Any) -> tuple[str, dict]:
    try:
        return "record", {"prio": int(x.priority), "weight": int(x.weight), "port": int(x.port), "target": _cp(str(x.target))}
    except Exception as e:  # noqa
        return "shape:" + type(e).__name__, {"prio": 0, "weight": 0, "port": 0, "target": []}


_EMPTY_RES = {"prio": 0, "weight": 0, "port": 0, "target": []}


def replay_one(taps: Taps, loop: asyncio.AbstractEventLoop, dnsmod: t.Any, rid: t.Any, recs: list[tuple[int, int, int, str]],
               domain: t.Optional[str], fail: str = "none") -> dict:
    rdatas = [make_rdata(*r) for r in recs]
    # what is handed to the code is read back from the rdata objects themselves
    answers = [{"prio": rd.priority, "weight": rd.weight, "port": rd.port, "target": _cp(str(rd.target))} for rd in rdatas]
    row: dict = {"id": rid, "domain": _cp(domain) if domain else [], "answers": answers, "fail": fail}
    for key, flavour in (("s", "sync"), ("a", "async")):
        taps.calls = []
        taps.answer = Answer(rdatas)
        taps.fail_first = None if fail == "none" else fail
        args = (domain,) if domain is not None else ()
        try:
            if flavour == "sync":
                out, res = _res_of(dnsmod.lookup_dc(*args))
            else:
                out, res = _res_of(loop.run_until_complete(dnsmod.async_lookup_dc(*args)))
        except Exception as e:  # noqa
            out, res = type(e).__name__, dict(_EMPTY_RES)
        calls = [c for c in taps.calls]
        first = calls[0] if calls else {"qname": "", "rdtype": "", "search": "absent", "flavour": flavour}
        if domain and first["qname"].endswith(".") and not domain.endswith("."):
            # the same owner name written as an absolute name: not a different query
            first = dict(first, qname=first["qname"][:-1])
            row.setdefault("drift", []).append("query name given as absolute name (trailing dot)")
        row[key] = {"n": len(calls), "qname": _cp(first["qname"]), "rdtype": first["rdtype"], "search": first["search"],
                    "via": first["flavour"], "out": out, "res": res, "qnames": [_cp(c["qname"]) for c in calls]}
    taps.fail_first = None
    return row


def _cases(ctx: Ctx) -> tuple[list[tuple[list[int], list[int]]], dict, list[dict], list[int]]:
    cfg = "MC_Dns_thorough.cfg" if ctx.thorough else "MC_Dns_quick.cfg"
    r = run_tlc("MC_Dns", cfg, rundir=ctx.rundir, workers=4)
    require_ok(r, f"Dns generator {cfg}")
    maxlen = 4 if ctx.thorough else 3
    want = sum(18 ** k for k in range(1, maxlen + 1))
    cases = [(c[0], sorted(c[1])) for c in r.tagged("CASE")]
    if len(cases) != want or r.distinct != want + 1:
        raise MachineryError(f"generator emitted {len(cases)} cases / {r.distinct} states, expected {want}")
    ctx.add_tlc(r, f"MC_Dns {cfg}: every answer sequence of length 1..{maxlen} over 3 priorities x 3 weights x dot on/off; "
                   "invariants RefIsBest, PermutationInvariant; each emitted with its acceptable indices")
    table = r.tagged("TABLE")[0][0]
    prefix = r.tagged("PREFIX")[0][0]
    # in -simulate TLC evaluates the CONSTRAINT (= emission) on all 18 successors of the state a walk is in, so one
    # walk of depth 5 emits a random 4-record prefix extended by each of the 18 possible 5th records
    nsim = ctx.pick(25, 400)
    rs = run_tlc("MC_Dns", "MC_Dns_sim.cfg", rundir=ctx.rundir, workers=1, simulate=f"num={nsim}", depth=6, seed=ctx.seed + 1,
                 tag="sim")
    require_ok(rs, "Dns generator simulation length 5")
    sim = sorted({(tuple(c[0]), tuple(sorted(c[1]))) for c in rs.tagged("CASE")})
    sim = [(list(a), list(b)) for a, b in sim]
    if len(sim) < 9 * nsim or any(len(c[0]) != 5 for c in sim):
        raise MachineryError(f"simulation emitted {len(sim)} length-5 cases for num={nsim}")
    ctx.add_tlc(rs, f"MC_Dns simulate num={nsim}: {len(sim)} answer sequences of length 5, same invariants")
    targets = rs.tagged("TARGETS")[0][0]
    return cases + sim, table, targets, prefix


DOMAINS = ["domain.test", "corp.example.com", "Domain.Test", "a.b", "corp", "LAB", "x"]     # also single-label names


def run(ctx: Ctx) -> int:
    taps = Taps()
    with taps.installed():
        import dpapi_ng._dns as dnsmod

        cases, table, targets, prefix = _cases(ctx)
        if _txt(prefix) != "_ldap._tcp.dc._msdcs":
            raise MachineryError(f"spec prefix renders as {_txt(prefix)!r}")
        ctx.cov["emitted_sequences"] = len(cases)
        loop = asyncio.new_event_loop()
        rows = []
        accept: dict[t.Any, tuple[list, list]] = {}
        try:
            for k, (codes, acc) in enumerate(cases):
                recs = []
                for i, c in enumerate(codes, start=1):
                    e = table[c]
                    # every third sequence: all records name one or two hosts (several SRV records for the same target)
                    tg = targets[i - 1] if k % 3 else targets[(i - 1) % (1 + (k // 3) % 2)]
                    recs.append((e["prio"], e["weight"], tg["port"], _txt(tg["dotted"] if e["dot"] else tg["plain"])))
                dom = DOMAINS[k % len(DOMAINS)]
                # "no domain given" is None or the empty string (what a blob protected offline carries)
                for tag, d in (("n", None), ("d", dom)) + ((("e", ""),) if k % 3 == 0 else ()):
                    rid = f"{k}{tag}"
                    rows.append(replay_one(taps, loop, dnsmod, rid, recs, d))
                    accept[rid] = (recs, acc)
                    ctx.distinct((tuple(codes), d is None))
                ctx.count(4 + (2 if k % 3 == 0 else 0))
                if k % 7 == 5:
                    # the resolver reports NXDOMAIN / no answer for the locator name: the lookup fails; it does not go on to ask
                    # for some other name (a DC of another domain would be the result)
                    fk = ("nxdomain", "noanswer")[(k // 7) % 2]
                    rid = f"{k}f"
                    rows.append(replay_one(taps, loop, dnsmod, rid, recs, dom if (k // 14) % 2 == 0 else None, fail=fk))
                    accept[rid] = (recs, acc)
                    ctx.count(2)
        finally:
            loop.close()

    for row in rows:
        for d in row.pop("drift", []):
            ctx.note_drift(d)
        for f in ("s", "a"):
            if row[f]["n"] and row[f]["via"] != ("sync" if f == "s" else "async"):
                ctx.note_drift(f"{'sync' if f == 's' else 'async'} lookup went through the other resolver flavour")
    bad, stats = validate(ctx, "TraceDns", "TraceDns.cfg", rows, chunk=ctx.pick(1100, 19000), what="dns")
    for st in stats:
        if st.get("tiebreak_differs"):
            ctx.note_drift("tie broken differently from the reference choice (allowed)", st["tiebreak_differs"])
        if st.get("extra_queries"):
            ctx.note_drift("more than one resolver call per lookup", st["extra_queries"])
    ctx.cov["rows_with_ties"] = sum(st.get("ties", 0) for st in stats)

    by = {r["id"]: r for r in rows}
    # machinery cross-check: the generator's acceptable set and the trace verdict must agree
    for row in rows:
        recs, acc = accept[row["id"]]
        if row["s"]["out"] != "record" or row["s"]["n"] == 0:
            continue      # no query observed: the trace verdict is "no_srv_query_made", nothing to cross-check
        res = row["s"]["res"]
        names = [t_.rstrip(".") for (_, _, _, t_) in recs]
        tgt = _txt(res["target"])
        in_acc = any(names[i - 1] == tgt and recs[i - 1][0] == res["prio"] and recs[i - 1][1] == res["weight"]
                     and recs[i - 1][2] == res["port"] for i in acc)
        sel = {"result_is_not_lowest_priority", "result_is_not_highest_weight_among_lowest_priority", "trailing_dot_not_removed",
               "port_weight_or_priority_altered", "result_is_not_a_record_of_the_answer"}
        tlc_ok = not (sel & set(bad.get(row["id"], [])))
        if in_acc != tlc_ok:
            raise MachineryError(f"generator's acceptable set and TraceDns disagree on {row['id']}: {recs} acc={acc} res={res} "
                                 f"clauses={bad.get(row['id'])}")

    groups: dict[str, list] = {}
    for rid, clauses in bad.items():
        if any(c.startswith("MACHINERY") for c in clauses):
            raise MachineryError(f"malformed trace line {by[rid]}")
        for c in clauses:
            groups.setdefault(c, []).append(by[rid])
    for clause, items in sorted(groups.items()):
        row = min(items, key=lambda r: (len(r["answers"]), str(r["id"])))
        f = row["a"] if clause.endswith("_async") else row["s"]
        ans = [(a["prio"], a["weight"], a["port"], _txt(a["target"])) for a in row["answers"]]
        res = (f["res"]["prio"], f["res"]["weight"], f["res"]["port"], _txt(f["res"]["target"]))
        detail = (f"{len(items)} rows; e.g. domain={_txt(row['domain']) or None!r} answers (prio, weight, port, target)={ans}: "
                  f"asked {_txt(f['qname'])!r} type {f['rdtype']} search={f['search']}; outcome {f['out']} "
                  f"{res if f['out'] == 'record' else ''}; sync={row['s']['res'] if row['s']['out'] == 'record' else row['s']['out']} "
                  f"async={row['a']['res'] if row['a']['out'] == 'record' else row['a']['out']}")
        ctx.violation(f"dns:{clause}", clause, {"domain": _txt(row["domain"]), "answers": ans, "sync": row["s"], "async": row["a"]},
                      detail)
    for row in (rows[0], rows[len(rows) // 2], rows[-1]):
        ctx.sample({"domain": _txt(row["domain"]) or None,
                    "answers": [(a["prio"], a["weight"], a["port"], _txt(a["target"])) for a in row["answers"]],
                    "asked": _txt(row["s"]["qname"]), "search": row["s"]["search"],
                    "result": (row["s"]["res"]["prio"], row["s"]["res"]["weight"], row["s"]["res"]["port"], _txt(row["s"]["res"]["target"]))})
    _api_level(ctx)
    ctx.assume("dns.resolver.resolve / dns.asyncresolver.resolve (and the Resolver.resolve methods) replaced in the driver process; "
               "the answer is an iterable of real dns.rdtypes.IN.SRV.SRV rdata; dnspython's own wire parsing is not exercised")
    return ctx.finish(
        rule="every answer sequence emitted by TLC (all of length 1..3 quick / 1..4 thorough, simulated length 5) x domain given / "
             "not given, each through lookup_dc and async_lookup_dc; distinct = distinct (sequence, domain given?)",
        exhaustive=True,
    )


API_CLAUSES = {"EXT_srv_query_name_for_blob_domain": "api_queries_srv_name_of_another_domain",
               "EXT_connects_to_given_server_or_best_srv_target": "api_does_not_connect_to_the_chosen_record"}


def _api_level(ctx: Ctx) -> None:
    """The use of the lookup by the public API (anchored in _client.py): without a server, unprotect asks for the DC of the
    domain the blob names (not its forest, not a default) and protect for the domain_name argument, and both connections go to
    the chosen record's target.  Conversation recorded by the reference DC, folded through Online!Step by TraceOnline."""
    from .. import refdc
    from . import c17

    refdc.ensure_ntlm_users()
    names = [("child.corp.test", "corp.test"), ("corp.test", "corp.test"), ("a.b", "b"), ("emea.example.com", "example.com"), ("x.test", "yy.test")]
    cfgs = c17.configs(ctx, ctx.pick(20, 160))
    rows = []
    for i, cfg in enumerate(cfgs):
        dom, forest = names[i % len(names)]
        cfg.update(dns=True, dc_error=False, domain=dom, forest=forest, upn=(i % 4 == 2))
        row = c17.one_call(ctx, cfg)
        row["id"] = i
        rows.append(row)
        ctx.distinct(("api", cfg["op"], dom, forest))
    ctx.count(2 * len(rows))
    bad, _ = validate(ctx, "TraceOnline", "TraceOnline.cfg", rows, chunk=60, what="dns-api")
    for i, clauses in bad.items():
        mine = [API_CLAUSES[c] for c in clauses if c in API_CLAUSES]
        for c in clauses:
            if c not in API_CLAUSES:
                ctx.note_drift("extended_behaviour:" + c)        # the rest of the online conversation is C17's subject
        if mine:
            r_, c = rows[i], cfgs[i]
            asked = [e.get("qname") for e in r_["sync"] + r_["async"] if e.get("ev") == "dns"]
            ctx.violation(f"dns:{mine[0]}:{c['op']}", ",".join(mine), {"op": c["op"], "domain": c["domain"], "forest": c["forest"], "asked": asked, "call": r_["call"]},
                          f"{c['op']} without a server, blob/argument domain {c['domain']!r} (forest {c['forest']!r}): SRV names asked {asked}, expected {r_['call']['qname']!r}, "
                          f"connections expected to {r_['call']['host']!r}")


def selftest(ctx: Ctx) -> int:
    def rec(p: int, w: int, port: int, tg: str) -> dict:
        return {"prio": p, "weight": w, "port": port, "target": _cp(tg)}

    def fl(q: str, search: str, res: dict, via: str) -> dict:
        return {"n": 1, "qname": _cp(q), "rdtype": "SRV", "search": search, "via": via, "out": "record", "res": res, "qnames": [_cp(q)]}

    good, corrupted = [], []
    answers = [rec(1, 2, 389, "dc1.d.test."), rec(0, 1, 3270, "dc2.d.test."), rec(0, 2, 389, "dc3.d.test"), rec(0, 2, 3272, "dc4.d.test.")]
    best = rec(0, 2, 389, "dc3.d.test")
    best2 = rec(0, 2, 3272, "dc4.d.test")
    for i, (dom, q) in enumerate((("", "_ldap._tcp.dc._msdcs"), ("domain.test", "_ldap._tcp.dc._msdcs.domain.test"))):
        for j, b in enumerate((best, best2)):
            g = {"id": f"g{i}{j}", "domain": _cp(dom), "answers": answers, "fail": "none", "s": fl(q, "true", b, "sync"), "a": fl(q, "true", b, "async")}
            good.append(g)

            def mut(name: str, **ch: t.Any) -> None:
                row = {"id": f"{name}{i}{j}", "domain": g["domain"], "answers": answers, "fail": "none", "s": dict(g["s"]), "a": dict(g["a"])}
                for k, v in ch.items():
                    side, field = k.split("_", 1)
                    row[side][field] = v
                corrupted.append(row)

            mut("prio", s_res=rec(1, 2, 389, "dc1.d.test"), a_res=rec(1, 2, 389, "dc1.d.test"))       # highest priority value
            mut("weight", s_res=rec(0, 1, 3270, "dc2.d.test"), a_res=rec(0, 1, 3270, "dc2.d.test"))   # lower weight
            mut("dot", s_res=rec(0, 2, 3272, "dc4.d.test."), a_res=rec(0, 2, 3272, "dc4.d.test."))    # dot kept
            mut("port", s_res=dict(b, port=636), a_res=dict(b, port=636))
            mut("async", a_res=best2 if b is best else best)                                          # flavours disagree
            mut("qname", s_qname=_cp("_ldap._tcp." + dom if dom else "_ldap._tcp.dc._msdcs."))
            mut("aqname", a_qname=_cp("_kerberos._tcp.dc._msdcs" + ("." + dom if dom else "")))
            mut("type", s_rdtype="A")
            mut("none", s_n=0)
            mut("fail", a_out="IndexError")
            if not dom:
                mut("search", s_search="absent")
    selftest_expect_reject(ctx, "TraceDns", "TraceDns.cfg", good, corrupted, "c20")
    # the taps really intercept the library's resolver calls
    taps = Taps()
    with taps.installed():
        import dpapi_ng._dns as dnsmod

        loop = asyncio.new_event_loop()
        try:
            row = replay_one(taps, loop, dnsmod, "x", [(1, 0, 389, "dc1.d.test."), (0, 5, 389, "dc2.d.test.")], "domain.test")
        finally:
            loop.close()
    if row["s"]["n"] < 1 or row["a"]["n"] < 1:
        raise MachineryError("selftest: resolver taps did not see the library's queries")
    print(f"selftest C20 ok: {len(good)} good rows accepted, {len(corrupted)} corrupted rows rejected, taps intercept both flavours")
    return 0
