"""C14 — replies reassemble identically under any TCP segmentation; EOF is an error."""
from __future__ import annotations

import asyncio
import typing as t
import uuid

from .. import taps
from .. import blobref, refdc, sdref
from ..core import Ctx, MachineryError
from ..tlc import require_actions, require_ok, run_tlc
from ..tracecheck import validate

SID = "S-1-5-21-2185496602-3367037166-1388177638-1103"
USER = f"{refdc.DOMAIN}\\{refdc.USER}"
READ_BUDGET = 400


class Spin(BaseException):
    pass


def cut(data: bytes, sched: list[int]) -> list[bytes]:
    out, off = [], 0
    for n in sched:
        out.append(data[off : off + n])
        off += n
    return out


# ---- scripted transports applying a schedule to the k-th reply -------------------------------------
class Plan:
    def __init__(self, target: int, sched: t.Optional[list[int]], limit: t.Optional[int]) -> None:
        self.target, self.sched, self.limit = target, sched, limit
        self.nreply = 0
        self.reads: list[int] = []
        self.L = -1
        self.target_bytes = b""

    def chunks_for(self, reply: bytes) -> tuple[list[bytes], bool]:
        """-> (chunks, eof_after)"""
        idx = self.nreply
        self.nreply += 1
        if idx != self.target or self.sched is None:
            if idx == self.target:
                self.L = len(reply)
                self.target_bytes = reply
            return [reply], False
        self.L = len(reply)
        self.target_bytes = reply
        if self.limit > len(reply) or sum(self.sched) != self.limit:
            raise MachineryError(f"schedule does not fit reply of {len(reply)} bytes: {self.sched} limit {self.limit}")
        return cut(reply[: self.limit], self.sched), self.limit < len(reply)


SEGMENT_GAP = 30.0     # virtual seconds between two TCP segments of one reply (slow link, busy peer)


class ChunkSocket:
    def __init__(self, conn: refdc.Connection, plan: Plan) -> None:
        self.conn, self.plan = conn, plan
        self.chunks: list[bytes] = []
        self.eof = False
        self.in_target = False
        self.nreads = 0
        self.timeout: t.Optional[float] = None
        self.at_boundary = False          # the previous segment has been consumed completely, the next one has not arrived yet

    def settimeout(self, v: t.Any) -> None:
        self.timeout = v

    def gettimeout(self) -> t.Optional[float]:
        return self.timeout

    def sendall(self, data: bytes) -> None:
        reply = self.conn.feed(bytes(data))
        if reply:
            self.in_target = self.plan.nreply == self.plan.target
            ch, eof = self.plan.chunks_for(reply)
            self.chunks = [c for c in ch if c]
            self.eof = eof

    def _take(self, n: int, flags: int = 0) -> bytes:
        import socket as _socket

        self.nreads += 1
        if self.nreads > READ_BUDGET:
            raise Spin()
        if flags & _socket.MSG_PEEK:
            # what has arrived so far, left in the buffer (a segment that has not arrived yet cannot be peeked at)
            if not self.chunks:
                if not self.eof and not self.in_target:
                    raise MachineryError("client reads although no reply is outstanding")
                return b""
            return self.chunks[0][:n]
        if not self.chunks:
            if self.in_target:
                self.plan.reads.append(0)
            if not self.eof and not self.in_target:
                raise MachineryError("client reads although no reply is outstanding")
            return b""
        if self.at_boundary and self.in_target and self.timeout is not None and SEGMENT_GAP > self.timeout:
            # virtual time: SEGMENT_GAP seconds pass between two segments of the reply; a blocking socket waits, a socket that
            # still carries a shorter timeout gives up exactly as a real one would
            raise TimeoutError("timed out")
        c = self.chunks[0]
        out = c[:n]
        if len(out) == len(c):
            self.chunks.pop(0)
            self.at_boundary = bool(self.chunks)
        else:
            self.chunks[0] = c[n:]
            self.at_boundary = False
        if self.in_target:
            self.plan.reads.append(len(out))
        return out

    def recv(self, n: int, flags: int = 0) -> bytes:
        return self._take(n, flags)

    def recv_into(self, buf: t.Any, nbytes: int = 0, flags: int = 0) -> int:
        mv = memoryview(buf)
        d = self._take(nbytes or len(mv), flags)
        mv[: len(d)] = d
        return len(d)

    def shutdown(self, how: int) -> None:
        pass

    def close(self) -> None:
        pass


class ChunkWriter:
    """asyncio flavour: segments are fed one per loop iteration so the client sees each boundary."""

    def __init__(self, conn: refdc.Connection, reader: asyncio.StreamReader, plan: Plan) -> None:
        self.conn, self.reader, self.plan = conn, reader, plan

    def write(self, data: bytes) -> None:
        reply = self.conn.feed(bytes(data))
        if not reply:
            return
        is_target = self.plan.nreply == self.plan.target
        ch, eof = self.plan.chunks_for(reply)
        ch = [c for c in ch if c]
        loop = asyncio.get_event_loop()

        def feed(i: int) -> None:
            if i < len(ch):
                self.reader.feed_data(ch[i])
                if is_target:
                    self.plan.reads.append(len(ch[i]))
                loop.call_soon(feed, i + 1)
            elif eof:
                self.reader.feed_eof()
                if is_target:
                    self.plan.reads.append(0)

        loop.call_soon(feed, 0)

    async def drain(self) -> None:
        return None

    def close(self) -> None:
        pass

    async def wait_closed(self) -> None:
        await asyncio.sleep(0)


class ChunkNet:
    """socket.create_connection / asyncio.open_connection replacement counting replies across connections."""

    def __init__(self, dc: refdc.DC, plan: Plan) -> None:
        self.dc, self.plan, self.n = dc, plan, 0

    def _conn(self, port: int) -> refdc.Connection:
        self.n += 1
        return refdc.Connection(self.dc, port, self.n)

    def create_connection(self, address: tuple, timeout: t.Any = None, *a: t.Any, **k: t.Any) -> ChunkSocket:
        sock = ChunkSocket(self._conn(address[1]), self.plan)
        sock.timeout = timeout if isinstance(timeout, (int, float)) else None      # socket.create_connection(timeout=...) leaves it set
        return sock

    async def open_connection(self, host: str, port: int = 0, **k: t.Any):
        reader = taps.CountingReader()
        return reader, ChunkWriter(self._conn(port), reader, self.plan)

    def __enter__(self) -> "ChunkNet":
        import socket

        self._o = (socket.create_connection, asyncio.open_connection)
        socket.create_connection = self.create_connection  # type: ignore
        asyncio.open_connection = self.open_connection  # type: ignore
        return self

    def __exit__(self, *a: t.Any) -> None:
        import socket

        socket.create_connection, asyncio.open_connection = self._o  # type: ignore


# ---- scenarios ------------------------------------------------------------------------------------
def _epm_contexts():
    from dpapi_ng._epm import EPM
    from dpapi_ng._rpc import NDR64, ContextElement

    return [ContextElement(context_id=0, abstract_syntax=EPM, transfer_syntaxes=[NDR64])]


def _ept_map_stub() -> bytes:
    import struct

    tw = refdc.tower_octets(refdc.tcp_tower(refdc.ISD_KEY, 135))
    return (struct.pack("<Q", 1) + b"\x00" * 16 + struct.pack("<QQI", 2, len(tw), len(tw)) + tw + b"\x00" * (-(len(tw) + 4) % 8)
            + b"\x00" * 20 + struct.pack("<I", 4))


class LowLevel:
    """SyncRpcClient / AsyncRpcClient driven directly (cheap: no authentication)."""

    def __init__(self, name: str, target: int, extra_towers: int = 0) -> None:
        self.name, self.target, self.extra = name, target, extra_towers

    def dc(self) -> refdc.DC:
        dc = refdc.DC()
        dc.epm_extra_towers = [refdc.tower_octets(refdc.tcp_tower(refdc.ISD_KEY, 50000 + i)) for i in range(self.extra)]
        return dc

    def steps_sync(self, client: t.Any) -> t.Any:
        r = client.bind(contexts=_epm_contexts())
        if self.name == "bind_ack":
            return r
        if self.name == "fault":
            return client.request(0, 77, b"\x00" * 8)
        return client.request(0, 3, _ept_map_stub())

    async def steps_async(self, client: t.Any) -> t.Any:
        r = await client.bind(contexts=_epm_contexts())
        if self.name == "bind_ack":
            return r
        if self.name == "fault":
            return await client.request(0, 77, b"\x00" * 8)
        return await client.request(0, 3, _ept_map_stub())

    def run(self, flavour: str, plan: Plan) -> t.Any:
        from dpapi_ng._rpc import AsyncRpcClient, SyncRpcClient

        dc = self.dc()
        conn = refdc.Connection(dc, 135, 1)
        if flavour == "sync":
            return self.steps_sync(SyncRpcClient(ChunkSocket(conn, plan)))

        async def go() -> t.Any:
            reader = taps.CountingReader()
            client = AsyncRpcClient(reader, ChunkWriter(conn, reader, plan))
            return await asyncio.wait_for(self.steps_async(client), 20.0)

        return _LOOP.run_until_complete(go())


class ApiLevel:
    """Whole public API call against the reference DC with real NTLM; the k-th reply of the
    conversation [EPM bind_ack, EPM response, ISD bind_ack, alter_context_resp, sealed response]."""

    def __init__(self, name: str, target: int) -> None:
        self.name, self.target = name, target
        self.rkid = uuid.UUID(int=0x1234567890ABCDEF1234567890ABCDEF)
        self.root = bytes(range(64))

    def dc(self) -> refdc.DC:
        dc = refdc.DC()
        dc.add_root_key(self.rkid, refdc.RootKeyInfo(self.root, "SHA256", "DH"))
        return dc

    def run(self, flavour: str, plan: Plan) -> t.Any:
        import dpapi_ng

        dc = self.dc()
        ks = dc.keyset(self.rkid, sdref.target_sd(SID), 361)
        import random

        blob = blobref.make_blob("SHA256", ks.l2(3, 4), self.rkid, 361, 3, 4, SID, b"segmentation-test", random.Random(5).randbytes)
        kw = dict(server="dc01", username=USER, password=refdc.PASSWORD, auth_protocol="ntlm")
        with ChunkNet(dc, plan):
            if flavour == "sync":
                return dpapi_ng.ncrypt_unprotect_secret(blob, **kw)
            return _LOOP.run_until_complete(asyncio.wait_for(dpapi_ng.async_ncrypt_unprotect_secret(blob, **kw), 40.0))


_LOOP: asyncio.AbstractEventLoop = None  # type: ignore


def _outcome(fn: t.Callable[[], t.Any]) -> tuple[str, str]:
    try:
        with taps.time_limit(60):
            v = fn()
        return "value", repr(v)
    except (Spin, taps.Hang):
        return "spin", ""
    except asyncio.TimeoutError:
        return "hang", ""
    except MachineryError:
        raise
    except BaseException as e:  # noqa
        if isinstance(e, (KeyboardInterrupt, SystemExit)):
            raise
        return "exc", f"{type(e).__name__}:{e}"


def _schedules(ctx: Ctx, L: int, max_chunks: int, eof_chunks: int, simulate: int = 0) -> list[tuple[int, list[int]]]:
    """Ask TLC for every schedule of RpcRecv.tla with FragLen = L."""
    out: list[tuple[int, list[int]]] = []
    for tag, mc, eof in (("full", max_chunks, "MC_NoEof"), ("eof", eof_chunks, "MC_Eof")):
        cfg = ctx.rundir / f"sched-{L}-{tag}.cfg"
        cfg.write_text(f"CONSTANT FragLen = {L}\nCONSTANT MaxChunks = {mc}\nCONSTANT EofPoints <- {eof}\nINIT Init\nNEXT Next\n"
                       "CONSTRAINT Emit\nCHECK_DEADLOCK FALSE\n")
        r = run_tlc("MC_RpcRecv", str(cfg), rundir=ctx.rundir, workers=8, tag=f"sched{L}{tag}", timeout=1800)
        if r.errors:
            raise MachineryError(f"schedule emission failed: {r.errors[:2]}\n{r.out[-800:]}")
        got = r.tagged("SCHED")
        # the schedule = segmentation = the reads of a client that always asks for what it wants; recover segments
        for limit, plan in got:
            out.append((limit, list(plan)))
        ctx.cov["states"] += r.distinct
        ctx.cov["transitions"] += r.generated
    # the reads recorded by the spec client merge/split at the header boundary; de-duplicate
    seen = set()
    uniq = []
    for limit, s in out:
        k = (limit, tuple(s))
        if k not in seen:
            seen.add(k)
            uniq.append((limit, s))
    if simulate:
        for _ in range(simulate):
            limit = L if ctx.rng.random() < 0.7 else ctx.rng.randrange(0, L)
            rest, s = limit, []
            while rest > 0:
                n = min(rest, ctx.rng.choice([1, 1, 2, 3, 5, 8, 13, 16, 17, 40]))
                s.append(n)
                rest -= n
            uniq.append((limit, s))
    return uniq


def run(ctx: Ctx) -> int:
    global _LOOP
    _LOOP = asyncio.new_event_loop()
    asyncio.set_event_loop(_LOOP)
    refdc.ensure_ntlm_users()
    cfg = ctx.rundir / "mc.cfg"
    fl = ctx.pick(26, 40)
    cfg.write_text(f"CONSTANT FragLen = {fl}\nCONSTANT MaxChunks = 4\nCONSTANT EofPoints <- MC_Eof\nSPECIFICATION Spec\n"
                   "INVARIANT TypeOK\nINVARIANT ReassembledInOrder\nINVARIANT PrefixInOrder\nINVARIANT DoneIffComplete\n"
                   "INVARIANT PromptError\nINVARIANT NeverOverRead\nPROPERTY Terminates\nCHECK_DEADLOCK FALSE\n")
    r = run_tlc("MC_RpcRecv", str(cfg), rundir=ctx.rundir, coverage=True, tag="mc")
    require_ok(r, "RpcRecv model check")
    require_actions(r, ["ReadReturns", "ReadEof"], "RpcRecv")
    ctx.add_tlc(r, f"RpcRecv FragLen={fl}, every segmentation into <=4 segments, every EOF point: reassembly, prompt error, termination")

    scenarios: list[tuple[t.Any, int, int, int]] = [
        (LowLevel("bind_ack", 0), 3, 2, 300),
        (LowLevel("fault", 1), 3, 2, 100),
        (LowLevel("response", 1), ctx.pick(2, 3), 2, 300),
        (LowLevel("response_long", 1, extra_towers=3), 2, ctx.pick(1, 2), 200),
    ]
    api = [ApiLevel("api_epm_bind_ack", 0), ApiLevel("api_epm_response", 1), ApiLevel("api_isd_bind_ack", 2),
           ApiLevel("api_alter_context_resp", 3), ApiLevel("api_sealed_response", 4)]
    rows: list[dict] = []
    rid = 0
    for sc, mc, ec, nsim in scenarios:
        base = {}
        for flavour in ("sync", "async"):
            p0 = Plan(sc.target, None, None)
            base[flavour] = _outcome(lambda: sc.run(flavour, p0))
            L = p0.L
            if base[flavour][0] not in ("value", "exc") or L < 16:
                raise MachineryError(f"baseline of scenario {sc.name}/{flavour} failed: {base[flavour]} L={L}")
        if base["sync"] != base["async"]:
            ctx.violation(f"recv:sync_async_decode_differs:{sc.name}", "sync_and_async_decode_same_pdu", {"sync": base["sync"], "async": base["async"]})
        scheds = _schedules(ctx, L, mc, ec, simulate=ctx.pick(nsim, nsim * 10))
        for limit, sched in scheds:
            for flavour in ("sync", "async"):
                plan = Plan(sc.target, sched, limit)
                kind, val = _outcome(lambda: sc.run(flavour, plan))
                out = kind if kind in ("spin", "hang") else ("same" if (kind, val) == base[flavour] and limit == L else
                                                             ("error" if kind == "exc" and limit < L else "differs" if limit == L or kind == "value" else "error"))
                if limit == L and (kind, val) != base[flavour] and kind == "exc":
                    out = "differs"
                rows.append({"id": rid, "sc": sc.name, "fl": flavour, "L": L, "limit": limit, "sched": sched, "reads": plan.reads, "out": out,
                             "detail": val[:120] if out != "same" else ""})
                rid += 1
            ctx.distinct((sc.name, limit, tuple(sched)))
    # API level (real NTLM): all 2-segment schedules of a sample of offsets + EOF points
    for sc in api:
        base = {}
        for flavour in ("sync", "async"):
            p0 = Plan(sc.target, None, None)
            base[flavour] = _outcome(lambda: sc.run(flavour, p0))
            if base[flavour] != ("value", repr(b"segmentation-test")):
                raise MachineryError(f"API baseline {sc.name}/{flavour} failed: {base[flavour]}")
            L = p0.L
        offs = sorted(set([1, 2, 8, 9, 10, 11, 12, 15, 16, 17, 23, 24, 25, L - 1] + [ctx.rng.randrange(1, L) for _ in range(ctx.pick(6, 80))]))
        scheds = [(L, [o, L - o]) for o in offs if 0 < o < L] + [(L, [5, 7, L - 12])] + [(lim, [lim] if lim else []) for lim in
                                                                                      sorted(set([0, 1, 10, 15, 16, 17, L - 1] + [ctx.rng.randrange(0, L) for _ in range(ctx.pick(4, 40))]))]
        for limit, sched in scheds:
            for flavour in ("sync", "async"):
                plan = Plan(sc.target, sched, limit)
                kind, val = _outcome(lambda: sc.run(flavour, plan))
                out = kind if kind in ("spin", "hang") else ("same" if (kind, val) == base[flavour] else ("error" if kind == "exc" and limit < L else "differs"))
                rows.append({"id": rid, "sc": sc.name, "fl": flavour, "L": L, "limit": limit, "sched": sched, "reads": plan.reads, "out": out,
                             "detail": val[:120] if out != "same" else ""})
                rid += 1
            ctx.distinct((sc.name, limit, tuple(sched)))
    ctx.count(len(rows))
    slim = [{k: r[k] for k in ("id", "L", "limit", "sched", "reads", "out")} for r in rows]
    bad, _ = validate(ctx, "TraceRecv", "TraceRecv.cfg", slim, chunk=ctx.pick(6000, 40000), what="recv")
    by = {r["id"]: r for r in rows}
    for i, clauses in bad.items():
        r = by[i]
        if any(c.startswith("MACHINERY") for c in clauses):
            raise MachineryError(f"bad row {r}")
        where = "header" if (r["sched"] and r["sched"][0] < 16) or r["limit"] < 16 else "body"
        ctx.violation(f"recv:{clauses[0]}:{r['fl']}:{where}:{r['out']}", ",".join(clauses), r,
                      f"scenario {r['sc']} [{r['fl']}] reply of {r['L']} bytes, peer sent {r['limit']} in segments {r['sched'][:6]}: outcome {r['out']} {r['detail']}")
    for r in rows[:2] + rows[-2:]:
        ctx.sample({k: r[k] for k in ("sc", "fl", "L", "limit", "sched", "reads", "out")})
    ctx.assume("TCP segmentation modelled at the socket / StreamReader boundary (recv, recv_into, feed_data, feed_eof)")
    from .. import faultsim
    faultsim.check(ctx, "C14")   # the same statement through the public API: peer faults at every step of the online conversation (OnlineFaults.tla)
    return ctx.finish(
        rule="schedules = every segmentation of each reply into <=3 (<=2 for long replies) segments at every byte offset and every EOF "
        "point, enumerated by TLC from RpcRecv.tla with FragLen = the real reply length, plus random finer partitions; each replayed into "
        "SyncRpcClient/AsyncRpcClient (bind_ack, response, fault) and, for sampled offsets, into the public API with real NTLM "
        "(alter_context_resp, sealed response); outcome compared with the one-piece decode; judged by TraceRecv (TLC)",
        exhaustive=False,
    )


def selftest(ctx: Ctx) -> int:
    from .. import faultsim as _fs
    refdc.ensure_ntlm_users()
    _fs.selftest(ctx)
    from ..tracecheck import selftest_expect_reject

    good = [{"id": i, "L": 60, "limit": 60, "sched": [i + 1, 59 - i], "reads": [i + 1, 59 - i], "out": "same"} for i in range(10)]
    good += [{"id": 100 + i, "L": 60, "limit": i, "sched": [i] if i else [], "reads": [i, 0] if i else [0], "out": "error"} for i in range(10)]
    bad = [dict(g, out="differs") for g in good[:10]] + [dict(g, out="same") for g in good[10:15]] + [dict(g, out="spin") for g in good[15:]]
    selftest_expect_reject(ctx, "TraceRecv", "TraceRecv.cfg", good, bad, "c14")
    print("selftest C14 ok")
    return 0
