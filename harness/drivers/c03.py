"""C03 — KEK derivation agrees on both sides and with an independent implementation."""
from __future__ import annotations

import struct
import types
import typing as t
import uuid

from .. import taps
from .. import evaluator as ev
from .. import refdc
from ..core import Ctx, MachineryError
from ..gkdiref import kdf_parameters
from ..tlc import require_ok, run_tlc
from ..tracecheck import validate

HASHES = ["SHA1", "SHA256", "SHA384", "SHA512"]
SMALL_GROUPS = [(23, 5, 1), (23, 5, 2), (23, 5, 4), (251, 6, 1), (251, 6, 2), (251, 6, 3), (32749, 2, 2), (32749, 2, 3), (32749, 2, 4)]


def _envs(h: str, alg: str, l2: bytes, pub_struct: bytes, priv_bits: int, pub_bits: int, sec_params: bytes):
    from dpapi_ng._gkdi import GroupKeyEnvelope

    rkid = uuid.UUID(int=0x77)
    common = dict(version=1, l0=361, l1=5, l2=3, root_key_identifier=rkid, kdf_algorithm="SP800_108_CTR_HMAC", kdf_parameters=kdf_parameters(h),
                  secret_algorithm=alg, secret_parameters=sec_params, private_key_length=priv_bits, public_key_length=pub_bits,
                  domain_name="verif.test", forest_name="verif.test")
    seed = GroupKeyEnvelope(flags=0, l1_key=b"", l2_key=l2, **common)
    pub = GroupKeyEnvelope(flags=1, l1_key=b"", l2_key=pub_struct, **common)
    return seed, pub


def pub_struct_magic(curve: str) -> bytes:
    return {"P256": b"ECK1", "P384": b"ECK3"}[curve]


def leading_zeros(b: bytes) -> int:
    n = 0
    for x in b:
        if x:
            break
        n += 1
    return n


def one_case(terms: dict, h: str, mode: str, grp: t.Optional[tuple], l2: bytes, eph: t.Optional[bytes], rid: int) -> dict:
    """Runs new_kek (encrypt side) and get_kek (decrypt side) of the real library and the evaluator."""
    import dpapi_ng._gkdi as g

    row: dict = {"id": rid, "h": h, "mode": mode, "small": bool(grp), "grp": list(grp) if grp else [0, 0, 0], "exc": "", "encEqDec": False, "decEqRef": False,
                 "encEqRef": False, "keyInfoOK": False, "zlead": 0, "ylead": 0, "e": 0, "priv": 0, "keyInfoY": [], "zEnc": [], "zDec": []}
    real_os = g.os
    try:
        if mode == "nonce":
            seed, _ = _envs(h, "DH", l2, b"", 512, 2048, b"")
            if eph is not None:      # a chosen nonce (forall nonces: also ones that look like something else, e.g. a CNG key blob magic)
                g.os = types.SimpleNamespace(urandom=lambda n: eph[:n].ljust(n, b"\x5a"))
            kek_enc, kid = seed.new_kek()
            g.os = real_os
            kek_dec = seed.get_kek(kid)
            ref = ev.eval_term(terms["nonce"][h], {"L2": l2, "nonce": kid.key_info})
            row.update(encEqDec=kek_enc == kek_dec, decEqRef=kek_dec == ref, encEqRef=kek_enc == ref, keyInfoOK=len(kid.key_info) == 32 and not kid.is_public_key)
            return row
        if mode == "DH":
            p, gg, kl = grp if grp else (refdc.RFC5114_P, refdc.RFC5114_G, 256)
            priv_bits = 512
            priv = ev.priv_from_seed(h, l2, "DH", 64)
            y_dc = pow(gg, int.from_bytes(priv, "big"), p)
            pub_struct = refdc.ffc_dh_key(kl, p, gg, y_dc)
            # the root key's msKds-PublicKeyLength attribute is not an input of the construction: the KEK must not depend on
            # whether it equals 8 * key_length of the key blobs (padded key_length), the size of p, or Windows' 2048
            pub_bits = (kl * 8, p.bit_length(), 2048, kl * 8 + 32)[rid % 4]
            seed, pub = _envs(h, "DH", l2, pub_struct, priv_bits, pub_bits, refdc.ffc_dh_parameters(kl, p, gg))
        else:
            curve = mode.split("_")[1]
            c = ev.CURVES[curve]
            priv_bits = c.size * 8
            priv = ev.priv_from_seed(h, l2, mode, c.size)
            k = int.from_bytes(priv, "big")
            if not 0 < k < c.n:
                row["exc"] = "SKIP"
                return row
            P = ev.ec_mul(c, k, (c.gx, c.gy))
            # key_length of the group public key blob: the curve size, or padded beyond it (forall key_length paddings); the
            # ephemeral key the library emits has to use the same width
            ekl = c.size + (0, 8, 0, 24)[rid % 4]
            pub_struct = pub_struct_magic(curve) + struct.pack("<I", ekl) + P[0].to_bytes(ekl, "big") + P[1].to_bytes(ekl, "big")
            seed, pub = _envs(h, mode, l2, pub_struct, priv_bits, priv_bits, b"")
        if eph is not None:
            g.os = types.SimpleNamespace(urandom=lambda n: eph[:n].rjust(n, b"\x00"))
        taps.CONCAT_LOG.clear()
        kek_enc, kid = pub.new_kek()
        z_enc = taps.CONCAT_LOG[-1]["z"] if taps.CONCAT_LOG else b""
        g.os = real_os
        taps.CONCAT_LOG.clear()
        kek_dec = seed.get_kek(kid)
        z_dec = taps.CONCAT_LOG[-1]["z"] if taps.CONCAT_LOG else b""
        ki = kid.key_info
        if mode == "DH":
            ok = ki[:4] == b"DHPB" and struct.unpack("<I", ki[4:8])[0] == kl and len(ki) == 8 + 3 * kl \
                and ki[8 : 8 + kl] == p.to_bytes(kl, "big") and ki[8 + kl : 8 + 2 * kl] == gg.to_bytes(kl, "big")
            ybytes = ki[8 + 2 * kl : 8 + 3 * kl]
            env = {"L2": l2, "peer_y": int.from_bytes(ybytes, "big"), "p": p, "key_len": kl}
            if eph is not None:
                ok = ok and ybytes == pow(gg, int.from_bytes(eph[:64].rjust(64, b"\x00"), "big"), p).to_bytes(kl, "big")
        else:
            n = c.size
            ok = ki[:4] == pub_struct_magic(curve) and struct.unpack("<I", ki[4:8])[0] == ekl and len(ki) == 8 + 2 * ekl
            ex, ey = int.from_bytes(ki[8 : 8 + ekl], "big"), int.from_bytes(ki[8 + ekl : 8 + 2 * ekl], "big")
            ok = ok and ev.on_curve(c, (ex, ey))
            ybytes = ki[8 + (ekl - n) : 8 + ekl]
            env = {"L2": l2, "peer_point": (ex, ey), "key_len": n}
            if eph is not None:
                Q = ev.ec_mul(c, int.from_bytes(eph[:n].rjust(n, b"\x00"), "big"), (c.gx, c.gy))
                ok = ok and (ex, ey) == Q
        ref = ev.eval_term(terms[mode][h], env)
        row.update(encEqDec=kek_enc == kek_dec, decEqRef=kek_dec == ref, encEqRef=kek_enc == ref, keyInfoOK=bool(ok) and kid.is_public_key,
                   zlead=leading_zeros(z_dec), ylead=leading_zeros(ybytes))
        if grp:
            row.update(e=int.from_bytes((eph or b"\x00")[:64].rjust(64, b"\x00"), "big") % (grp[0] - 1) if eph is not None else -1,
                       priv=int.from_bytes(priv, "big") % (grp[0] - 1), keyInfoY=list(ybytes), zEnc=list(z_enc), zDec=list(z_dec))
    except MachineryError:
        raise
    except Exception as e:  # noqa
        row["exc"] = f"{type(e).__name__}:{str(e)[:60]}"
    finally:
        g.os = real_os
    return row


def _find_leading_zero_scalars(ctx: Ctx, curve: str, peer: tuple, want: int) -> list[bytes]:
    """Seeded search (with the fast `cryptography` EC; the oracle stays the evaluator) for ephemeral scalars whose
    public x, public y or shared x coordinate starts with a zero byte."""
    from cryptography.hazmat.primitives.asymmetric import ec

    c = ev.CURVES[curve]
    cur = ec.SECP256R1() if curve == "P256" else ec.SECP384R1()
    peer_pub = ec.EllipticCurvePublicNumbers(peer[0], peer[1], cur).public_key()
    out = []
    tries = 0
    while len(out) < want and tries < 40000:
        tries += 1
        k = ctx.rng.randrange(1, c.n)
        sk = ec.derive_private_key(k, cur)
        pn = sk.public_key().public_numbers()
        sh = sk.exchange(ec.ECDH(), peer_pub)
        if sh[0] == 0 or pn.x >> (8 * (c.size - 1)) == 0 or pn.y >> (8 * (c.size - 1)) == 0:
            out.append(k.to_bytes(c.size, "big"))
    return out


def run(ctx: Ctx) -> int:
    r = run_tlc("MC_Kek", "MC_Kek.cfg", rundir=ctx.rundir)
    require_ok(r, "Kek terms and small groups")
    ctx.add_tlc(r, "Kek: EncKek = DecKek as terms for 4 hashes x 4 modes x private-key lengths; for DH groups p in {23, 251} x key_length "
                   "paddings every private pair (x, y): fixed-width shared secret and public value equal on both sides, exact width")
    terms = r.cases("TERMS")
    if not terms:
        raise MachineryError("term export missing")
    terms = terms[0]
    rng = ctx.rng
    rows = []
    # calibration of the evaluator's EC arithmetic against `cryptography`
    from cryptography.hazmat.primitives.asymmetric import ec
    for curve, cur in (("P256", ec.SECP256R1()), ("P384", ec.SECP384R1())):
        k = rng.randrange(2, 2**200)
        pn = ec.derive_private_key(k, cur).public_key().public_numbers()
        if ev.ec_mul(ev.CURVES[curve], k, (ev.CURVES[curve].gx, ev.CURVES[curve].gy)) != (pn.x, pn.y):
            raise MachineryError("evaluator EC arithmetic disagrees with cryptography")
    n_rand = ctx.pick(6, 60)
    # one and the same L2 seed used with every hash and every mode, in both orders (state must not leak between derivations)
    shared_l2 = rng.randbytes(64)
    for hs in (HASHES, list(reversed(HASHES)), HASHES):
        for h in hs:
            rows.append(one_case(terms, h, "nonce", None, shared_l2, None, len(rows)))
            rows.append(one_case(terms, h, "DH", (251, 6, 2), shared_l2, (7).to_bytes(64, "big"), len(rows)))
            rows.append(one_case(terms, h, "DH", None, shared_l2, None, len(rows)))
            for mode in ("ECDH_P256", "ECDH_P384"):
                rows.append(one_case(terms, h, mode, None, shared_l2, None, len(rows)))
            ctx.distinct(("shared-seed", h, len(rows)))
    for h in HASHES:
        for _ in range(ctx.pick(20, 300)):
            rows.append(one_case(terms, h, "nonce", None, rng.randbytes(64), None, len(rows)))
        for lead in (b"DHPB", b"ECK1", b"ECK3", b"ECK5", b"KDSK", b"\x00" * 32, b"\xff" * 32, b"\x01\x00\x00\x00", b"DHPM", b"\x30\x82"):
            rows.append(one_case(terms, h, "nonce", None, rng.randbytes(64), lead + rng.randbytes(32 - len(lead)) if len(lead) < 32 else lead, len(rows)))
            ctx.distinct((h, "nonce-lead", lead))
        # small groups: every residue class of the ephemeral exponent for p = 23, sampled for the others
        for grp in SMALL_GROUPS:
            p = grp[0]
            es = range(1, p - 1) if p == 23 else [rng.randrange(1, p - 1) for _ in range(ctx.pick(25, 400))]
            for e in es:
                l2 = rng.randbytes(64)
                rows.append(one_case(terms, h, "DH", grp, l2, e.to_bytes(64, "big"), len(rows)))
                ctx.distinct((h, grp, e))
        # RFC 5114 group: random ephemerals (library's own os.urandom) and chosen ones
        for i in range(n_rand):
            rows.append(one_case(terms, h, "DH", None, rng.randbytes(64), None if i % 2 else rng.randbytes(64), len(rows)))
            ctx.distinct((h, "rfc5114", i))
        for mode in ("ECDH_P256", "ECDH_P384"):
            curve = mode.split("_")[1]
            c = ev.CURVES[curve]
            l2 = rng.randbytes(64)
            priv = int.from_bytes(ev.priv_from_seed(h, l2, mode, c.size), "big")
            if 0 < priv < c.n:
                peer = ev.ec_mul(c, priv, (c.gx, c.gy))
                for eph in _find_leading_zero_scalars(ctx, curve, peer, ctx.pick(3, 25)):
                    rows.append(one_case(terms, h, mode, None, l2, eph, len(rows)))
                    ctx.distinct((h, mode, eph))
            for i in range(n_rand):
                rows.append(one_case(terms, h, mode, None, rng.randbytes(64), None, len(rows)))
                ctx.distinct((h, mode, "rand", i))
    rows = [r_ for r_ in rows if r_["exc"] != "SKIP"]
    for i, r_ in enumerate(rows):
        r_["id"] = i
    ctx.count(len(rows))
    bad, stats = validate(ctx, "TraceKek", "TraceKek.cfg", rows, chunk=3000, what="kek")
    ctx.cov["leading_zero_cases"] = sum(s.get("leadingZero", 0) for s in stats)
    if ctx.cov["leading_zero_cases"] < 20 and not bad:
        raise MachineryError("too few leading-zero cases generated")      # vacuity guard (only meaningful when nothing failed)
    for i, clauses in bad.items():
        r_ = rows[i]
        grp = f"p={r_['grp'][0]},kl={r_['grp'][2]}" if r_["small"] else "std"
        ctx.violation(f"kek:{clauses[0]}:{r_['mode']}:{grp}:lead{min(r_['zlead'], 1)}{min(r_['ylead'], 1)}", ",".join(clauses), r_,
                      f"{r_['h']} {r_['mode']} group {grp}: enc==dec {r_['encEqDec']} dec==ref {r_['decEqRef']} enc==ref {r_['encEqRef']} key_info ok {r_['keyInfoOK']} "
                      f"leading zero bytes shared={r_['zlead']} public={r_['ylead']} {r_['exc']}")
    for r_ in rows[:1] + [x for x in rows if x["small"]][:1] + [x for x in rows if x["zlead"] and not x["small"]][:1]:
        ctx.sample({k: r_[k] for k in ("h", "mode", "grp", "encEqDec", "decEqRef", "encEqRef", "keyInfoOK", "zlead", "ylead")})
    ctx.assume("HMAC / SP800-108 / SP800-56A ConcatKDF / modular exponentiation / P-256 and P-384 arithmetic interpreted by the stdlib evaluator "
               "from the term exported by Kek.tla; evaluator calibrated against cryptography's primitives")
    return ctx.finish(
        rule="cases = 4 hashes x {nonce, DH small groups p in {23,251,32749} with key_length 1..4 (every ephemeral exponent for p=23), RFC 5114 "
        "group, ECDH P-256/P-384 with random ephemerals and seeded searches for leading-zero coordinates / shared secrets}; real new_kek "
        "(encrypt side), get_kek (decrypt side), shared secret observed at the ConcatKDF boundary; TraceKek (TLC) requires agreement of "
        "both sides with the evaluated Kek.tla term and, for small groups, recomputes the fixed-width values itself",
    )


def selftest(ctx: Ctx) -> int:
    from ..tracecheck import selftest_expect_reject

    base = {"h": "SHA1", "mode": "DH", "small": True, "grp": [23, 5, 2], "exc": "", "encEqDec": True, "decEqRef": True, "encEqRef": True,
            "keyInfoOK": True, "zlead": 1, "ylead": 1, "e": 3, "priv": 7, "keyInfoY": [0, pow(5, 3, 23)], "zEnc": [0, pow(pow(5, 7, 23), 3, 23)],
            "zDec": [0, pow(pow(5, 7, 23), 3, 23)]}
    good = [dict(base, id=0)]
    bad = [dict(base, id=1, zEnc=[pow(pow(5, 7, 23), 3, 23)]), dict(base, id=2, decEqRef=False), dict(base, id=3, keyInfoY=[pow(5, 3, 23), 0])]
    selftest_expect_reject(ctx, "TraceKek", "TraceKek.cfg", good, bad, "c03")
    print("selftest C03 ok")
    return 0
