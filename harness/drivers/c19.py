"""C19 — every encryption uses fresh CEK, nonce and key-identifier randomness."""
from __future__ import annotations

import asyncio
import typing as t
import uuid

from cryptography.hazmat.primitives import keywrap

from .. import taps  # noqa: F401
from .. import blobref, refdc, sdref
from ..core import SPEC, Ctx, MachineryError
from ..gkdiref import kdf_parameters
from ..tlc import require_ok, run_tlc
from ..tracecheck import validate

USER = f"{refdc.DOMAIN}\\{refdc.USER}"
SIDS = ["S-1-5-21-2185496602-3367037166-1388177638-1103", "S-1-5-21-2185496602-3367037166-1388177638-1104"]


class Interner:
    def __init__(self) -> None:
        self.ids: dict[bytes, int] = {}

    def __call__(self, b: bytes) -> int:
        return self.ids.setdefault(bytes(b), len(self.ids) + 1)


def history(ctx: Ctx, n_ops: int, hid: int) -> dict:
    """One history of protect / unprotect calls sharing a cache and a DC; returns a TraceBlob 'fresh' line."""
    import dpapi_ng

    rng = ctx.rng
    h = rng.choice(["SHA1", "SHA256", "SHA384", "SHA512"])
    alg = rng.choice([("DH", 512, 2048), ("ECDH_P256", 256, 256)])
    rkid = uuid.UUID(bytes=rng.randbytes(16))
    root = rng.randbytes(64)
    dc = refdc.DC()
    dc.add_root_key(rkid, refdc.RootKeyInfo(root, h, *alg))
    cache = dpapi_ng.KeyCache()
    load = dict(key=root, root_key_id=rkid, kdf_parameters=kdf_parameters(h), secret_algorithm=alg[0], private_key_length=alg[1], public_key_length=alg[2])
    if alg[0] != "DH":
        load["secret_parameters"] = b""
    cache.load_key(**load)
    intern = {"cek": Interner(), "nonce": Interner(), "keyinfo": Interner(), "ct": Interner()}
    events = []
    blobs: list[tuple[bytes, bytes]] = []
    pts = [b"", b"same plaintext", rng.randbytes(rng.randrange(1, 70))]
    kw = dict(server="dc01", username=USER, password=refdc.PASSWORD, auth_protocol="ntlm")
    import random as global_random

    # wall clock of the host: real (most histories), frozen (two calls within one clock tick, a mocked clock), or coarse
    # with occasional steps backwards (15.6 ms ticks, NTP corrections): freshness must not be derived from the clock
    import contextlib
    import time as _time

    t0 = _time.time_ns()
    ticks = {"n": 0}

    def coarse() -> int:
        ticks["n"] += 1
        back = 2_000_000_000 if ticks["n"] % 97 == 0 else 0
        return t0 + (ticks["n"] // 40) * 15_600_000 - back

    clock_cm = (taps.global_clock(lambda: t0) if hid % 5 == 1 else taps.global_clock(coarse) if hid % 5 == 3 else contextlib.nullcontext())
    with clock_cm:
        return _history_ops(ctx, n_ops, hid, rng, dc, cache, rkid, h, alg, intern, events, blobs, pts, kw, global_random)


def _history_ops(ctx, n_ops, hid, rng, dc, cache, rkid, h, alg, intern, events, blobs, pts, kw, global_random) -> dict:  # noqa
    import dpapi_ng

    for k in range(n_ops):
        if hid % 3 == 0 and k % 4 == 0:
            global_random.seed(20231003)      # a host application reseeding the *global* PRNG is ordinary behaviour
        op = rng.random()
        if op < 0.75 or not blobs:
            pt = rng.choice(pts)
            sid = SIDS[0] if rng.random() < 0.8 else SIDS[1]
            mode = "cache" if rng.random() < 0.8 else ("dc_pub" if rng.random() < 0.6 else "dc_seed")
            use_async = rng.random() < 0.3
            if mode == "cache":
                args = dict(root_key_identifier=rkid, cache=cache)
            else:
                dc.reply_kind = "pubkey" if mode == "dc_pub" else "seed"
                args = dict(**kw, cache=(cache if rng.random() < 0.5 and mode == "dc_pub" else None))
            with refdc.Network(dc):
                blob = (asyncio.run(dpapi_ng.async_ncrypt_protect_secret(pt, sid, **args)) if use_async else dpapi_ng.ncrypt_protect_secret(pt, sid, **args))
            ok = True
            try:
                p = blobref.parse_blob(blob)
                kid = p["kid"]
                l2 = dc.keyset(kid["rkid"], sdref.target_sd(p["sid"]), kid["l0"]).l2(kid["l1"], kid["l2"])
                kek = blobref.reference_kek(h, l2, kid, alg[0], alg[1])
                cek = keywrap.aes_key_unwrap(kek, p["enc_cek"])
                ok = len(cek) == 32 and len(p["nonce"]) == 12 and (len(kid["key_info"]) == 32 or bool(kid["flags"] & 1))
                events.append({"ev": "protect", "cek": intern["cek"](cek), "nonce": intern["nonce"](p["nonce"]), "keyinfo": intern["keyinfo"](kid["key_info"]),
                               "ct": intern["ct"](p["ct"]), "pt": pts.index(pt), "mode": mode, "ok": ok})
            except Exception as e:  # noqa
                events.append({"ev": "protect", "cek": -k - 1, "nonce": -k - 1, "keyinfo": -k - 1, "ct": -k - 1, "pt": pts.index(pt), "mode": mode, "ok": False})
            blobs.append((blob, pt))
        else:
            blob, pt = rng.choice(blobs)
            out = dpapi_ng.ncrypt_unprotect_secret(blob, cache=cache)
            events.append({"ev": "unprotect", "ok": out == pt})
    return {"id": hid, "kind": "fresh", "events": events}


def _child_protects(args: tuple) -> list[bytes]:
    import dpapi_ng

    root, rkid, h, n, sid = args
    cache = dpapi_ng.KeyCache()
    cache.load_key(root, rkid, kdf_parameters=kdf_parameters(h))
    return [bytes(dpapi_ng.ncrypt_protect_secret(b"same plaintext", sid, root_key_identifier=rkid, cache=cache)) for _ in range(n)]


def fork_history(ctx: Ctx, hid: int) -> dict:
    """Pre-fork worker model: the parent protects, then forks workers that protect too; randomness must not be shared
    through state inherited at fork()."""
    import multiprocessing as mp

    import dpapi_ng

    rng = ctx.rng
    h = "SHA512"
    rkid = uuid.UUID(bytes=rng.randbytes(16))
    root = rng.randbytes(64)
    cache = dpapi_ng.KeyCache()
    cache.load_key(root, rkid, kdf_parameters=kdf_parameters(h))
    blobs = [bytes(dpapi_ng.ncrypt_protect_secret(b"same plaintext", SIDS[0], root_key_identifier=rkid, cache=cache)) for _ in range(2)]
    with mp.get_context("fork").Pool(3) as pool:
        for lst in pool.map(_child_protects, [(root, rkid, h, 3, SIDS[0])] * 3):
            blobs += lst
    blobs += [bytes(dpapi_ng.ncrypt_protect_secret(b"same plaintext", SIDS[0], root_key_identifier=rkid, cache=cache))]
    intern = {"cek": Interner(), "nonce": Interner(), "keyinfo": Interner(), "ct": Interner()}
    dc = refdc.DC()
    dc.add_root_key(rkid, refdc.RootKeyInfo(root, h, "DH"))
    events = []
    for blob in blobs:
        p = blobref.parse_blob(blob)
        kid = p["kid"]
        l2 = dc.keyset(kid["rkid"], sdref.target_sd(p["sid"]), kid["l0"]).l2(kid["l1"], kid["l2"])
        cek = keywrap.aes_key_unwrap(blobref.reference_kek(h, l2, kid, "DH", 512), p["enc_cek"])
        events.append({"ev": "protect", "cek": intern["cek"](cek), "nonce": intern["nonce"](p["nonce"]), "keyinfo": intern["keyinfo"](kid["key_info"]),
                       "ct": intern["ct"](p["ct"]), "pt": 0, "mode": "cache-forked", "ok": True})
    return {"id": hid, "kind": "fresh", "events": events}


def run(ctx: Ctx) -> int:
    refdc.ensure_ntlm_users()
    cfg = ctx.rundir / "fresh.cfg"
    cfg.write_text(open(SPEC / "MC_Blob_fresh.cfg").read().replace("MaxProtects = 5", f"MaxProtects = {ctx.pick(4, 5)}"))
    r = run_tlc("MC_Blob", str(cfg), rundir=ctx.rundir, heap="8g", timeout=2400)
    require_ok(r, "Blob freshness over all histories")
    ctx.add_tlc(r, f"Blob.tla: all histories of <= {ctx.pick(4, 5)} protects (nonce / DH mode, equal and different plaintexts) interleaved with unprotect: "
                   "NoReuse, DrawsDuringCall, RoundTrip")
    rows = []
    nh, nops = ctx.pick(30, 200), ctx.pick(50, 400)
    for i in range(nh):
        rows.append(history(ctx, nops, i))
        ctx.distinct(("history", i))
    for j in range(ctx.pick(2, 10)):
        rows.append(fork_history(ctx, nh + j))
        ctx.distinct(("fork-history", j))
    nprot = sum(1 for r_ in rows for e in r_["events"] if e["ev"] == "protect")
    ctx.count(nprot)
    ctx.cov["protect_calls"] = nprot
    bad, _ = validate(ctx, "TraceBlob", "TraceBlob.cfg", rows, chunk=ctx.pick(5, 8), what="fresh", timeout=3000)
    for i, clauses in bad.items():
        if any(c.startswith("MACHINERY") for c in clauses):
            raise MachineryError(f"{clauses}: {[e for e in rows[i]['events'] if not e.get('ok', True)][:3]}")
        ctx.violation(f"fresh:{clauses[0]}", ",".join(clauses), {"events": rows[i]["events"][:40]}, f"history {i} of {len(rows[i]['events'])} operations")
    ctx.sample(rows[0]["events"][:6])
    ctx.assume("real OS randomness (collision probability < 2^-60 at these sizes); CEK recovered by unwrapping with the reference KEK")
    return ctx.finish(
        rule="histories = seeded sequences of protect calls (identical and different arguments, cache nonce mode, DC seed-key and public-key replies, "
        "sync and async) interleaved with unprotect calls and cache reuse; from each emitted blob the GCM nonce, key-identifier randomness, "
        "ciphertext and the unwrapped CEK are interned; TraceBlob (TLC) evaluates Blob!NoReuse pairwise over each history",
    )


def selftest(ctx: Ctx) -> int:
    from ..tracecheck import selftest_expect_reject

    ev = lambda i, **k: dict({"ev": "protect", "cek": i, "nonce": i, "keyinfo": i, "ct": i, "pt": 0, "mode": "cache", "ok": True}, **k)
    good = [{"id": 0, "kind": "fresh", "events": [ev(1), ev(2), {"ev": "unprotect", "ok": True}, ev(3)]}]
    bad = [{"id": 1, "kind": "fresh", "events": [ev(1), ev(2, nonce=1)]}, {"id": 2, "kind": "fresh", "events": [ev(1), ev(2), ev(3, cek=2)]},
           {"id": 3, "kind": "fresh", "events": [ev(1), ev(2, keyinfo=1)]}]
    selftest_expect_reject(ctx, "TraceBlob", "TraceBlob.cfg", good, bad, "c19")
    print("selftest C19 ok")
    return 0
