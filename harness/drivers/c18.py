"""C18 -- endpoint-mapper replies: right port if well-formed, bounded work for any reply.

Spec: spec/Epm.tla (ept_map result layout in NDR64, result decoder step machine, port selection).
TLC:  MC_Epm builds every tower list (BFS 0..2 / 0..3 towers over 24 templates covering every tower
      length residue mod 8, unknown protocols, TCP floor positions; -simulate for 4..6 towers), seals it
      with announced-count variants {actual, actual+-1, 2^16, 2^40, 2^64-1} and statuses, renders it with
      EptMapResultBytes, checks the decoder machine (bounded iterations, termination, inverse, port rule)
      and emits every reply.
Bind: each emitted reply is replayed into the real EptMapResult.unpack + _process_ept_map_result under the
      step meter and tracemalloc; TraceEpm.tla (TLC) recomputes the expected outcome from the abstract
      reply and decides (port relation + work / memory budget operators).
"""
from __future__ import annotations

import json
import os
import sys
import tracemalloc
import typing as t

from .. import taps
from ..core import Ctx, MachineryError
from ..tlc import require_ok, run_tlc
from ..tracecheck import validate
from . import c12


def _response(stub: bytes) -> t.Any:
    from dpapi_ng._rpc import Response
    from dpapi_ng._rpc import _pdu as pdu

    hdr = pdu.PDUHeader(version=5, version_minor=0, packet_type=pdu.PacketType.RESPONSE,
                        packet_flags=pdu.PacketFlags.PFC_FIRST_FRAG | pdu.PacketFlags.PFC_LAST_FRAG, data_rep=pdu.DataRep(),
                        frag_len=24 + len(stub), auth_len=0, call_id=1)
    return Response(header=hdr, sec_trailer=None, alloc_hint=len(stub), context_id=0, cancel_count=0, stub_data=stub)


def process(stub: bytes, prefix: str) -> dict:
    """One execution of the client's reply processing under the work and memory meters."""
    import dpapi_ng._client as client

    resp = _response(stub)
    meter = taps.StepMeter(prefix, 400 * len(stub) + 20000)
    out, port, exc = "error", -1, ""
    started = not tracemalloc.is_tracing()
    if started:
        tracemalloc.start()
    base = tracemalloc.get_traced_memory()[0]
    tracemalloc.reset_peak()
    try:
        with meter:
            p = client._process_ept_map_result(resp)
        out, port = "port", p
    except taps.BudgetExceeded:
        out = "budget"
    except MemoryError:
        out, exc = "memory", "MemoryError"
    except Exception as e:  # noqa
        exc = "ValueError" if isinstance(e, ValueError) else type(e).__name__
    finally:
        sys.settrace(None)
        peak = tracemalloc.get_traced_memory()[1] - base
        if started:
            tracemalloc.stop()
    if out == "port" and not (isinstance(port, int) and 0 <= port < 2 ** 31):
        out, exc, port = "error", f"port_not_a_small_int:{port!r}"[:60], -1
    return {"out": out, "port": port, "exc": exc, "steps": min(meter.n, 2 ** 31 - 1), "peak": max(0, min(peak, 2 ** 31 - 1)), "len": len(stub)}


def _tlc(ctx: Ctx) -> list[dict]:
    cfg = "MC_Epm_full.cfg" if ctx.thorough else "MC_Epm_quick.cfg"
    r = run_tlc("MC_Epm", cfg, rundir=ctx.rundir, deadlock=False, timeout=3000, heap=ctx.pick("4g", "8g"))
    require_ok(r, "Epm result decoder machine and port rule")
    ctx.add_tlc(r, f"MC_Epm {cfg}: all tower lists of 0..{ctx.pick(2, 3)} towers over 24 templates (every tower-length residue mod 8, unknown "
                   "protocols, TCP floor first/last/absent/twice) x announced counts {actual, actual+1 max count, -1, +1, 2^16, 2^40, 2^64-1} x 4 "
                   "statuses: IterationsBounded, AbsurdCountIsRejected, WellFormedIsDecoded, Aligned, PortRule, Terminates")
    cases = r.cases()
    r = run_tlc("MC_Epm", "MC_Epm_sim.cfg", rundir=ctx.rundir, deadlock=False, simulate=f"num={ctx.pick(25, 320)}", depth=40,
                seed=ctx.seed + 1, tag="sim")
    require_ok(r, "Epm simulation of 4..6 towers")
    ctx.add_tlc(r, "MC_Epm -simulate: random tower lists of 4..6 towers, random announced-count variant and status, same invariants")
    sim = r.cases()
    if len(cases) < 3000 or len(sim) < 100:
        raise MachineryError(f"MC_Epm emitted too few cases: {len(cases)} + {len(sim)}")
    if not any(c["wf"] and c["exp"][0] == "port" for c in cases) or not any(not c["wf"] for c in cases):
        raise MachineryError("MC_Epm cases lack well-formed port replies or adversarial replies")
    return cases + sim


def _variant(r: dict) -> str:
    n = len(r["towers"])
    cnt = int.from_bytes(bytes(r["count"]), "little")
    if cnt == n:
        return "count_actual"
    if cnt == n - 1:
        return "count_minus1"
    if cnt == n + 1:
        return "count_plus1"
    return f"count_2^{cnt.bit_length() - 1 if cnt & (cnt - 1) == 0 else 64}"


def run(ctx: Ctx) -> int:
    import dpapi_ng

    prefix = os.path.dirname(dpapi_ng.__file__)
    cases = _tlc(ctx)
    rows: list[dict] = []
    blown: dict[str, int] = {}
    skipped = 0
    tracemalloc.start()          # once: starting / stopping per call is expensive
    for i, c in enumerate(cases):
        wire = bytes(c["wire"])
        var = _variant(c["r"])
        if blown.get(var, 0) >= 8:       # this announced-count class is already shown to be unbounded; keep the run short
            skipped += 1
            continue
        res = process(wire, prefix)
        if res["out"] in ("budget", "memory"):
            blown[var] = blown.get(var, 0) + 1
        rows.append({"id": f"r{i}", "t": "reply", "r": c["r"], "wire": c["wire"], "variant": var, "wf": c["wf"], **res})
        ctx.count(1)
        ctx.distinct(("reply", tuple(tuple((f["proto"], len(f["lhs"]), len(f["rhs"])) for f in tw) for tw in c["r"]["towers"]), var,
                      tuple(c["r"]["status"])))
        if c["wf"] and i % 701 == 0:
            ctx.sample({"towers": [[f["proto"] for f in tw] for tw in c["r"]["towers"]], "status": c["r"]["status"], "expected": c["exp"],
                        "outcome": res["out"], "port": res["port"], "steps": res["steps"], "peak": res["peak"], "len": res["len"]})
    # arbitrary byte strings as replies (budgets only)
    valid = {"eptres": [bytes(c["wire"]) for c in cases if c["wf"]][:400]}
    brows = []
    bblown = 0
    for j, (k, src, data) in enumerate(c12._mutations(ctx.rng, valid, ctx.thorough)):
        if k != "eptres":
            continue
        if bblown >= 8 and len(data) > 300 or bblown >= 16:
            skipped += 1
            continue
        res = process(data, prefix)
        if res["out"] in ("budget", "memory"):
            bblown += 1
        brows.append({"id": f"b{j}", "t": "bytes", "src": src, "hex": data.hex() if len(data) <= 200 else data[:200].hex() + "...", **res})
        ctx.count(1)
        ctx.distinct(("bytes", src, len(data) if len(data) < 70 else len(data) // 1000))
    # crafted hostile shapes: many towers, each a few octets long but announcing thousands of floors, followed by zero octets
    # (a decoder that resumes after a failed tower re-walks the tail once per tower: quadratic in the reply size)
    import struct as _st
    for j, n in enumerate((60, 250, 1000) if not ctx.thorough else (60, 250, 1000, 3000)):
        for flo in (0x1010, 0xFFFF, 3):
            data = b"\x00" * 20 + _st.pack("<I", n) + _st.pack("<QQQ", 4, 0, n) + b"".join(_st.pack("<Q", 3 + i) for i in range(n))
            data += b"".join(_st.pack("<QIH", 2, 2, flo) + b"\x00" * 2 for _ in range(n)) + b"\x00" * (16 * n) + _st.pack("<I", 0)
            res = process(data, prefix)
            brows.append({"id": f"h{j}-{flo}", "t": "bytes", "src": f"many short towers x {flo} floors", "hex": data[:200].hex() + "...", **res})
            ctx.count(1)
            ctx.distinct(("hostile-towers", n, flo))
    tracemalloc.stop()
    bad, stats = validate(ctx, "TraceEpm", "TraceEpm.cfg", rows, chunk=ctx.pick(500, 1500), what="reply")
    bad2, _ = validate(ctx, "TraceEpm", "TraceEpm.cfg", brows, chunk=5000, what="bytes")
    byid = {r["id"]: r for r in rows + brows}
    nwf = sum(s.get("wf", 0) for s in stats)
    if nwf < 1000:
        raise MachineryError(f"only {nwf} well-formed replies validated")
    ctx.cov["well_formed_replies"] = nwf
    allbad = {**bad, **bad2}
    for rid in sorted(allbad, key=lambda x: byid[x]["len"]):
        clauses = allbad[rid]
        row = byid[rid]
        if any(c.startswith("MACHINERY") for c in clauses):
            raise MachineryError(f"{clauses}: {json.dumps(row)[:1200]}")
        for c in clauses:
            if c.startswith("DRIFT"):
                ctx.note_drift(c[6:])
        real = [c for c in clauses if not c.startswith("DRIFT")]
        if not real:
            continue
        if row["t"] == "reply":
            tw = [[f["proto"] for f in x] for x in row["r"]["towers"]]
            lens = [2 + sum(5 + len(f["lhs"]) + len(f["rhs"]) for f in x) for x in row["r"]["towers"]]
            sel = [c for c in real if "proportional" not in c]
            if sel:
                ctx.violation(f"select:{sel[0]}", ",".join(sel), {k: row[k] for k in ("r", "variant", "out", "port", "exc")} | {"wire_hex": bytes(row["wire"]).hex()},
                              f"towers (floor protocols) {tw}, tower lengths {lens}, status {bytes(row['r']['status']).hex()}: outcome {row['out']} "
                              f"{row['port'] if row['out'] == 'port' else row['exc']}")
            bud = [c for c in real if "proportional" in c]
            if bud:
                ctx.violation(f"unbounded:{bud[0]}:{row['variant'] if not row['wf'] else 'well_formed'}", ",".join(bud),
                              {k: row[k] for k in ("variant", "out", "steps", "peak", "len")} | {"wire_hex": bytes(row["wire"]).hex()},
                              f"{row['len']}-byte reply announcing {int.from_bytes(bytes(row['r']['count']), 'little')} towers "
                              f"({len(row['r']['towers'])} present): outcome {row['out']}, {row['steps']} line events (budget "
                              f"{400 * row['len'] + 20000}), peak {row['peak']} bytes; reply {bytes(row['wire']).hex()[:200]}")
        else:
            ctx.violation(f"unbounded:{real[0]}:byte_string", ",".join(real), {k: row[k] for k in ("src", "out", "steps", "peak", "len", "hex")},
                          f"{row['len']}-byte string ({row['src']}): outcome {row['out']}, {row['steps']} line events, peak {row['peak']} bytes; {row['hex'][:200]}")
    for r in rows:
        if r["out"] == "error" and r["exc"] not in ("", "ValueError"):
            ctx.note_drift(f"error_is_{r['exc']}_not_ValueError:{'well_formed' if r['wf'] else 'malformed'}")
    for r in brows:
        if r["out"] == "error" and r["exc"] not in ("", "ValueError"):
            ctx.note_drift(f"error_is_{r['exc']}_not_ValueError:byte_string")
    if skipped:
        ctx.cov["skipped_after_budget_violations"] = skipped
    ok = [r for r in rows + brows if r["out"] in ("port", "error")]
    if ok:
        w = max(ok, key=lambda r: r["steps"] / (400 * r["len"] + 20000))
        m = max(ok, key=lambda r: r["peak"] / (64 * r["len"] + 1048576))
        ctx.cov["largest_fraction_of_budgets_used"] = {"work": round(w["steps"] / (400 * w["len"] + 20000), 4), "work_len": w["len"],
                                                       "memory": round(m["peak"] / (64 * m["len"] + 1048576), 4), "memory_len": m["len"]}
    ctx.assume("work = line events in files under src/dpapi_ng (sys.settrace); memory = tracemalloc peak during the call; the reply reaches "
               "_process_ept_map_result as the stub of a dpapi_ng._rpc.Response exactly as RpcClient.request returns it")
    ctx.assume("replies are rendered by the specification (EptMapResultBytes, NDR64 padding -(len+4) mod 8); TraceEpm re-checks that the bytes "
               "given to the code are that rendering")
    from .. import faultsim
    faultsim.check(ctx, "C18")   # the same statement through the public API: peer faults at every step of the online conversation (OnlineFaults.tla)
    return ctx.finish(
        rule="replies = every TLC-emitted (tower list, announced count variant, status) of MC_Epm (BFS + simulation of 4..6 towers) plus "
             "random / mutated / structured byte strings up to 65535 bytes; each processed by the real _process_ept_map_result under step meter "
             "and tracemalloc; TraceEpm (TLC) recomputes Expected/AllowedPorts and the budget operators; distinct = (floor protocol/length "
             "shape of every tower, count variant, status) and (source class, length class)",
    )


def selftest(ctx: Ctx) -> int:
    import dpapi_ng

    from ..tracecheck import selftest_expect_reject

    prefix = os.path.dirname(dpapi_ng.__file__)
    r = run_tlc("MC_Epm", "MC_Epm_sim.cfg", rundir=ctx.rundir, deadlock=False, simulate="num=12", depth=40, seed=7, tag="selftest")
    require_ok(r, "Epm simulation (selftest)")
    cases = [c for c in r.cases() if c["wf"]]
    ports = [c for c in cases if c["exp"][0] == "port"][:25]
    errs = [c for c in cases if c["exp"][0] == "error"][:15]
    if len(ports) < 10 or len(errs) < 5:
        raise MachineryError(f"selftest: too few cases ({len(ports)}, {len(errs)})")
    good, badrows = [], []
    tracemalloc.start()
    for i, c in enumerate(ports + errs):
        res = process(bytes(c["wire"]), prefix)
        row = {"id": f"g{i}", "t": "reply", "r": c["r"], "wire": c["wire"], "variant": "count_actual", "wf": True, **res}
        good.append(row)
        b = json.loads(json.dumps(row))
        b["id"] = f"x{i}"
        m = i % 5
        if row["out"] == "port":
            if m == 0:
                b["port"] += 1                                       # a port that is not in the reply
            elif m == 1:
                b["out"], b["port"] = "error", -1                    # well-formed reply rejected
            elif m == 2:
                b["steps"] = 400 * b["len"] + 20001                  # work budget blown
            elif m == 3:
                b["peak"] = 64 * b["len"] + 1048577                  # memory budget blown
            else:                                                    # port of a later tower instead of the first one
                later = [p for tw in c["r"]["towers"][1:] for f in tw if f["proto"] == 7 for p in [f["rhs"][0] * 256 + f["rhs"][1]]]
                first = c["exp"][1]
                b["port"] = next((p for p in reversed(later) if p != first), first + 7)
        else:
            if m % 2 == 0:
                b["out"], b["port"] = "port", 135                    # error expected (status / no TCP floor), port returned
            else:
                b["out"] = "budget"
        badrows.append(b)
    tracemalloc.stop()
    selftest_expect_reject(ctx, "TraceEpm", "TraceEpm.cfg", good, badrows, "c18")
    print(f"selftest C18 ok: {len(good)} real executions accepted; wrong port, later tower's port, rejected well-formed reply, port despite "
          "error status / missing TCP floor, blown work and memory budgets are all rejected")
    return 0
