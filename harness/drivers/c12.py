"""C12 -- DCE/RPC and endpoint-mapper wire codecs are inverse; decoders terminate.

Spec: spec/RpcPdu.tla, spec/Epm.tla (byte layouts, decoder loops as step operators).
TLC:  MC_RpcPdu (Dec(Enc(m)) = m over enumerated shapes; decoder loop machines: bounded
      iterations + termination on adversarial counts / missing END), MC_Epm (towers, ept_map,
      ept_map result decoder machine).
Bind: real X.pack() / X.unpack() of generated well-formed messages validated line by line by
      TraceRpcPdu.tla (TLC decides); real decoders on TLC-emitted loop inputs and on random /
      mutated byte strings under the step meter; captured PDUs of the repository's tests
      calibrate the spec.
"""
from __future__ import annotations

import importlib.util
import inspect
import json
import os
import struct
import sys
import typing as t
import uuid

from .. import taps
from ..core import REPO, Ctx, MachineryError
from ..tlc import require_ok, run_tlc
from ..tracecheck import validate

MAXFRAG = 65535


# ---------------------------------------------------------------------------------------------
# projection: library objects -> abstract field values of the spec (trusted, ~100 lines)
# ---------------------------------------------------------------------------------------------
def bl(x: t.Any) -> list[int]:
    return list(bytes(x))


def u32(n: int) -> list[int]:
    return list(struct.pack("<I", n))


def uuid_wire(u: uuid.UUID) -> list[int]:
    """DCE UUID on a little-endian wire: time_low LE32, time_mid LE16, time_hi LE16, 8 octets."""
    return list(struct.pack("<IHH", u.time_low, u.time_mid, u.time_hi_version)
                + bytes([u.clock_seq_hi_variant, u.clock_seq_low]) + u.node.to_bytes(6, "big"))


def p_drep(d: t.Any) -> list[int]:
    return [(int(d.byte_order) << 4) | int(d.character), int(d.floating_point), 0, 0]


def p_hdr(h: t.Any) -> dict:
    return {"ver": h.version, "minor": h.version_minor, "ptype": int(h.packet_type), "flags": int(h.packet_flags),
            "drep": p_drep(h.data_rep), "frag_len": h.frag_len, "auth_len": h.auth_len, "call_id": u32(h.call_id)}


def p_sec(s: t.Any) -> dict:
    return {"type": int(s.type), "level": int(s.level), "pad": s.pad_length, "ctx": u32(s.context_id), "auth": bl(s.auth_value)}


def p_syn(s: t.Any) -> dict:
    return {"uuid": uuid_wire(s.uuid), "ver": s.version, "minor": s.version_minor}


_KINDS = {"Bind": "bind", "AlterContext": "alter_context", "BindAck": "bind_ack", "AlterContextResponse": "alter_context_resp",
          "BindNak": "bind_nak", "Request": "request", "Response": "response", "Fault": "fault"}


_FAMILY = {11: "bind", 14: "alter_context", 12: "bind_ack", 15: "alter_context_resp"}


def p_pdu(m: t.Any, wire: bytes = b"", kind_from_ptype: bool = False) -> dict:
    kind = _KINDS[type(m).__name__]
    if kind_from_ptype:        # tests build alter_context PDUs with the Bind class
        kind = _FAMILY.get(int(m.header.packet_type), kind)
    f: dict = {"kind": kind, "hdr": p_hdr(m.header), "sec": [p_sec(m.sec_trailer)] if m.sec_trailer is not None else []}
    if kind in ("bind", "alter_context"):
        f.update(max_xmit=m.max_xmit_frag, max_recv=m.max_recv_frag, assoc=u32(m.assoc_group),
                 ctxs=[{"id": c.context_id, "abstract": p_syn(c.abstract_syntax), "transfer": [p_syn(x) for x in c.transfer_syntaxes]}
                       for c in m.contexts])
    elif kind in ("bind_ack", "alter_context_resp"):
        sa = m.sec_addr.encode("utf-8")
        wl = len(sa) + 1 if sa else 0
        pad = bl(wire[26 + wl: 26 + wl + (-(2 + wl) % 4)])      # pad octets are a free wire value (zeros if unavailable)
        f.update(max_xmit=m.max_xmit_frag, max_recv=m.max_recv_frag, assoc=u32(m.assoc_group), sec_addr=bl(sa),
                 sa_pad=pad if len(pad) == -(2 + wl) % 4 else [0] * (-(2 + wl) % 4),
                 results=[{"result": int(r.result), "reason": r.reason, "uuid": uuid_wire(r.syntax), "ver": u32(r.syntax_version)}
                          for r in m.results])
    elif kind == "bind_nak":
        f.update(reason=m.reject_reason, versions=[[v[0], v[1]] for v in m.versions])
    elif kind == "request":
        f.update(alloc=u32(m.alloc_hint), ctx=m.context_id, opnum=m.opnum, obj=[uuid_wire(m.obj)] if m.obj is not None else [],
                 stub=bl(m.stub_data))
    elif kind == "response":
        f.update(alloc=u32(m.alloc_hint), ctx=m.context_id, cancel=m.cancel_count, stub=bl(m.stub_data))
    elif kind == "fault":
        f.update(alloc=u32(m.alloc_hint), ctx=m.context_id, cancel=m.cancel_count, fflags=int(m.flags), status=u32(m.status),
                 stub=bl(m.stub_data))
    return f


def p_cmd(c: t.Any) -> dict:
    n = type(c).__name__
    fl = int(c.flags)
    if n == "CommandBitmask":
        return {"k": "bitmask", "flags": fl, "bits": u32(c.bits)}
    if n == "CommandPContext":
        return {"k": "pcontext", "flags": fl, "iface": p_syn(c.interface_id), "transfer": p_syn(c.transfer_syntax)}
    if n == "CommandHeader2":
        return {"k": "header2", "flags": fl, "ptype": int(c.packet_type), "drep": p_drep(c.data_rep), "call_id": u32(c.call_id),
                "ctx": c.context_id, "opnum": c.opnum}
    return {"k": "raw", "type": c.command.value, "flags": fl, "value": bl(c.value)}   # .value: the enum value given to the constructor


def p_floor(f: t.Any) -> dict:
    """(protocol, lhs, rhs) from the constructor fields (C706 appendix I / L)."""
    n = type(f).__name__
    if n == "TCPFloor":
        return {"proto": 7, "lhs": [], "rhs": list(struct.pack(">H", f.port))}
    if n == "IPFloor":
        return {"proto": 9, "lhs": [], "rhs": list(struct.pack(">I", f.addr))}
    if n == "RPCConnectionOrientedFloor":
        return {"proto": 11, "lhs": [], "rhs": list(struct.pack("<H", f.version_minor))}
    if n == "UUIDFloor":
        return {"proto": 13, "lhs": uuid_wire(f.uuid) + list(struct.pack("<H", f.version)), "rhs": list(struct.pack("<H", f.version_minor))}
    return {"proto": f.protocol.value, "lhs": bl(f.lhs), "rhs": bl(f.rhs)}


def p_handle(h: t.Any) -> list[int]:
    return [0] * 20 if h is None else u32(h[0]) + uuid_wire(h[1])


def p_eptmap(m: t.Any, wire: bytes) -> dict:
    return {"ref_obj": bl(wire[0:8]), "obj": uuid_wire(m.obj) if m.obj is not None else [0] * 16, "ref_tower": bl(wire[24:32]),
            "tower": [p_floor(f) for f in m.tower], "handle": p_handle(m.entry_handle), "max_towers": u32(m.max_towers)}


def p_eptres(m: t.Any, wire: bytes) -> dict:
    """num / count are determined by the number of towers; max count and referent ids are free
    (read from the bytes, constrained by WellFormedEptMapResult)."""
    n = len(m.towers)
    refs = [bl(wire[48 + 8 * i: 56 + 8 * i]) for i in range(n)]
    refs = [r if len(r) == 8 else [0] * 8 for r in refs]
    mx = bl(wire[24:32])
    return {"handle": p_handle(m.entry_handle), "num": u32(n), "max": mx if len(mx) == 8 else [0] * 8, "count": u32(n) + [0] * 4,
            "refs": refs, "towers": [[p_floor(f) for f in tw] for tw in m.towers], "status": u32(m.status)}


def project(k: str, obj: t.Any, wire: bytes) -> dict:
    if k == "pdu":
        return p_pdu(obj, wire)
    if k == "hdr":
        return p_hdr(obj)
    if k == "sec":
        return p_sec(obj)
    if k == "syn":
        return p_syn(obj)
    if k == "cmd":
        return p_cmd(obj)
    if k == "vt":
        return {"cmds": [p_cmd(c) for c in obj.commands]}
    if k == "floor":
        return p_floor(obj)
    if k == "eptmap":
        return p_eptmap(obj, wire)
    if k == "eptres":
        return p_eptres(obj, wire)
    raise MachineryError(f"no projection for {k}")


def decoders() -> dict[str, t.Callable[[bytes], t.Any]]:
    import dpapi_ng._epm as epm
    import dpapi_ng._rpc as rpc
    from dpapi_ng._rpc._pdu import PDU

    return {"pdu": PDU.unpack, "hdr": rpc.PDUHeader.unpack, "sec": rpc.SecTrailer.unpack, "syn": rpc.SyntaxId.unpack,
            "cmd": rpc.Command.unpack, "vt": rpc.VerificationTrailer.unpack, "floor": epm.Floor.unpack, "eptmap": epm.EptMap.unpack,
            "eptres": epm.EptMapResult.unpack}


DECODER_NAMES = {"pdu": "PDU.unpack", "hdr": "PDUHeader.unpack", "sec": "SecTrailer.unpack", "syn": "SyntaxId.unpack",
                 "cmd": "Command.unpack", "vt": "VerificationTrailer.unpack", "floor": "Floor.unpack", "eptmap": "EptMap.unpack",
                 "eptres": "EptMapResult.unpack"}


# ---------------------------------------------------------------------------------------------
# generation of well-formed messages (shapes of the property's quantifier, random contents)
# ---------------------------------------------------------------------------------------------
class Gen:
    def __init__(self, rng: t.Any) -> None:
        import dpapi_ng._epm as epm
        import dpapi_ng._rpc as rpc
        from dpapi_ng._rpc import _pdu as pdu

        self.rng, self.rpc, self.epm, self.pdu = rng, rpc, epm, pdu
        self.listed_protocols_only = False      # selftest: stay clear of inputs the pinned tree is known to mishandle

    def uuid(self) -> uuid.UUID:
        r = self.rng.random()
        if r < 0.04:
            return uuid.UUID(int=(1 << 128) - 1)
        return uuid.UUID(int=self.rng.getrandbits(128) | 1)

    def u(self, bits: int) -> int:
        r = self.rng.random()
        if r < 0.1:
            return (1 << bits) - 1
        if r < 0.2:
            return 0
        if r < 0.3:
            return 1 << (bits - 1)
        return self.rng.getrandbits(bits)

    def syn(self) -> t.Any:
        return self.rpc.SyntaxId(self.uuid(), self.u(16), self.u(16))

    def sec(self, alen: int) -> t.Any:
        p = self.pdu
        return p.SecTrailer(type=self.rng.choice(list(p.SecurityProvider)), level=self.rng.choice(list(p.AuthenticationLevel)),
                            pad_length=self.u(8), context_id=self.u(32), auth_value=self.rng.randbytes(alen))

    def header(self, ptype: t.Any, flags: int, alen: int) -> t.Any:
        p = self.pdu
        drep = p.DataRep(character=self.rng.choice(list(p.CharacterRep)), floating_point=self.rng.choice(list(p.FloatingPointRep)))
        return p.PDUHeader(version=5, version_minor=0, packet_type=ptype, packet_flags=p.PacketFlags(flags), data_rep=drep, frag_len=0,
                           auth_len=alen, call_id=self.u(32))

    def fix(self, m: t.Any) -> t.Any:
        """frag_len := real length (what RpcClient._prepare_pdu patches into bytes 8..10)."""
        import dataclasses

        n = len(m.pack())
        return dataclasses.replace(m, header=dataclasses.replace(m.header, frag_len=n))

    def flags(self, obj: bool = False) -> int:
        return (self.rng.getrandbits(7) | 3) | (0x80 if obj else 0)

    def bind(self, alter: bool, nc: int, nts: t.Callable[[int], int], alen: int) -> t.Any:
        r, p = self.rpc, self.pdu
        cls, pt = (r.AlterContext, p.PacketType.ALTER_CONTEXT) if alter else (r.Bind, p.PacketType.BIND)
        ctxs = [r.ContextElement(context_id=self.u(16), abstract_syntax=self.syn(), transfer_syntaxes=[self.syn() for _ in range(nts(i))])
                for i in range(nc)]
        return self.fix(cls(header=self.header(pt, self.flags(), alen), sec_trailer=self.sec(alen) if alen else None,
                            max_xmit_frag=self.u(16), max_recv_frag=self.u(16), assoc_group=self.u(32), contexts=ctxs))

    def bind_ack(self, alter: bool, sl: int, nr: int, alen: int) -> t.Any:
        r, p = self.rpc, self.pdu
        cls, pt = (r.AlterContextResponse, p.PacketType.ALTER_CONTEXT_RESP) if alter else (r.BindAck, p.PacketType.BIND_ACK)
        addr = "".join(self.rng.choice("0123456789\\pipe.") for _ in range(sl))
        res = [r.ContextResult(result=self.rng.choice(list(r.ContextResultCode)), reason=self.u(16), syntax=self.uuid(), syntax_version=self.u(32))
               for _ in range(nr)]
        return self.fix(cls(header=self.header(pt, self.flags(), alen), sec_trailer=self.sec(alen) if alen else None,
                            max_xmit_frag=self.u(16), max_recv_frag=self.u(16), assoc_group=self.u(32), sec_addr=addr, results=res))

    def bind_nak(self, nv: int) -> t.Any:
        r, p = self.rpc, self.pdu
        return self.fix(r.BindNak(header=self.header(p.PacketType.BIND_NAK, self.flags(), 0), sec_trailer=None, reject_reason=self.u(16),
                                  versions=[(self.u(8), self.u(8)) for _ in range(nv)]))

    def request(self, sl: int, obj: bool, alen: int) -> t.Any:
        r, p = self.rpc, self.pdu
        return self.fix(r.Request(header=self.header(p.PacketType.REQUEST, self.flags(obj), alen), sec_trailer=self.sec(alen) if alen else None,
                                  alloc_hint=self.u(32), context_id=self.u(16), opnum=self.u(16), obj=(uuid.UUID(int=0) if self.rng.random() < 0.15 else self.uuid()) if obj else None,   # the nil UUID is a value like any other
                                  stub_data=self.rng.randbytes(sl)))

    def response(self, sl: int, alen: int) -> t.Any:
        r, p = self.rpc, self.pdu
        return self.fix(r.Response(header=self.header(p.PacketType.RESPONSE, self.flags(), alen), sec_trailer=self.sec(alen) if alen else None,
                                   alloc_hint=self.u(32), context_id=self.u(16), cancel_count=self.u(8), stub_data=self.rng.randbytes(sl)))

    def fault(self, sl: int, alen: int) -> t.Any:
        r, p = self.rpc, self.pdu
        return self.fix(r.Fault(header=self.header(p.PacketType.FAULT, self.flags(), alen), sec_trailer=self.sec(alen) if alen else None,
                                alloc_hint=self.u(32), context_id=self.u(16), cancel_count=self.u(8), status=self.u(32),
                                flags=self.rng.choice(list(r.FaultFlags)), stub_data=self.rng.randbytes(sl)))

    def cmd(self, kind: str, end: bool) -> t.Any:
        r, p = self.rpc, self.pdu
        fl = r.CommandFlags((0x4000 if end else 0) | (0x8000 if self.rng.random() < 0.5 else 0))
        if kind == "bitmask":
            return r.CommandBitmask(flags=fl, bits=self.u(32))
        if kind == "pcontext":
            return r.CommandPContext(flags=fl, interface_id=self.syn(), transfer_syntax=self.syn())
        if kind == "header2":
            drep = p.DataRep(character=self.rng.choice(list(p.CharacterRep)), floating_point=self.rng.choice(list(p.FloatingPointRep)))
            return r.CommandHeader2(flags=fl, packet_type=self.rng.choice([p.PacketType.REQUEST, p.PacketType.RESPONSE, p.PacketType.FAULT]),
                                    data_rep=drep, call_id=self.u(32), context_id=self.u(16), opnum=self.u(16))
        typ = self.rng.choice([0, 4, 7, 0x2000, 0x3FFF, self.rng.randrange(4, 0x4000)])
        return r.Command(command=r.CommandType(typ), flags=fl, value=self.rng.randbytes(self.rng.choice([0, 1, 2, 3, 4, 5, 16, 40, 41])))

    CMD_KINDS = ("bitmask", "pcontext", "header2", "raw")

    def vt(self, n: int) -> t.Any:
        return self.rpc.VerificationTrailer([self.cmd(self.rng.choice(self.CMD_KINDS), i == n - 1) for i in range(n)])

    def floor(self, kind: str, ll: int = 0, rl: int = 0) -> t.Any:
        e = self.epm
        if kind == "tcp":
            return e.TCPFloor(self.rng.choice([135, 49152, 65535, 0, self.rng.randrange(65536)]))
        if kind == "ip":
            return e.IPFloor(self.u(32))
        if kind == "rpcco":
            return e.RPCConnectionOrientedFloor(self.u(16))
        if kind == "uuid":
            return e.UUIDFloor(self.uuid(), self.u(16), self.u(16))
        proto = self.rng.choice([0x00, 0x02, 0x08, 0x0A, 0x10, 0x11, 0x21, 0x22] if self.listed_protocols_only
                                else [0x00, 0x02, 0x08, 0x0A, 0x0F, 0x10, 0x11, 0x1F, 0x21, 0x22, 0x7F, 0xFF])
        return e.Floor(protocol=e.FloorProtocol(proto), lhs=self.rng.randbytes(ll), rhs=self.rng.randbytes(rl))

    def tower(self, residue: t.Optional[int] = None) -> list:
        """A tower whose octet-string length has the requested residue mod 8."""
        style = self.rng.randrange(5)
        if style == 0:
            fl = [self.floor("uuid"), self.floor("uuid"), self.floor("rpcco"), self.floor("tcp"), self.floor("ip")]
        elif style == 1:
            fl = [self.floor(self.rng.choice(["uuid", "rpcco", "tcp", "ip", "x"]), self.rng.randrange(4), self.rng.randrange(4))
                  for _ in range(self.rng.randrange(0, 5))]
        elif style == 2:
            fl = []
        elif style == 3:
            fl = [self.floor("tcp")]
        else:
            fl = [self.floor("uuid"), self.floor("uuid"), self.floor("rpcco"), self.floor("x", 0, self.rng.randrange(12))]
        if residue is not None:
            cur = 2 + sum(5 + len(p_floor(f)["lhs"]) + len(p_floor(f)["rhs"]) for f in fl)
            need = (residue - cur - 5) % 8
            a = self.rng.randrange(need + 1)
            fl.insert(self.rng.randrange(len(fl) + 1), self.floor("x", a, need - a))
        return fl

    def handle(self) -> t.Any:
        return None if self.rng.random() < 0.4 else (self.u(32), self.uuid())

    def eptmap(self, residue: int) -> t.Any:
        return self.epm.EptMap(obj=None if self.rng.random() < 0.5 else self.uuid(), tower=self.tower(residue), entry_handle=self.handle(),
                               max_towers=self.u(32))

    def eptres(self, residues: list[int]) -> t.Any:
        return self.epm.EptMapResult(entry_handle=self.handle(), towers=[self.tower(r) for r in residues],
                                     status=self.rng.choice([0, 0, 0, 0x16C9A0D6, self.u(32)]))


def one_round(g: Gen, rnd: int) -> t.Iterator[tuple[str, tuple, t.Any]]:
    """One pass over the shape space: (codec, shape key, message object)."""
    rng = g.rng
    auth = lambda: rng.choice([0, 0, 1, 2, 7, 8, 16, 63, 64, rng.randrange(1, 65)])  # noqa: E731
    for alter in (False, True):
        for nc in range(9):
            for mode in range(5):            # mode = transfer syntaxes of every context, or varied per context
                per = (lambda i, m=mode: m) if rnd % 2 == 0 else (lambda i, m=mode: (m + i) % 5)
                a = auth()
                yield "pdu", ("bind", alter, nc, mode, rnd % 2, a > 0), g.bind(alter, nc, per, a)
        for sl in range(9):
            for nr in range(7):
                a = auth()
                yield "pdu", ("bind_ack", alter, sl, nr, a > 0), g.bind_ack(alter, sl, nr, a)
    for nv in range(5):
        yield "pdu", ("bind_nak", nv), g.bind_nak(nv)
    stubs = [0, 1, 2, 3, 4, 7, 8, 9, 15, 16, 17, 33, 64, 200, 1024, rng.randrange(0, 5000)]
    for a in range(65):
        sl = stubs[(a + rnd) % len(stubs)]
        for obj in (False, True):
            yield "pdu", ("request", sl, obj, a), g.request(sl, obj, a)
        yield "pdu", ("response", sl, a), g.response(sl, a)
        yield "pdu", ("fault", sl, a), g.fault(sl, a)
        yield "sec", ("sec", a), g.sec(a)
    for _ in range(4):
        yield "syn", ("syn",), g.syn()
    for kind in Gen.CMD_KINDS:
        for end in (False, True):
            for _ in range(3):
                yield "cmd", ("cmd", kind, end), g.cmd(kind, end)
    for n in (1, 2, 3, 4):
        for _ in range(40):
            v = g.vt(n)
            yield "vt", ("vt", tuple(type(c).__name__ for c in v.commands)), v
    for kind in ("tcp", "ip", "rpcco", "uuid"):
        yield "floor", ("floor", kind), g.floor(kind)
    for ll in range(0, 9):
        for rl in range(0, 9):
            yield "floor", ("floor", "x", ll, rl), g.floor("x", ll, rl)
    for res in range(8):
        for _ in range(6):
            yield "eptmap", ("eptmap", res), g.eptmap(res)
    for nt in range(0, 5):
        for res in range(8):
            for _ in range(2 if nt else 1):
                rs = [res] + [rng.randrange(8) for _ in range(nt - 1)] if nt else []
                rng.shuffle(rs)
                yield "eptres", ("eptres", nt, tuple(rs)), g.eptres(rs)


# ---------------------------------------------------------------------------------------------
# executions of the real codec
# ---------------------------------------------------------------------------------------------
def roundtrip_row(rid: t.Any, k: str, obj: t.Any, dec: dict, t_: str = "enc", wire: t.Optional[bytes] = None, f: t.Optional[dict] = None) -> dict:
    """pack (unless `wire` is given), unpack, re-pack; project everything."""
    if wire is None:
        wire = obj.pack()
        f = project(k, obj, wire)
    row = {"id": rid, "t": t_, "k": k, "f": f, "b": bl(wire), "dec": "ok", "b2": [], "f2": {}}
    try:
        with taps.StepMeter(_PREFIX[0], 400 * len(wire) + 20000):     # a decoder that does not terminate on a valid encoding
            o2 = dec[k](wire)
        b2 = o2.pack()
        f2 = project(k, o2, wire)
        if k == "pdu" and "sa_pad" in f2 and "sa_pad" in f and len(f2["sa_pad"]) == len(f["sa_pad"]):
            f2["sa_pad"] = f["sa_pad"]                                          # pad octets are not fields
        if k == "eptmap":
            f2["ref_obj"], f2["ref_tower"] = f["ref_obj"], f["ref_tower"]     # referent ids are not fields
        if k == "eptres":
            f2["max"] = f["max"]
            f2["refs"] = f["refs"] if len(f2["refs"]) == len(f["refs"]) else f2["refs"]
        row["b2"], row["f2"] = bl(b2), f2
    except taps.BudgetExceeded:
        row["dec"] = "error:work_budget_exceeded"
    except Exception as e:  # noqa
        row["dec"] = "error:" + type(e).__name__
    finally:
        sys.settrace(None)
    return row


_PREFIX = [""]


def _set_prefix() -> str:
    import dpapi_ng

    _PREFIX[0] = os.path.dirname(dpapi_ng.__file__)
    return _PREFIX[0]


def run_decoder(name: str, fn: t.Callable, data: bytes, prefix: str) -> tuple[str, int, str]:
    """-> (outcome, line events, exception class)"""
    budget = 400 * len(data) + 20000
    m = taps.StepMeter(prefix, budget)
    exc = ""
    try:
        with m:
            fn(data)
        out = "ok"
    except taps.BudgetExceeded:
        out = "budget"
    except RecursionError:
        out, exc = "error", "RecursionError"
    except Exception as e:  # noqa
        out, exc = "error", type(e).__name__
    finally:
        sys.settrace(None)
    return out, m.n, exc


def _mutations(rng: t.Any, valid: dict[str, list[bytes]], thorough: bool) -> t.Iterator[tuple[str, str, bytes]]:
    """(codec, source class, bytes): small first so that a non-terminating decoder is found cheaply."""
    ks = list(valid)
    # every truncation and every single byte forced to 0xFF / 0x00 of short valid messages
    for k in ks:
        short = sorted((v for v in valid[k] if len(v) <= 120), key=len)[: (6 if thorough else 2)]
        for v in short:
            for n in range(len(v)):
                yield k, "truncated", v[:n]
            for i in range(len(v)):
                for val in (0xFF, 0x00) if thorough else (0xFF,):
                    if v[i] != val:
                        yield k, "byte_forced", v[:i] + bytes([val]) + v[i + 1:]
    for k in ks:
        for n in list(range(0, 65)) + [100, 255, 256, 1000]:
            yield k, "random", rng.randbytes(n)
            yield k, "zeros", b"\x00" * n
            yield k, "ones", b"\xff" * n
    # random multi-byte mutations of valid messages of any size, with appended garbage
    for k in ks:
        for _ in range(120 if thorough else 25):
            v = bytearray(rng.choice(valid[k]))
            for _ in range(rng.randrange(1, 6)):
                if v:
                    v[rng.randrange(len(v))] = rng.choice([0, 1, 0x40, 0x7F, 0x80, 0xFF, rng.randrange(256)])
            if rng.random() < 0.3:
                v += rng.randbytes(rng.randrange(64))
            yield k, "mutated", bytes(v[:MAXFRAG])
    # structured adversarial inputs
    sig = b"\x8a\xe3\x13\x71\x02\xf4\x36\x71"
    for n in (1, 100, 5000, (MAXFRAG - 12) // 4):
        yield "vt", "many_commands_then_end", sig + b"\x07\x00\x00\x00" * n + b"\x07\x40\x00\x00"
        yield "vt", "many_commands_no_end", (sig + b"\x07\x00\x00\x00" * n)[:MAXFRAG]
    for pt in (0, 2, 3, 11, 12, 13, 14, 15):
        for n in (16, 17, 24, 28, 40, 64, 300, 5000, MAXFRAG):
            body = rng.randbytes(n - 16) if n < 5000 else (b"\xff" * (n - 16) if pt % 2 else rng.randbytes(n - 16))
            for alen in (0, 4, 0xFFFF):
                yield "pdu", "random_body", struct.pack("<BBBB4sHHI", 5, 0, pt, 0x83, b"\x10\x00\x00\x00", n, alen, 1) + body
    for cnt in (0, 1, 2, 3, 1000, 8191, 2 ** 16, 2 ** 31, 2 ** 32, 2 ** 40, 2 ** 63, 2 ** 64 - 1):
        for n in (0, 4, 14, 100, 5000, MAXFRAG - 52):
            head = b"\x00" * 20 + struct.pack("<IQQQ", cnt & 0xFFFFFFFF, cnt, 0, cnt)
            yield "eptres", "announced_count", head + rng.randbytes(n) + b"\x00" * 4
            yield "eptres", "announced_count_zero_data", head + b"\x00" * n + b"\x00" * 4
    for fl in (0, 1, 5, 1000, 65535):
        for n in (0, 7, 100, 5000, MAXFRAG - 46):
            yield "eptmap", "announced_floors", b"\x01" + b"\x00" * 31 + struct.pack("<QIH", n + 2, n + 2, fl) + rng.randbytes(n)
    # up to one fragment of noise
    for k in ks:
        for n in (4096, 20000, MAXFRAG):
            yield k, "random_large", rng.randbytes(n)
            yield k, "zeros_large", b"\x00" * n
            yield k, "ones_large", b"\xff" * n


# ---------------------------------------------------------------------------------------------
# calibration on the captured PDUs of the repository's tests
# ---------------------------------------------------------------------------------------------
def _codec_of_test(name: str) -> t.Optional[str]:
    rules = [("test_pdu_header", "hdr"), ("test_sec_trailer", "sec"), ("test_fault", "pdu"), ("test_bind", "pdu"), ("test_alter", "pdu"),
             ("test_request", "pdu"), ("test_response", "pdu"), ("test_verification_trailer", "vt"), ("test_command", "cmd"),
             ("test_unknown_command", "cmd"), ("test_ept_map_result", "eptres"), ("test_ept_map", "eptmap"), ("test_unpack_unknown_floor", "floor")]
    for pre, k in rules:
        if name.startswith(pre):
            return k
    return None


def captured(ctx: Ctx) -> list[tuple[str, str, str, bytes, t.Any]]:
    """(test name, codec, 'pack'|'unpack', bytes literal, message object built by the test or None)"""
    out = []
    files = sorted((REPO / "tests/_rpc").glob("test_*.py")) + [REPO / "tests/test_epm.py"]
    for p in files:
        if p.name == "test_client.py":
            continue
        spec = importlib.util.spec_from_file_location("c12_cap_" + p.stem, p)
        mod = importlib.util.module_from_spec(spec)  # type: ignore[arg-type]
        spec.loader.exec_module(mod)  # type: ignore[union-attr]
        for name, fn in sorted(vars(mod).items()):
            if not name.startswith("test_") or not inspect.isfunction(fn) or inspect.signature(fn).parameters:
                continue
            k = _codec_of_test(name)
            if k is None:
                continue
            cap: dict = {}
            code = fn.__code__

            def prof(frame, event, arg, code=code, cap=cap):  # noqa
                if event == "return" and frame.f_code is code:
                    cap.update(frame.f_locals)

            sys.setprofile(prof)
            try:
                with taps.StepMeter(_PREFIX[0], 300000):     # the tests call the real codec: keep a broken tree from hanging us
                    fn()
            except BaseException:  # noqa  (a mutated tree fails its own tests; the literals are still captured)
                pass
            finally:
                sys.setprofile(None)
                sys.settrace(None)
            if isinstance(cap.get("expected"), bytes) and cap.get("msg") is not None:
                out.append((f"{p.stem}.{name}", k, "pack", cap["expected"], cap["msg"]))
            elif isinstance(cap.get("data"), bytes):
                out.append((f"{p.stem}.{name}", k, "unpack", cap["data"], None))
    if len(out) < 40:
        raise MachineryError(f"calibration: only {len(out)} captured PDUs found in the repository's tests")
    return out


def calibration_rows(ctx: Ctx, dec: dict) -> list[dict]:
    rows = []
    for name, k, how, data, msg in captured(ctx):
        rid = f"cal:{name}"
        if how == "pack":
            f = p_pdu(msg, data, kind_from_ptype=True) if k == "pdu" else project(k, msg, data)
            rows.append({"id": rid, "t": "calib", "k": k, "f": f, "b": bl(data)})
        else:
            row = {"id": rid, "t": "capdec", "k": k, "b": bl(data), "dec": "ok", "f2": {}}
            try:
                with taps.StepMeter(_PREFIX[0], 400 * len(data) + 20000):
                    o = dec[k](data)
                f2 = project(k, o, data)
                if k == "eptres":       # count fields as on the wire (the decoder does not keep them)
                    f2["num"], f2["count"] = bl(data[20:24]), bl(data[40:48])
                row["f2"] = f2
            except taps.BudgetExceeded:
                row["dec"] = "error:work_budget_exceeded"
            except Exception as e:  # noqa
                row["dec"] = "error:" + type(e).__name__
            finally:
                sys.settrace(None)
            rows.append(row)
    return rows


# ---------------------------------------------------------------------------------------------
def _tlc_models(ctx: Ctx) -> tuple[list[dict], list[dict]]:
    r = run_tlc("MC_RpcPdu", "MC_RpcPdu.cfg", rundir=ctx.rundir)
    require_ok(r, "RpcPdu spec-level inverse over enumerated shapes")
    ctx.add_tlc(r, "RpcPdu: Dec(Enc(m)) = m, well-formedness, alignment for bind/alter (0..8 ctx x 0..4 ts x 4 auth), bind_ack/alter_resp "
                   "(sec_addr 0..8 x 0..6 results x 3 auth), bind_nak 0..4, request/response/fault (5 stubs x obj x 4 auth), sec trailer auth 0..64, "
                   "all command lists 1..4 over 6 command kinds")
    r = run_tlc("MC_RpcPdu", "MC_RpcPdu_loops.cfg", rundir=ctx.rundir, deadlock=False)
    require_ok(r, "RpcPdu decoder loops: bounded iterations and termination")
    ctx.add_tlc(r, "RpcPdu decoder loop machines (context / result / version / command lists) on announced counts 0..255 vs truncated data, "
                   "command lists without END, lengths beyond data: IterationsBounded, NoEndIsRejected, Terminates")
    loops = r.cases()
    if len(loops) < 1000 or not any(c["what"] == "no_end" for c in loops):
        raise MachineryError(f"MC_RpcPdu_loops emitted {len(loops)} cases")
    cfg = "MC_Epm_full.cfg" if ctx.thorough else "MC_Epm_quick.cfg"
    r = run_tlc("MC_Epm", cfg, rundir=ctx.rundir, deadlock=False, timeout=3000)
    require_ok(r, "Epm spec-level inverse and result decoder machine")
    ctx.add_tlc(r, f"Epm ({cfg}): floor/tower/ept_map inverse lemmas over 24 tower templates (every length residue mod 8), ept_map result "
                   "decoder machine over all tower lists x announced-count variants x statuses: WellFormedIsDecoded, IterationsBounded, "
                   "AbsurdCountIsRejected, Aligned, Terminates")
    return loops, r.cases()


def _judge(ctx: Ctx, rows: dict, bad: dict, stats: list[dict], dec: dict, phase: str) -> list[dict]:
    """Turn TLC's verdicts into violations / drift; returns follow-up 'specdec' rows."""
    spec_bytes = {}
    for st in stats:
        for rid, b in st.get("spec", []):
            spec_bytes[rid] = bytes(b)
    follow = []
    for rid, clauses in bad.items():
        row = rows[rid]
        mach = [c for c in clauses if c.startswith("MACHINERY")]
        if mach:
            raise MachineryError(f"{mach[0]}: row {json.dumps(row)[:1500]}")
        real = [c for c in clauses if not c.startswith("DRIFT") and not c.startswith("NOTE")]
        cls = row.get("cls", row.get("k", "?"))
        for c in clauses:
            if c.startswith("DRIFT") or c.startswith("NOTE"):
                ctx.note_drift(f"{c.split('_', 1)[1]}:{cls}")
        if "DRIFT_encoding_differs_from_layout" in clauses and rid in spec_bytes and row["t"] == "enc":
            sb = spec_bytes[rid]
            f = row["f"]
            if row["k"] == "pdu" and f["hdr"]["frag_len"] != len(sb):      # Norm(k, f) of TraceRpcPdu
                f = {**f, "hdr": {**f["hdr"], "frag_len": len(sb)}}
            r2 = roundtrip_row(f"sd:{rid}", row["k"], None, dec, t_="specdec", wire=sb, f=f)
            r2["cls"] = cls
            follow.append(r2)
        if not real:
            continue
        if row["t"] == "term":
            ctx.violation(f"nonterm:{row['dec_name']}", "decoder_does_not_terminate_in_linear_work",
                          {k: row[k] for k in ("dec_name", "src", "len", "steps", "out")} | {"input_hex": row["hex"][:4000]},
                          f"{row['dec_name']} on a {row['len']}-byte string ({row['src']}): {row['steps']} line events, budget "
                          f"{400 * row['len'] + 20000}, outcome {row['out']}; input {row['hex'][:160]}")
        else:
            what = {"enc": "library encoding", "specdec": "spec (protocol) encoding", "capdec": "captured PDU"}[row["t"]]
            ctx.violation(f"inverse:{cls}:{real[0]}", ",".join(real),
                          {k: row.get(k) for k in ("t", "k", "shape", "f", "dec", "f2")} | {"b_hex": bytes(row["b"]).hex(), "b2_hex": bytes(row.get("b2", [])).hex()},
                          f"{cls} {row.get('shape', '')}: decoding the {what} {bytes(row['b']).hex()[:200]} -> {row['dec']}; re-encoded "
                          f"{bytes(row.get('b2', [])).hex()[:200]}")
    return follow


def _shape_tag(k: str, obj: t.Any, wire: bytes) -> str:
    if k == "eptres":
        res = sorted({(2 + sum(5 + len(p_floor(f)["lhs"]) + len(p_floor(f)["rhs"]) for f in tw)) % 8 for tw in obj.towers})
        return "tower_len_mod8=" + "/".join(map(str, res)) if res else "no_towers"
    return ""


def run(ctx: Ctx) -> int:
    prefix = _set_prefix()
    loops, epmcases = _tlc_models(ctx)
    dec = decoders()
    g = Gen(ctx.rng)

    # ---- calibration ------------------------------------------------------------------------------
    cal = calibration_rows(ctx, dec)
    bad, stats = validate(ctx, "TraceRpcPdu", "TraceRpcPdu.cfg", cal, chunk=40, what="calib", count_traces=False)
    byid = {r["id"]: r for r in cal}
    for r in cal:
        r["cls"] = r["id"]
    _judge(ctx, byid, bad, stats, dec, "calib")
    ctx.assume(f"spec layouts calibrated on {len(cal)} captured PDUs of tests/_rpc and tests/test_epm.py "
               f"({sum(1 for r in cal if r['t'] == 'calib')} with the field values stated by the tests)")

    # ---- inverse: real pack / unpack / re-pack of generated well-formed messages ----------------------
    rounds = ctx.pick(6, 100)
    rid = 0
    valid: dict[str, list[bytes]] = {}
    pending: list[dict] = []
    follow_all: list[dict] = []

    def flush() -> None:
        nonlocal pending
        if not pending:
            return
        byid = {r["id"]: r for r in pending}
        bad, stats = validate(ctx, "TraceRpcPdu", "TraceRpcPdu.cfg", pending, chunk=ctx.pick(450, 1200), what=f"enc{rid}")
        follow_all.extend(_judge(ctx, byid, bad, stats, dec, "enc"))
        pending = []

    for rnd in range(rounds):
        for k, shape, obj in one_round(g, rnd):
            rid += 1
            try:
                row = roundtrip_row(rid, k, obj, dec)
            except Exception as e:  # noqa  pack() of a well-formed message failed
                ctx.violation(f"inverse:{type(obj).__name__}:encoding_fails", "encoding_well_formed_message_fails", {"shape": shape, "obj": repr(obj)[:800]},
                              f"{type(e).__name__}: {e}")
                continue
            row["cls"] = type(obj).__name__ if k != "pdu" else type(obj).__name__
            row["shape"] = _shape_tag(k, obj, bytes(row["b"]))
            ctx.count(2)
            ctx.distinct((k, shape))
            if len(valid.setdefault(k, [])) < 400:
                valid[k].append(bytes(row["b"]))
            if rid % 997 == 0:
                ctx.sample({"codec": k, "class": row["cls"], "bytes": bytes(row["b"]).hex()[:160], "decode": row["dec"]})
            pending.append(row)
        if len(pending) >= 12000:
            flush()
    flush()
    if follow_all:
        byid = {r["id"]: r for r in follow_all}
        bad, stats = validate(ctx, "TraceRpcPdu", "TraceRpcPdu.cfg", follow_all, chunk=400, what="specdec")
        _judge(ctx, byid, bad, stats, dec, "specdec")
        ctx.count(len(follow_all))

    # ---- termination: real decoders under the step meter ------------------------------------------------
    inputs: list[tuple[str, str, bytes]] = []
    seen = set()
    for c in loops:
        k = "vt" if c["loop"] == "cmd" else "pdu"
        w = bytes(c["wire"])
        if (k, w) not in seen:
            seen.add((k, w))
            inputs.append((k, f"tlc:{c['loop']}:{c['what']}", w))
    adv = [c for c in epmcases if not c["wf"]]
    wf = [c for c in epmcases if c["wf"]]
    for c in adv + wf[:: max(1, len(wf) // 300)]:
        w = bytes(c["wire"])
        if ("eptres", w) not in seen:
            seen.add(("eptres", w))
            inputs.append(("eptres", "tlc:towers:" + ("well_formed" if c["wf"] else "announced_count"), w))
    valid.setdefault("hdr", [v[:16] for v in valid.get("pdu", [])[:50]])
    inputs.extend(_mutations(ctx.rng, valid, ctx.thorough))
    trows = []
    blown: dict[str, int] = {}
    skipped: dict[str, int] = {}
    for i, (k, src, data) in enumerate(inputs):
        name = DECODER_NAMES[k]
        if blown.get(name, 0) >= 10 or (blown.get(name, 0) >= 2 and len(data) > 300):
            skipped[name] = skipped.get(name, 0) + 1      # the decoder is already shown not to terminate; keep the run short
            continue
        out, steps, exc = run_decoder(name, dec[k], data, prefix)
        if out == "budget":
            blown[name] = blown.get(name, 0) + 1
        trows.append({"id": f"t{i}", "t": "term", "dec_name": name, "src": src, "len": len(data), "steps": min(steps, 2 ** 31 - 1), "out": out,
                      "exc": exc, "hex": data.hex() if out == "budget" or len(data) <= 64 else data[:64].hex() + "..."})
        ctx.count(1)
        ctx.distinct(("term", name, src, len(data) if len(data) < 70 else len(data) // 1000))
    bad, stats = validate(ctx, "TraceRpcPdu", "TraceRpcPdu.cfg", trows, chunk=4000, what="term")
    # one violation per decoder, smallest failing input first
    byid = {r["id"]: r for r in trows}
    order = sorted(bad, key=lambda i: byid[i]["len"])
    _judge(ctx, byid, {i: bad[i] for i in order}, stats, dec, "term")
    if skipped:
        ctx.cov["skipped_after_budget_violations"] = skipped
    worst = max(trows, key=lambda r: (r["steps"] / (400 * r["len"] + 20000)) if r["out"] != "budget" else 0)
    ctx.cov["largest_fraction_of_work_budget_used"] = {"decoder": worst["dec_name"], "len": worst["len"], "steps": worst["steps"],
                                                       "fraction": round(worst["steps"] / (400 * worst["len"] + 20000), 4)}
    ctx.assume("line events of files under src/dpapi_ng (sys.settrace) are the measure of decoder work; native work inside bytes/memoryview "
               "operations is linear in the slice length")
    ctx.assume("projection of library objects to spec field values (harness/drivers/c12.py project) is trusted; referent ids and the "
               "max count of the ept_map result are free wire values constrained by WellFormed*")
    return ctx.finish(
        rule="messages: every shape of the quantifier (bind/alter 0..8 contexts x 0..4 transfer syntaxes, bind_ack/alter_resp secondary "
             "address 0..8 chars x 0..6 results, bind_nak 0..4, request/response/fault with auth 0..64, object uuid on/off, 16 stub lengths, "
             "sec trailers 0..64, command lists 1..4, floors lhs/rhs 0..8, ept_map / ept_map result towers of every length residue mod 8) "
             "x rounds of random field values; each packed, unpacked and re-packed by the real code and validated by TraceRpcPdu (TLC). "
             "byte strings: TLC-emitted decoder-loop inputs, every truncation / forced byte of short valid messages, random, mutated, "
             "structured adversarial counts, up to 65535 bytes; distinct = (codec, shape) and (decoder, source class, length class)",
    )


def selftest(ctx: Ctx) -> int:
    from ..tracecheck import selftest_expect_reject

    dec = decoders()
    _set_prefix()
    g = Gen(ctx.rng)
    g.listed_protocols_only = True
    good, badrows = [], []
    n = 0
    for k, shape, obj in one_round(g, 0):
        n += 1
        if n % 23:
            continue
        if k == "eptres":        # the pinned encoder is not inverse for every tower length: use the spec-conformant residue only
            obj = g.epm.EptMapResult(entry_handle=None, towers=[g.tower(3), g.tower(3)], status=0)
        row = roundtrip_row(f"g{n}", k, obj, dec)
        if row["dec"] != "ok":
            raise MachineryError(f"selftest: cannot decode {k}: {row['dec']}")
        good.append(row)
        c = json.loads(json.dumps(row))
        c["id"] = f"b{n}"
        m = n % 4
        if m == 0 and c["b"]:
            i = len(c["b"]) // 2
            c["b2"] = c["b2"][:i] + [(c["b2"][i] + 1) % 256] + c["b2"][i + 1:]          # re-encoding differs in one byte
        elif m == 1:
            c["f2"] = _perturb(c["f2"])                                                   # one decoded field value differs
        elif m == 2:
            c["dec"] = "error:IndexError"                                                  # decoder failed
        else:
            c["t"] = "specdec"
            c["b"] = c["b"] + [0]                                                          # not the spec encoding of f
        badrows.append(c)
    tg = [{"id": f"tg{i}", "t": "term", "dec_name": "x", "src": "s", "len": L, "steps": 400 * L + 20000, "out": "ok", "exc": "", "hex": ""}
          for i, L in enumerate((0, 1, 100, 65535))]
    tb = [{**r, "id": "tb" + r["id"], "steps": r["steps"] + 1} for r in tg] + [{**tg[0], "id": "tbb", "steps": 5, "out": "budget"}]
    cal = calibration_rows(ctx, dec)
    pre, _ = validate(ctx, "TraceRpcPdu", "TraceRpcPdu.cfg", cal, chunk=200, what="selftest-cal", count_traces=False)
    cal = [r for r in cal if not (r["id"] in pre and all(c.startswith("NOTE") for c in pre[r["id"]]))]
    calbad = []
    for r in cal:
        c = json.loads(json.dumps(r))
        c["id"] = "x" + c["id"]
        c["b"] = c["b"][:-1] + [(c["b"][-1] + 1) % 256]
        calbad.append(c)
    selftest_expect_reject(ctx, "TraceRpcPdu", "TraceRpcPdu.cfg", good + tg + cal, badrows + tb + calbad, "c12")
    print(f"selftest C12 ok: {len(good)} accepted round trips / {len(cal)} captured PDUs; corrupted re-encoding, field value, decoder failure, "
          f"non-spec bytes, blown work budget and altered captured bytes are all rejected ({len(badrows) + len(tb) + len(calbad)} rows)")
    return 0


def _perturb(f: t.Any) -> t.Any:
    """Change one leaf of a field record."""
    if isinstance(f, dict):
        for key in sorted(f, reverse=True):
            v = f[key]
            if isinstance(v, int) and not isinstance(v, bool):
                return {**f, key: v + 1}
            if isinstance(v, list) and v and all(isinstance(x, int) for x in v):
                return {**f, key: [(v[0] + 1) % 256] + v[1:]}
        for key in sorted(f):
            v = f[key]
            if isinstance(v, (dict, list)) and v:
                p = _perturb(v)
                if p != v:
                    return {**f, key: p}
        return {**f, "extra_field": 1}
    if isinstance(f, list) and f:
        if isinstance(f[0], (dict, list)):
            return [_perturb(f[0])] + f[1:]
        return [(f[0] + 1) % 256] + f[1:]
    return f
