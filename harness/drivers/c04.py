"""C04 — a modified blob never decrypts to different plaintext."""
from __future__ import annotations

import typing as t

from .. import taps  # noqa: F401
from .. import blobfuzz
from ..core import SPEC, Ctx, MachineryError
from ..tlc import require_ok, run_tlc
from ..tracecheck import validate

OUT = {"error": "error", "needs_network": "needs_network", "plain": "plain_ok"}


def run(ctx: Ctx) -> int:
    r = run_tlc("MC_Blob", "MC_Blob_tamper.cfg", rundir=ctx.rundir)
    require_ok(r, "Blob tamper model")
    ctx.add_tlc(r, "Blob.tla: 15 field classes x 5 tamper kinds, every path of <= 2 tampers, both layouts: NoForgery")
    cfg = ctx.rundir / "emit.cfg"
    cfg.write_text(open(SPEC / "MC_Blob_tamper.cfg").read().replace("INVARIANT NoForgery", "CONSTRAINT EmitTamper\nINVARIANT NoForgery"))
    em = run_tlc("MC_Blob", str(cfg), rundir=ctx.rundir, workers=4, tag="emit")
    paths: dict[tuple, list[str]] = {}
    for c in em.cases("CASE"):
        if c["cfg"]["pt"] != "len16":
            continue
        key = (c["cfg"]["layout"], tuple((f, k) for f, k in c["tampers"]))
        paths[key] = sorted({OUT[a[0]] for a in c["allowed"]})
    if len(paths) < 5000:
        raise MachineryError(f"only {len(paths)} tamper paths emitted")
    rng = ctx.rng
    hashes = ["SHA1", "SHA256", "SHA384", "SHA512"]
    combos = [(hashes[(ctx.seed + i) % 4], m, lay) for i, (m, lay) in enumerate(
        [("nonce", "in_envelope"), ("nonce", "trailing"), ("DH", "in_envelope"), ("ECDH_P256", "trailing")] if not ctx.thorough else
        [(m, lay) for m in ("nonce", "DH", "ECDH_P256", "ECDH_P384") for lay in ("in_envelope", "trailing")] * 2)]
    rows: list[dict] = []

    def add(tg: blobfuzz.Target, data: bytes, fields: list[str], kinds: list[str], what: str, allowed: list[str], cache: t.Any = None) -> None:
        res, exc, _, _ = tg.unprotect(data, kdf_budget=400, cache=cache)
        if res in ("kdf_budget", "step_budget"):
            res = "error"
        rows.append({"id": len(rows), "kind": "tamper", "layout": tg.layout, "mode": tg.mode, "hash": tg.h, "fields": fields, "kinds": kinds, "what": what,
                     "res": res, "exc": exc, "allowed": allowed})

    for h, mode, layout in combos:
        tg = blobfuzz.Target(rng, h, mode, layout, rng.randbytes(rng.choice([1, 16, 33])))
        nbits = len(tg.blob) * 8
        # every single-bit flip at every bit position (DH blobs: every bit of the first 2 KiB of bits + a sample, in quick)
        bits = range(nbits) if (ctx.thorough or nbits < 4000) else sorted(set(list(range(0, 1600)) + list(range(nbits - 1200, nbits)) + rng.sample(range(nbits), 1200)))
        for bit in bits:
            b = bytearray(tg.blob)
            b[bit // 8] ^= 1 << (bit % 8)
            fld = blobfuzz.field_of(tg.fields, bit // 8)
            add(tg, bytes(b), [fld], ["flip"], f"bit {bit}", paths.get((layout, ((fld, "flip"),)), ["error"]))
            ctx.distinct((mode, layout, "bit", bit))
        # every truncation
        for n in range(len(tg.blob)):
            add(tg, tg.blob[:n], [blobfuzz.field_of(tg.fields, n)], ["truncate"], f"truncate {n}", ["error", "needs_network"])
        # TLC-emitted single and multi-site paths, concretised at seeded positions
        keys = [k for k in paths if k[0] == layout]
        for key in (keys if ctx.thorough else rng.sample(keys, 900)):
            data, sites = blobfuzz.apply(tg.blob, rng, tg.fields, list(key[1]), in_envelope=(layout == "in_envelope"))
            add(tg, data, [f for f, _ in key[1]], [k for _, k in key[1]], f"sites {[(s[0], s[2]) for s in sites]}", paths[key])
            ctx.distinct((mode, layout, key[1]))
        # a second valid blob under the same key material; fields of one spliced into the other, decrypted through ONE
        # long-lived cache that has already decrypted both valid blobs (history must not make a forgery succeed)
        import dpapi_ng

        shared = tg.fresh_cache()
        if mode == "nonce":
            other_pt = rng.randbytes(len(tg.pt)) if tg.pt else b"x"
            other = dpapi_ng.ncrypt_protect_secret(other_pt, blobfuzz.SID, root_key_identifier=tg.rkid, cache=shared)
            if layout == "trailing":
                from dpapi_ng._blob import DPAPINGBlob

                other = DPAPINGBlob.unpack(other).pack(blob_in_envelope=False)
            other = bytes(other)
            of = blobfuzz.field_ranges(other)
            if dpapi_ng.ncrypt_unprotect_secret(other, cache=shared) != other_pt or dpapi_ng.ncrypt_unprotect_secret(tg.blob, cache=shared) != tg.pt:
                raise MachineryError("shared-cache warm-up failed")
            for combo in (["wrapped_cek"], ["gcm_nonce"], ["kid_key_info"], ["ciphertext"], ["tag"], ["wrapped_cek", "kid_key_info"], ["wrapped_cek", "gcm_nonce"],
                          ["ciphertext", "tag"], ["wrapped_cek", "kid_key_info", "gcm_nonce"], ["kid_key_info", "gcm_nonce", "ciphertext", "tag"]):
                b = bytearray(tg.blob)
                ok = True
                for fld in combo:
                    (a0, a1), (b0, b1) = tg.fields[fld][0], of[fld][0]
                    if a1 - a0 != b1 - b0:
                        ok = False
                        break
                    b[a0:a1] = other[b0:b1]
                if ok:
                    for rep in range(2):
                        add(tg, bytes(b), combo, ["substitute"] * len(combo), f"splice {combo} from another valid blob (shared cache)", ["error", "plain_ok"], cache=shared)
                    add(tg, bytes(b), combo, ["substitute"] * len(combo), f"splice {combo} from another valid blob (fresh cache)", ["error", "plain_ok"])
            # tampered variants of the already-decrypted blob through the same shared cache
            for bit in rng.sample(range(len(tg.blob) * 8), 300):
                b = bytearray(tg.blob)
                b[bit // 8] ^= 1 << (bit % 8)
                add(tg, bytes(b), [blobfuzz.field_of(tg.fields, bit // 8)], ["flip"], f"bit {bit} (shared cache)", ["error", "needs_network", "plain_ok"], cache=shared)
        # byte substitutions / insertions / deletions at random positions, 3-site mutations
        for _ in range(ctx.pick(600, 6000)):
            b = bytearray(tg.blob)
            nsite = rng.choice([1, 1, 2, 3])
            kinds = []
            for _s in range(nsite):
                pos = rng.randrange(len(b))
                k = rng.choice(["substitute", "insert", "delete"])
                kinds.append(k)
                if k == "substitute":
                    b[pos] = rng.randrange(256)
                elif k == "insert":
                    b[pos:pos] = rng.randbytes(rng.randrange(1, 4))
                else:
                    del b[pos]
            add(tg, bytes(b), ["random"], kinds, "random sites", ["error", "needs_network", "plain_ok"])
    ctx.count(len(rows))
    slim = [{k: r_[k] for k in ("id", "kind", "res", "allowed")} for r_ in rows]
    bad, stats = validate(ctx, "TraceBlob", "TraceBlob.cfg", slim, chunk=8000, what="tamper")
    ctx.note_drift("outcome_outside_field_class_prediction", sum(s.get("drift", 0) for s in stats))
    for i, clauses in bad.items():
        r_ = rows[i]
        ctx.violation(f"tamper:{clauses[0]}:{r_['mode']}:{r_['layout']}:{r_['fields'][0]}", ",".join(clauses), r_,
                      f"{r_['hash']} {r_['mode']} {r_['layout']}: {r_['what']} in {r_['fields']} ({r_['kinds']}) decrypted to DIFFERENT plaintext")
    from collections import Counter
    ctx.cov["outcomes"] = dict(Counter(r_["res"] for r_ in rows))
    ctx.cov["same_plaintext_by_field"] = dict(Counter(r_["fields"][0] for r_ in rows if r_["res"] == "plain_ok" and r_["kinds"] == ["flip"]))
    for r_ in rows[:1] + [x for x in rows if x["res"] == "plain_ok"][:1] + rows[-1:]:
        ctx.sample({k: r_[k] for k in ("layout", "mode", "fields", "kinds", "what", "res", "exc", "allowed")})
    ctx.assume("AES-KW / AES-GCM authenticity assumed of `cryptography`; decryption with the correct offline root key; DNS and sockets tapped (network attempt = allowed outcome)")
    return ctx.finish(
        rule="valid blobs made by the library (quick: nonce in-envelope, nonce trailing, DH in-envelope, P-256 trailing, hash rotating with the seed; "
        "thorough: every mode x layout); every single-bit flip at every bit position (quick: all bits of small blobs, 4,000 bits of the DH blob), every "
        "truncation, TLC-emitted 1- and 2-site tamper paths (field class x kind) concretised at seeded offsets from the blob's own layout, random "
        "multi-site byte substitutions/insertions/deletions; outcome judged by TraceBlob (TLC): never a different plaintext",
    )


def selftest(ctx: Ctx) -> int:
    from ..tracecheck import selftest_expect_reject

    good = [{"id": 0, "kind": "tamper", "res": "error", "allowed": ["error"]}, {"id": 1, "kind": "tamper", "res": "plain_ok", "allowed": ["error"]}]
    bad = [{"id": 2, "kind": "tamper", "res": "plain_different", "allowed": ["error"]}]
    selftest_expect_reject(ctx, "TraceBlob", "TraceBlob.cfg", good, bad, "c04")
    print("selftest C04 ok")
    return 0
