"""C04 — a modified blob never decrypts to different plaintext."""
from __future__ import annotations

import typing as t

from .. import taps  # noqa: F401
from .. import blobfuzz
from ..core import SPEC, Ctx, MachineryError
from ..tlc import require_ok, run_tlc
from ..tracecheck import validate

OUT = {"error": "error", "needs_network": "needs_network", "plain": "plain_ok"}


def _binding(data: bytes) -> t.Optional[tuple]:
    """(SID as integers, root key id, L0, L1, L2, nonce) as the decrypting side locates them; None if it cannot."""
    import re

    from dpapi_ng._blob import DPAPINGBlob

    try:
        b = DPAPINGBlob.unpack(data)
        k = b.key_identifier
        m = re.fullmatch(r"(.)-(\d+)-(\d+)((?:-\d+)+)", str(b.protection_descriptor.value), re.S)
        if not m:
            return None
        # the numbers as integers (a leading zero is not a different SID) and the literal first character
        sid = (m.group(1), int(m.group(2)), int(m.group(3)), tuple(int(x) for x in m.group(4)[1:].split("-")))
        ki = bytes(k.key_info)
        pub = bool(int(k.flags) & 1)          # the flag as stored in the blob (MS-GKDI), not a derived property
        if not pub:
            kb: t.Any = ki                   # the key-identifier nonce is the KDF context
        else:
            # ephemeral public key (MS-GKDI 2.2.3): the modulus and the public value of an FFC DH key, both coordinates of an
            # ECDH key, and the field width decide the shared secret; the generator g of the DH key blob does not (it is not
            # used when decrypting), so a change there may legitimately be accepted
            magic, kl = ki[:4], int.from_bytes(ki[4:8], "little")
            if magic == b"DHPB" and 0 < kl and len(ki) >= 8 + 3 * kl:          # octets after the three fields are not part of the key
                kb = ("DH", kl, int.from_bytes(ki[8 : 8 + kl], "big"), int.from_bytes(ki[8 + 2 * kl : 8 + 3 * kl], "big"))
            elif magic[:3] == b"ECK" and 0 < kl and len(ki) >= 8 + 2 * kl:
                kb = (magic, kl, int.from_bytes(ki[8 : 8 + kl], "big"), int.from_bytes(ki[8 + kl : 8 + 2 * kl], "big"))
            else:
                kb = None       # not recognisable as a key blob: no claim about key_info itself (the flag below still counts)
        return (sid, str(k.root_key_identifier), int(k.l0), int(k.l1), int(k.l2), pub, kb)
    except Exception:  # noqa
        return None


def run(ctx: Ctx) -> int:
    r = run_tlc("MC_Blob", "MC_Blob_tamper.cfg", rundir=ctx.rundir)
    require_ok(r, "Blob tamper model")
    ctx.add_tlc(r, "Blob.tla: 15 field classes x 5 tamper kinds, every path of <= 2 tampers, both layouts: NoForgery")
    cfg = ctx.rundir / "emit.cfg"
    cfg.write_text(open(SPEC / "MC_Blob_tamper.cfg").read().replace("INVARIANT NoForgery", "CONSTRAINT EmitTamper\nINVARIANT NoForgery"))
    em = run_tlc("MC_Blob", str(cfg), rundir=ctx.rundir, workers=4, tag="emit")
    paths: dict[tuple, list[str]] = {}
    for c in em.cases("CASE"):
        if c["cfg"]["pt"] != "len16":
            continue
        key = (c["cfg"]["layout"], tuple((f, k) for f, k in c["tampers"]))
        paths[key] = sorted({OUT[a[0]] for a in c["allowed"]})
    if len(paths) < 5000:
        raise MachineryError(f"only {len(paths)} tamper paths emitted")
    rng = ctx.rng
    hashes = ["SHA1", "SHA256", "SHA384", "SHA512"]
    combos = [(hashes[(ctx.seed + i) % 4], m, lay) for i, (m, lay) in enumerate(
        [("nonce", "in_envelope"), ("nonce", "trailing"), ("DH", "in_envelope"), ("ECDH_P256", "trailing")] if not ctx.thorough else
        [(m, lay) for m in ("nonce", "DH", "ECDH_P256", "ECDH_P384") for lay in ("in_envelope", "trailing")] * 2)]
    rows: list[dict] = []

    def add(tg: blobfuzz.Target, data: bytes, fields: list[str], kinds: list[str], what: str, allowed: list[str], cache: t.Any = None) -> None:
        res, exc, _, _ = tg.unprotect(data, kdf_budget=400, cache=cache, use_async=(len(rows) % 7 == 3))   # both API flavours
        if res in ("kdf_budget", "step_budget"):
            res = "error"
        sealed = any(f in ("wrapped_cek", "gcm_nonce", "ciphertext", "tag") or (f == "trailing_bytes" and tg.layout == "trailing") for f in fields) \
            and not what.startswith("truncate")
        if sealed:
            try:      # labels are a guess: only an actual difference in the sealed octets counts
                from .. import blobref as _br

                p2, p1 = _br.parse_blob(data), tg.parsed
                if (p2["enc_cek"], p2["nonce"], p2["ct"]) == (p1["enc_cek"], p1["nonce"], p1["ct"]):
                    sealed = False
            except Exception:  # noqa
                try:      # not the strict template any more: compare the sealed octets as the decrypting side itself locates them
                    from dpapi_ng._blob import DPAPINGBlob
                    from ..blobref import read_tlv

                    b2 = DPAPINGBlob.unpack(data)
                    iv = read_tlv(read_tlv(bytes(b2.enc_content_parameters or b""), 0)[1], 0)[1] if b2.enc_content_parameters else b""
                    p1 = tg.parsed
                    if (bytes(b2.enc_cek), bytes(iv), bytes(b2.enc_content)) == (p1["enc_cek"], p1["nonce"], p1["ct"]):
                        sealed = False
                except Exception:  # noqa
                    pass
        # the KEK is bound to the SID (through the target security descriptor), the root key id, L0-L2 and - in nonce mode -
        # the key-identifier nonce: if the decrypting side itself reads different values for one of these out of the modified
        # blob, the original plaintext cannot legitimately come back (compared as integers / octets, not as text)
        bound = False
        if res == "plain_ok":
            b1, b2 = _binding(tg.blob), _binding(data)
            bound = b1 is not None and b2 is not None and (b1[:-1] != b2[:-1] or (b1[-1] is not None and b2[-1] is not None and b1[-1] != b2[-1]))
        rows.append({"id": len(rows), "kind": "tamper", "layout": tg.layout, "mode": tg.mode, "hash": tg.h, "fields": fields, "kinds": kinds, "what": what,
                     "res": res, "exc": exc, "allowed": allowed, "sealed": sealed, "bound": bound})

    for h, mode, layout in combos:
        tg = blobfuzz.Target(rng, h, mode, layout, rng.randbytes(rng.choice([1, 16, 33])))
        nbits = len(tg.blob) * 8
        # every single-bit flip at every bit position (DH blobs: every bit of the first 2 KiB of bits + a sample, in quick)
        bits = range(nbits) if (ctx.thorough or nbits < 4000) else sorted(set(list(range(0, 1600)) + list(range(nbits - 1200, nbits)) + rng.sample(range(nbits), 1200)))
        for bit in bits:
            b = bytearray(tg.blob)
            b[bit // 8] ^= 1 << (bit % 8)
            fld = blobfuzz.field_of(tg.fields, bit // 8)
            add(tg, bytes(b), [fld], ["flip"], f"bit {bit}", paths.get((layout, ((fld, "flip"),)), ["error"]))
            ctx.distinct((mode, layout, "bit", bit))
        # every truncation
        for n in range(len(tg.blob)):
            add(tg, tg.blob[:n], [blobfuzz.field_of(tg.fields, n)], ["truncate"], f"truncate {n}", ["error", "needs_network"])
        # TLC-emitted single and multi-site paths, concretised at seeded positions
        keys = [k for k in paths if k[0] == layout]
        for key in (keys if ctx.thorough else rng.sample(keys, 900)):
            data, sites = blobfuzz.apply(tg.blob, rng, tg.fields, list(key[1]), in_envelope=(layout == "in_envelope"))
            add(tg, data, [f for f, _ in key[1]], [k for _, k in key[1]], f"sites {[(s[0], s[2]) for s in sites]}", paths[key])
            ctx.distinct((mode, layout, key[1]))
        # a second valid blob under the same key material; fields of one spliced into the other, decrypted through ONE
        # long-lived cache that has already decrypted both valid blobs (history must not make a forgery succeed)
        import dpapi_ng

        shared = tg.fresh_cache()
        if mode == "nonce":
            other_pt = rng.randbytes(len(tg.pt)) if tg.pt else b"x"
            other = dpapi_ng.ncrypt_protect_secret(other_pt, blobfuzz.SID, root_key_identifier=tg.rkid, cache=shared)
            if layout == "trailing":
                from dpapi_ng._blob import DPAPINGBlob

                other = DPAPINGBlob.unpack(other).pack(blob_in_envelope=False)
            other = bytes(other)
            of = blobfuzz.field_ranges(other)
            if dpapi_ng.ncrypt_unprotect_secret(other, cache=shared) != other_pt or dpapi_ng.ncrypt_unprotect_secret(tg.blob, cache=shared) != tg.pt:
                raise MachineryError("shared-cache warm-up failed")
            for combo in (["wrapped_cek"], ["gcm_nonce"], ["kid_key_info"], ["ciphertext"], ["tag"], ["wrapped_cek", "kid_key_info"], ["wrapped_cek", "gcm_nonce"],
                          ["ciphertext", "tag"], ["wrapped_cek", "kid_key_info", "gcm_nonce"], ["kid_key_info", "gcm_nonce", "ciphertext", "tag"]):
                b = bytearray(tg.blob)
                ok = True
                for fld in combo:
                    (a0, a1), (b0, b1) = tg.fields[fld][0], of[fld][0]
                    if a1 - a0 != b1 - b0:
                        ok = False
                        break
                    b[a0:a1] = other[b0:b1]
                if ok:
                    for rep in range(2):
                        add(tg, bytes(b), combo, ["substitute"] * len(combo), f"splice {combo} from another valid blob (shared cache)", ["error", "plain_ok"], cache=shared)
                    add(tg, bytes(b), combo, ["substitute"] * len(combo), f"splice {combo} from another valid blob (fresh cache)", ["error", "plain_ok"])
            # tampered variants of the already-decrypted blob through the same shared cache
            for bit in rng.sample(range(len(tg.blob) * 8), 300):
                b = bytearray(tg.blob)
                b[bit // 8] ^= 1 << (bit % 8)
                add(tg, bytes(b), [blobfuzz.field_of(tg.fields, bit // 8)], ["flip"], f"bit {bit} (shared cache)", ["error", "needs_network", "plain_ok"], cache=shared)
        # parameter-driven families (structure-aware, several cooperating sites): (1) the content / key encryption algorithm is
        # swapped for another AES algorithm with parameters and content shaped for it, (2) the GCM ICV length parameter is lowered
        # and the tag cut to match, with and without a flipped ciphertext bit
        if layout == "in_envelope":
            from ..drivers import c05 as P5
            from .. import blobref

            tree = blobfuzz.parse_tree(tg.blob)
            ct_full = blobref.parse_blob(tg.blob)["ct"]
            aes = [f"2.16.840.1.101.3.4.1.{n}" for n in (1, 2, 3, 4, 5, 6, 7, 21, 22, 23, 24, 25, 26, 27, 41, 42, 43, 44, 45, 47, 48)]
            gcm_params = blobfuzz.node_at(tree, P5.P_GCMP)
            param_variants = [("gcm", None), ("iv16", [0x04, bytes(range(16))]), ("iv12", [0x04, bytes(12)]), ("null", [0x05, b""]), ("absent", "drop")]
            content_variants = [("same", ct_full), ("blocks", ct_full[: len(ct_full) // 16 * 16] or ct_full), ("one-block", (ct_full * 2)[:16]), ("two-blocks", (ct_full * 3)[:32])]

            def render_with(oid_path: tuple, oid: str, pv: t.Any, content: bytes, vary: int = -1) -> bytes:
                import copy

                tr = copy.deepcopy(tree)
                blobfuzz.node_at(tr, oid_path)[1] = blobref.der_oid(oid)[2:]
                if pv == "drop":
                    cea = blobfuzz.node_at(tr, P5.P_CEA)
                    cea[1] = cea[1][:1]
                elif pv is not None:
                    blobfuzz.node_at(tr, P5.P_CEA)[1][1] = list(pv)
                c = bytearray(content)
                if vary >= 0 and len(c) >= 17:
                    c[-17] = vary
                elif vary >= 0 and c:
                    c[0] = vary
                blobfuzz.node_at(tr, P5.P_CT)[1] = bytes(c)
                return blobfuzz.render(tr, None)

            for oid in aes:
                for pname, pv in param_variants:
                    for cname, content in content_variants:
                        add(tg, render_with(P5.P_CEA_OID, oid, pv, content), ["alg_oid", "gcm_nonce", "ciphertext"], ["substitute"] * 3,
                            f"content algorithm {oid} params {pname} content {cname}", ["error", "plain_ok"])
            # block modes without integrity accept a padding with probability 1/256: sweep one byte for the CBC/ECB-like candidates
            for oid in (aes[1], aes[8], aes[15], aes[0], aes[14]):
                for v in range(256):
                    add(tg, render_with(P5.P_CEA_OID, oid, [0x04, bytes(range(16))], (ct_full * 3)[:32], vary=v), ["alg_oid", "gcm_nonce", "ciphertext"],
                        ["substitute"] * 3, f"content algorithm {oid} iv16 two blocks, byte sweep {v}", ["error", "plain_ok"])
            for oid in aes:
                tr2 = __import__("copy").deepcopy(tree)
                blobfuzz.node_at(tr2, P5.P_KEA_OID)[1] = blobref.der_oid(oid)[2:]
                add(tg, blobfuzz.render(tr2, None), ["alg_oid"], ["substitute"], f"key encryption algorithm {oid}", ["error", "plain_ok"])
            for icv in (0, 1, 4, 8, 12, 13, 14, 15, 17, 32, 255):
                for flipbit in (False, True):
                    tr3 = __import__("copy").deepcopy(tree)
                    blobfuzz.node_at(tr3, P5.P_ICV)[1] = bytes([icv]) if icv < 128 else bytes([0, icv])
                    body, tag = ct_full[:-16], ct_full[-16:]
                    if flipbit and body:
                        body = bytes([body[0] ^ 1]) + body[1:]
                    blobfuzz.node_at(tr3, P5.P_CT)[1] = body + tag[: min(icv, 16)]
                    add(tg, blobfuzz.render(tr3, None), ["icv_len"] + (["tag"] if icv < 16 else []) + (["ciphertext"] if flipbit and body else []),
                        ["substitute"] + (["truncate"] if icv < 16 else []) + (["flip"] if flipbit and body else []),
                        f"ICV length {icv} with tag cut to match{' + ciphertext bit flipped' if flipbit else ''}", ["error", "plain_ok"])
        # byte substitutions / insertions / deletions at random positions, 3-site mutations
        for _ in range(ctx.pick(600, 6000)):
            b = bytearray(tg.blob)
            nsite = rng.choice([1, 1, 2, 3])
            kinds = []
            for _s in range(nsite):
                pos = rng.randrange(len(b))
                k = rng.choice(["substitute", "insert", "delete"])
                kinds.append(k)
                if k == "substitute":
                    b[pos] = rng.randrange(256)
                elif k == "insert":
                    b[pos:pos] = rng.randbytes(rng.randrange(1, 4))
                else:
                    del b[pos]
            add(tg, bytes(b), ["random"], kinds, "random sites", ["error", "needs_network", "plain_ok"])
    # a blob of more than 64 KiB (large payloads may take another code path): flips in the sealed fields, truncations
    for layout in ("in_envelope", "trailing"):
        tgb = blobfuzz.Target(rng, "SHA256", "nonce", layout, rng.randbytes(70000))
        for fld in ("ciphertext", "tag", "gcm_nonce", "wrapped_cek"):
            for lo, hi in tgb.fields.get(fld, [])[:1]:
                for pos in sorted({lo, hi - 1, (lo + hi) // 2, *(rng.randrange(lo, hi) for _ in range(4))}):
                    b = bytearray(tgb.blob)
                    b[pos] ^= 1 << rng.randrange(8)
                    add(tgb, bytes(b), [fld], ["flip"], f"large blob: byte {pos} in {fld}", ["error"])
                    ctx.distinct(("large", layout, fld, pos))
        add(tgb, tgb.blob[:-1], ["trailing_bytes" if layout == "trailing" else "der_structure"], ["truncate"], "truncate large blob by 1", ["error"])
    ctx.count(len(rows))
    slim = [{k: r_[k] for k in ("id", "kind", "res", "allowed", "sealed", "bound")} for r_ in rows]
    bad, stats = validate(ctx, "TraceBlob", "TraceBlob.cfg", slim, chunk=8000, what="tamper")
    ctx.note_drift("outcome_outside_field_class_prediction", sum(s.get("drift", 0) for s in stats))
    for i, clauses in bad.items():
        r_ = rows[i]
        ctx.violation(f"tamper:{clauses[0]}:{r_['mode']}:{r_['layout']}:{r_['fields'][0]}", ",".join(clauses), r_,
                      f"{r_['hash']} {r_['mode']} {r_['layout']}: {r_['what']} in {r_['fields']} ({r_['kinds']}) -> {r_['res']}")
    from collections import Counter
    ctx.cov["outcomes"] = dict(Counter(r_["res"] for r_ in rows))
    ctx.cov["same_plaintext_by_field"] = dict(Counter(r_["fields"][0] for r_ in rows if r_["res"] == "plain_ok" and r_["kinds"] == ["flip"]))
    for r_ in rows[:1] + [x for x in rows if x["res"] == "plain_ok"][:1] + rows[-1:]:
        ctx.sample({k: r_[k] for k in ("layout", "mode", "fields", "kinds", "what", "res", "exc", "allowed")})
    ctx.assume("AES-KW / AES-GCM authenticity assumed of `cryptography`; decryption with the correct offline root key; DNS and sockets tapped (network attempt = allowed outcome)")
    return ctx.finish(
        rule="valid blobs made by the library (quick: nonce in-envelope, nonce trailing, DH in-envelope, P-256 trailing, hash rotating with the seed; "
        "thorough: every mode x layout); every single-bit flip at every bit position (quick: all bits of small blobs, 4,000 bits of the DH blob), every "
        "truncation, TLC-emitted 1- and 2-site tamper paths (field class x kind) concretised at seeded offsets from the blob's own layout, random "
        "multi-site byte substitutions/insertions/deletions; outcome judged by TraceBlob (TLC): never a different plaintext",
    )


def selftest(ctx: Ctx) -> int:
    from ..tracecheck import selftest_expect_reject

    good = [{"id": 0, "kind": "tamper", "res": "error", "allowed": ["error"], "sealed": True, "bound": False},
            {"id": 1, "kind": "tamper", "res": "plain_ok", "allowed": ["error"], "sealed": False, "bound": False}]
    bad = [{"id": 2, "kind": "tamper", "res": "plain_different", "allowed": ["error"], "sealed": False, "bound": False},
           {"id": 3, "kind": "tamper", "res": "plain_ok", "allowed": ["error"], "sealed": True, "bound": False},
           {"id": 4, "kind": "tamper", "res": "plain_ok", "allowed": ["error"], "sealed": False, "bound": True}]
    selftest_expect_reject(ctx, "TraceBlob", "TraceBlob.cfg", good, bad, "c04")
    print("selftest C04 ok")
    return 0
