"""C08 — SID and target security descriptor bytes follow MS-DTYP for every SID; strings that
are not a canonical in-range SID are rejected with ValueError.

Spec: spec/SecDesc.tla (layout, independent reader, string grammar classes).
TLC:  spec/MC_SecDesc.tla (lemmas: decimal arithmetic, inverse, offsets/sizes, grammar).
Bind: every generated string goes through the real sid_to_bytes and
      ProtectionDescriptor.parse(s).get_target_sd(); spec/TraceSecDesc.tla (TLC) classifies the
      string and decides each row.  harness/sdref.py (Python MS-DTYP encoder) is only a
      cross-check of the machinery: a disagreement between it and TLC is exit 2, never a verdict.
"""
from __future__ import annotations

import json
import typing as t

from .. import sdref
from ..core import REPO, Ctx, MachineryError
from ..tlc import require_ok, run_tlc
from ..tracecheck import selftest_expect_reject, validate

P32 = 1 << 32
P48 = 1 << 48
P64 = 1 << 64

SUB_B = [0, 1, 9, 10, 255, 256, 65535, 65536, (1 << 24) - 1, 1 << 24, (1 << 31) - 1, 1 << 31, P32 - 2, P32 - 1,
         21, 18, 544, 1000000000, 999999999, 4294967290]
AUTH_B = [0, 1, 5, 9, 10, 255, 256, 65535, 65536, P32 - 1, P32, P32 + 1, 1 << 40, (1 << 40) - 1, P48 - 2, P48 - 1,
          100000000000000, 99999999999999]


def _sid(r: int, a: int, subs: t.Sequence[int]) -> str:
    return "-".join(["S", str(r), str(a)] + [str(x) for x in subs])


def _rand_sub(rng) -> int:
    k = rng.randrange(8)
    if k == 0:
        return rng.choice(SUB_B)
    if k == 1:
        return rng.randrange(0, 1000)
    if k == 2:
        b = rng.randrange(1, 33)
        return max(0, min(P32 - 1, (1 << b) - rng.choice([0, 1, 2]) if b < 32 else P32 - 1 - rng.randrange(3)))
    if k == 3:
        return int("9" * rng.randrange(1, 10))
    if k == 4:
        return 10 ** rng.randrange(0, 10)
    return rng.randrange(0, P32)


def _rand_auth(rng) -> int:
    k = rng.randrange(6)
    if k == 0:
        return rng.choice(AUTH_B)
    if k == 1:
        return rng.randrange(0, 32)
    if k == 2:
        b = rng.randrange(1, 49)
        return max(0, min(P48 - 1, (1 << b) - rng.choice([0, 1, 2]) if b < 48 else P48 - 1 - rng.randrange(3)))
    if k == 3:
        return 10 ** rng.randrange(0, 15)
    return rng.randrange(0, P48)


def canonical_sids(ctx: Ctx) -> list[tuple[str, str]]:
    """(generator label, SID string): boundary grid for every n in 1..15 + seeded random."""
    rng = ctx.rng
    out: list[tuple[str, str]] = []
    for n in range(1, 16):
        for r in range(10):
            out.append(("grid_rev", _sid(r, 5, [rng.choice(SUB_B) for _ in range(n)])))
        for a in AUTH_B:
            out.append(("grid_auth", _sid(1, a, [SUB_B[(i + a) % len(SUB_B)] for i in range(n)])))
        for pos in range(n):
            for v in SUB_B:
                subs = [_rand_sub(rng) for _ in range(n)]
                subs[pos] = v
                out.append(("grid_sub", _sid(1, 5, subs)))
        out.append(("all_zero", _sid(0, 0, [0] * n)))
        out.append(("all_max", _sid(9, P48 - 1, [P32 - 1] * n)))
    out += [("wellknown", s) for s in ("S-1-5-18", "S-1-1-0", "S-1-5-32-544", "S-1-0-0", "S-1-3-0", "S-1-5-11",
                                      "S-1-5-21-2185496602-3367037166-1388177638-1103", "S-1-16-12288",
                                      "S-1-5-80-956008885-3418522649-1831038044-1853292631-2271478464",
                                      "S-1-15-3-1024-1065365936-1281604716-3511738428-1654721687-432734479-3232135806-4053264122-3456934681")]
    total = ctx.pick(5000, 200000)
    while len(out) < total:
        n = rng.randrange(1, 16)
        out.append(("random", _sid(rng.randrange(10), _rand_auth(rng), [_rand_sub(rng) for _ in range(n)])))
    # de-duplicate keeping order
    seen: set[str] = set()
    res = []
    for lab, s in out:
        if s not in seen:
            seen.add(s)
            res.append((lab, s))
    return res


ND_ZEROS = {"arabic_indic": 0x660, "ext_arabic": 0x6F0, "devanagari": 0x966, "thai": 0xE50, "fullwidth": 0xFF10,
            "math_bold": 0x1D7CE, "math_mono": 0x1D7F6, "bengali": 0x9E6, "nko": 0x7C0, "adlam": 0x1E950}
SPACES = {"space": " ", "tab": "\t", "lf": "\n", "cr": "\r", "vt": "\x0b", "ff": "\x0c", "nbsp": "\xa0",
          "em_space": "\u2003", "ideographic_space": "\u3000", "fs": "\x1c", "nel": "\x85", "line_sep": "\u2028"}


def group_of(cls: str) -> str:
    """Coarse, stable class of a near miss (used in violation keys)."""
    if cls.startswith("count_"):
        return "subauthority_count_0_or_16+"
    if cls.startswith("sub_"):
        return "subauthority_ge_2^32"
    if cls.startswith("auth_"):
        return "authority_ge_2^64" if cls in ("auth_2^64", "auth_2^64+1", "auth_2^128", "auth_10^40") else "authority_2^48_to_2^64"
    if cls == "trailing_newline":
        return "trailing_newline"
    if cls.startswith(("trailing_", "leading_", "inner_")):
        return "whitespace"
    if cls.startswith("nonascii_and") or cls.startswith("newline_and"):
        return "two_defects"
    if cls.startswith("nonascii_"):
        return "nonascii_digits"
    if "sign" in cls or cls.startswith("plus"):
        return "sign"
    if "empty" in cls:
        return "empty_part"
    if cls in ("lowercase_s", "long_s_U+017F", "two_digit_revision", "hex_authority", "trailing_letter", "no_authority", "bare_s", "sddl_alias", "junk"):
        return "not_sid_syntax"
    return cls


def near_misses(ctx: Ctx) -> list[tuple[str, str, str]]:
    """(want, class label, string).  Generated from the negation of the grammar:
    canonical SID + one (sometimes two) of the defects the statement names."""
    rng = ctx.rng
    bases = [
        (1, 5, [18]),
        (1, 5, [21, 2185496602, 3367037166, 1388177638, 1103]),
        (1, 5, [32, 544]),
        (0, 0, [0]),
        (9, P48 - 1, [P32 - 1] * 15),
        (1, 5, [rng.randrange(P32) for _ in range(15)]),
        (1, rng.randrange(P32, P48), [rng.randrange(P32) for _ in range(7)]),
    ]
    out: list[tuple[str, str, str]] = []

    def add(want: str, cls: str, s: str) -> None:
        out.append((want, cls, s))

    def fold(txt: str, zero: int) -> str:
        return "".join(chr(zero + ord(c) - 48) if "0" <= c <= "9" else c for c in txt)

    for bi, (r, a, subs) in enumerate(bases):
        n = len(subs)
        base = _sid(r, a, subs)
        parts = base.split("-")
        # --- number of sub-authorities
        add("reject", "count_0", _sid(r, a, []))
        for extra in (16, 17, 31, 64):
            add("reject", f"count_{extra}", _sid(r, a, (list(subs) * 64)[:extra]))
        # --- out-of-range values
        for pos in sorted({0, n // 2, n - 1}):
            where = "first" if pos == 0 else ("last" if pos == n - 1 else "mid")
            for lab, v in (("2^32", P32), ("2^32+1", P32 + 1), ("2^33", 1 << 33), ("2^63", 1 << 63), ("2^64-1", P64 - 1),
                           ("2^64", P64), ("10^30", 10 ** 30), ("0_2^32", None)):
                s2 = list(map(str, subs))
                s2[pos] = "0" + str(P32) if v is None else str(v)
                add("reject", f"sub_{lab}", "-".join(["S", str(r), str(a)] + s2))
        for lab, v in (("2^48", P48), ("2^48+1", P48 + 1), ("2^56", 1 << 56), ("2^63", 1 << 63), ("2^64-1", P64 - 1),
                       ("2^64", P64), ("2^64+1", P64 + 1), ("2^128", 1 << 128), ("10^40", 10 ** 40)):
            add("reject", f"auth_{lab}", _sid(r, v, subs))
        add("reject", "auth_0_2^48", "-".join(["S", str(r), "00" + str(P48)] + list(map(str, subs))))
        # --- whitespace (incl. the trailing newline)
        add("reject", "trailing_newline", base + "\n")
        add("reject", "trailing_crlf", base + "\r\n")
        add("reject", "trailing_two_newlines", base + "\n\n")
        for lab, ch in SPACES.items():
            add("reject", f"trailing_{lab}", base + ch)
            add("reject", f"leading_{lab}", ch + base)
            k = rng.randrange(2, len(parts))
            add("reject", f"inner_{lab}_before_number", "-".join(parts[:k]) + "-" + ch + "-".join(parts[k:]))
            add("reject", f"inner_{lab}_after_number", "-".join(parts[:k]) + ch + "-" + "-".join(parts[k:]))
        # --- non-ASCII decimal digits
        for lab, z in ND_ZEROS.items():
            add("reject", f"nonascii_all_digits_{lab}", fold(base, z))
            add("reject", f"nonascii_revision_{lab}", "-".join([parts[0], fold(parts[1], z)] + parts[2:]))
            add("reject", f"nonascii_authority_{lab}", "-".join(parts[:2] + [fold(parts[2], z)] + parts[3:]))
            k = rng.randrange(3, len(parts))
            add("reject", f"nonascii_subauthority_{lab}", "-".join(parts[:k] + [fold(parts[k], z)] + parts[k + 1:]))
            p = parts[-1]
            add("reject", f"nonascii_one_digit_{lab}", "-".join(parts[:-1] + [p[:-1] + fold(p[-1], z)]))
        # --- signs
        for k in range(1, min(len(parts), 5)):
            add("reject", "plus_sign", "-".join(parts[:k] + ["+" + parts[k]] + parts[k + 1:]))
            add("reject", "minus_sign", "-".join(parts[:k] + ["-" + parts[k]] + parts[k + 1:]))
        add("reject", "plus_sign", "-".join(parts[:-1] + ["+" + parts[-1]]))
        add("reject", "minus_sign", "-".join(parts[:-1] + ["-" + parts[-1]]))
        add("reject", "plus_after_number", base + "+")
        # --- empty parts
        add("reject", "empty_last_part", base + "-")
        add("reject", "empty_last_parts", base + "--")
        add("reject", "empty_first_part", "-" + base)
        for k in range(1, min(len(parts), 4)):
            add("reject", "empty_part", "-".join(parts[:k] + [""] + parts[k + 1:]))
        # --- two defects at once
        add("reject", "newline_and_range", _sid(r, a, list(subs[:-1]) + [P32]) + "\n")
        add("reject", "nonascii_and_range", fold(_sid(r, P48, subs), 0x660))
        add("reject", "nonascii_and_newline", fold(base, 0xFF10) + "\n")
        # --- don't care: the statement does not name these; any outcome is fine
        add("dontcare", "leading_zero_sub", "-".join(parts[:-1] + ["0" + parts[-1]]))
        add("dontcare", "leading_zero_auth", "-".join(parts[:2] + ["00" + parts[2]] + parts[3:]))
        # --- other strings that are plainly not a canonical SID (general clause of the statement: rejected, not silently altered)
        add("reject", "lowercase_s", "s" + base[1:])
        add("reject", "long_s_U+017F", "\u017f" + base[1:])          # matches 'S' under a Unicode case-insensitive match
        add("reject", "two_digit_revision", "-".join([parts[0], "1" + parts[1]] + parts[2:]))
        add("reject", "hex_authority", "-".join(parts[:2] + ["0x5"] + parts[3:]))
        add("reject", "trailing_letter", base + "x")
        add("reject", "no_authority", "S-" + str(r))
    for s in ("", "S-", "-", "--", "S--", "S-1-", "S-1--"):
        add("reject", "degenerate_empty_parts", s)
    add("reject", "bare_s", "S")
    add("reject", "sddl_alias", "SY")
    add("reject", "junk", "hello")
    seen: set[str] = set()
    res = []
    for w, c, s in out:
        if s not in seen:
            seen.add(s)
            res.append((w, c, s))
    return res


def _outcome(fn: t.Callable[[], bytes]) -> tuple[str, bytes]:
    try:
        b = fn()
    except ValueError:
        return "ValueError", b""
    except Exception as e:  # noqa
        return type(e).__name__, b""
    if not isinstance(b, (bytes, bytearray)):
        return "not_bytes:" + type(b).__name__, b""
    return "ok", bytes(b)


def execute(idx: int, want: str, cls: str, s: str) -> dict:
    from dpapi_ng._blob import ProtectionDescriptor
    from dpapi_ng._security_descriptor import sid_to_bytes

    o1, sid = _outcome(lambda: sid_to_bytes(s))
    o2, sd = _outcome(lambda: ProtectionDescriptor.parse(s).get_target_sd())
    return {"id": idx, "kind": "sid", "want": want, "cls": cls, "s": [ord(c) for c in s], "o1": o1, "sid": list(sid),
            "o2": o2, "sd": list(sd)}


def calib_rows() -> list[dict]:
    d = json.load(open(REPO / "tests/data/seed_key.json"))
    return [{"id": "calib-seed_key", "kind": "calib", "sd": list(bytes.fromhex(d["SecurityDescriptor"]))}]


def _cps(v: t.Any) -> str:
    return "".join(chr(c) for c in v)


def run(ctx: Ctx) -> int:
    r = run_tlc("MC_SecDesc", "MC_SecDesc.cfg", rundir=ctx.rundir, workers=1)
    require_ok(r, "SecDesc lemmas")
    lem = r.tagged("LEMMAS")
    if not lem:
        raise MachineryError("MC_SecDesc did not report its lemma domain sizes")
    ctx.add_tlc(r, f"SecDesc lemmas over {lem[0][0]}: decimal arithmetic vs integers, 2^32/2^48 constants, "
                   "SidParse(SidBytes(x)) = x for n = 1..15 at boundary values, injectivity, target-SD offsets/sizes/counts, "
                   "every single-byte corruption of an SD is seen by the reader, grammar classes")
    ctx.cov["lemma_domain"] = lem[0][0]

    rows = list(calib_rows())
    canon = canonical_sids(ctx)
    miss = near_misses(ctx)
    i = 0
    for lab, s in canon:
        rows.append(execute(i, "canonical", lab, s))
        ctx.distinct(s)
        i += 1
    for want, cls, s in miss:
        rows.append(execute(i, want, cls, s))
        ctx.distinct(s)
        i += 1
    ctx.count(2 * (len(rows) - 1))
    ctx.cov["canonical_sids"] = len(canon)
    ctx.cov["near_miss_strings"] = sum(1 for w, _, _ in miss if w == "reject")
    ctx.cov["dontcare_strings"] = sum(1 for w, _, _ in miss if w == "dontcare")

    bad, stats = validate(ctx, "TraceSecDesc", "TraceSecDesc.cfg", rows, chunk=ctx.pick(450, 4200), what="sid")
    by = {r["id"]: r for r in rows}

    # calibration: the Windows-made SD must be TargetSd of the SID the reader finds in it
    found = [_cps(x) for st in stats for x in st.get("calib", [])]
    if "calib-seed_key" in bad or len(found) != 1 or not found[0].startswith("S-1-5-21-"):
        raise MachineryError(f"calibration: tests/data/seed_key.json SD is not TargetSd of its SID (reader found {found}, "
                             f"clauses {bad.get('calib-seed_key')})")
    ctx.cov["calibration"] = f"seed_key.json SD == TargetSd({found[0]})"
    for st in stats:
        n = len(st.get("dontcare_accepted", []))
        if n:
            ctx.note_drift("string in neither class (e.g. leading zeros) accepted", n)

    # machinery cross-check with the Python encoder (never a verdict)
    for row in rows:
        if row["kind"] != "sid" or row["want"] != "canonical":
            continue
        s = _cps(row["s"])
        cl = bad.get(row["id"], [])
        py_sid_ok = row["o1"] == "ok" and bytes(row["sid"]) == sdref.sid_bytes(s)
        py_sd_ok = row["o2"] == "ok" and bytes(row["sd"]) == sdref.target_sd(s)
        tlc_sid_ok = not ({"sid_bytes_differ_from_msdtyp", "wellformed_sid_rejected"} & set(cl))
        tlc_sd_ok = not ({"sd_bytes_differ_from_msdtyp", "wellformed_sid_rejected_sd"} & set(cl))
        if py_sid_ok != tlc_sid_ok or py_sd_ok != tlc_sd_ok:
            raise MachineryError(f"spec (TLC) and harness/sdref.py disagree on {s!r}: tlc={cl} py=({py_sid_ok},{py_sd_ok})")

    # "distinct SIDs give distinct bytes" follows from byte equality with the spec + the Injective / SidParse lemmas;
    # a collision among rows TLC accepted would contradict the lemmas (machinery)
    seen_bytes: dict[bytes, str] = {}
    for row in rows:
        if row["kind"] == "sid" and row["want"] == "canonical" and row["o1"] == "ok" and row["id"] not in bad:
            prev = seen_bytes.setdefault(bytes(row["sid"]), _cps(row["s"]))
            if prev != _cps(row["s"]):
                raise MachineryError(f"two distinct SIDs accepted by the spec with equal bytes: {prev} {_cps(row['s'])}")

    # verdicts, grouped under stable keys
    groups: dict[str, list] = {}
    for rid, clauses in bad.items():
        row = by[rid]
        if any(c.startswith("MACHINERY") for c in clauses):
            raise MachineryError(f"malformed trace line / generator class mismatch: {clauses} {row.get('cls')} "
                                 f"{_cps(row.get('s', []))!r}")
        if row["want"] == "canonical":
            key = "layout:" + "+".join(clauses)
        else:
            key = f"reject:{group_of(row['cls'])}:{row['o1']}/{row['o2']}"
        groups.setdefault(key, []).append((row, clauses))
    for key, items in sorted(groups.items()):
        row, clauses = min(items, key=lambda it: len(it[0]["s"]))
        s = _cps(row["s"])
        if row["want"] == "canonical":
            ns = sorted({len(_cps(it[0]["s"]).split("-")) - 3 for it in items})
            detail = (f"{len(items)} SIDs (sub-authority counts {ns}); e.g. {s!r}: sid_to_bytes -> {row['o1']} "
                      f"{bytes(row['sid']).hex()}, get_target_sd -> {row['o2']} {bytes(row['sd']).hex()}; "
                      f"MS-DTYP: sid {sdref.sid_bytes(s).hex()} sd {sdref.target_sd(s).hex()}")
        else:
            labels = sorted({it[0]["cls"] for it in items})
            detail = (f"{len(items)} strings ({', '.join(labels[:12])}{' ...' if len(labels) > 12 else ''}); "
                      f"e.g. {s!r}: sid_to_bytes -> {row['o1']}"
                      f"{' ' + bytes(row['sid']).hex() if row['o1'] == 'ok' else ''}, get_target_sd -> {row['o2']}; "
                      "the statement requires ValueError")
        ctx.violation(key, ",".join(clauses), {"string": s, "code_points": row["s"], "class": row["cls"], "o1": row["o1"],
                                              "o2": row["o2"], "sid": bytes(row["sid"]), "sd": bytes(row["sd"])}, detail)

    for row in (rows[1], rows[len(canon) // 2], rows[len(canon) + 3], rows[-1]):
        ctx.sample({"string": _cps(row["s"]), "class": row["cls"], "want": row["want"], "o1": row["o1"], "o2": row["o2"],
                    "sid": bytes(row["sid"]).hex()})
    ctx.assume("the SID string is given to TLC as code points; bytes are compared by TLC with SecDesc.tla; "
               "harness/sdref.py is only a machinery cross-check")
    ctx.assume("Unicode decimal digits = category Nd of Unicode 15 (table in SecDesc.tla)")
    return ctx.finish(
        rule="canonical SIDs: boundary grid (every n in 1..15 x every position x boundary sub-authorities, boundary "
             "authorities, every revision 0..9) + seeded random; near misses: each defect the statement names applied to 7 "
             "base SIDs; every string runs through sid_to_bytes and ProtectionDescriptor.parse(s).get_target_sd(); "
             "distinct = distinct input strings")


def selftest(ctx: Ctx) -> int:
    ctx.tier = "quick"
    canon = canonical_sids(ctx)[:: 97][:40]
    miss = [m for m in near_misses(ctx) if m[0] == "reject"][:: 11][:30]
    good: list[dict] = []
    for i, (lab, s) in enumerate(canon):
        # rows as a correct implementation would produce them (from the Python encoder)
        good.append({"id": i, "kind": "sid", "want": "canonical", "cls": lab, "s": [ord(c) for c in s], "o1": "ok",
                     "sid": list(sdref.sid_bytes(s)), "o2": "ok", "sd": list(sdref.target_sd(s))})
    for j, (w, cls, s) in enumerate(miss):
        good.append({"id": 1000 + j, "kind": "sid", "want": w, "cls": cls, "s": [ord(c) for c in s], "o1": "ValueError",
                     "sid": [], "o2": "ValueError", "sd": []})
    good += calib_rows()
    corrupted: list[dict] = []
    k = 0
    for row in good:
        if row["kind"] == "calib":
            b = dict(row, id="calib-corrupt", sd=list(row["sd"]))
            b["sd"][4] ^= 4          # owner offset
            corrupted.append(b)
            continue
        if row["want"] == "canonical":
            b = dict(row, id=f"c{k}", sid=list(row["sid"]), sd=list(row["sd"]))
            m = k % 6
            if m == 0:
                b["sid"][2 + k % 6] ^= 1                      # authority byte
            elif m == 1:
                b["sid"][8:12] = b["sid"][8:12][::-1]         # sub-authority endianness
                if b["sid"] == row["sid"]:
                    b["sid"][8] ^= 0x80
            elif m == 2:
                b["sd"][22] = (b["sd"][22] + 4) % 256         # ACL size
            elif m == 3:
                b["sd"][8] = (b["sd"][8] + 4) % 256           # group offset
            elif m == 4:
                b["sd"][30] = (b["sd"][30] + 4) % 256         # ACE size
            else:
                b["o2"] = "ValueError"                        # well-formed SID rejected
                b["sd"] = []
            corrupted.append(b)
        else:
            b = dict(row, id=f"r{k}")
            if k % 2:
                b["o1"] = "OverflowError"                     # crash instead of ValueError
            else:
                b["o2"] = "ok"                                # silently accepted
                b["sd"] = list(sdref.target_sd("S-1-5-18"))
            corrupted.append(b)
        k += 1
    selftest_expect_reject(ctx, "TraceSecDesc", "TraceSecDesc.cfg", good, corrupted, "c08")
    # a wrong generator label must be reported as machinery, not silently accepted
    mis = [dict(good[0], id="mislabel", want="reject")]
    bad, _ = validate(ctx, "TraceSecDesc", "TraceSecDesc.cfg", mis, what="c08-mislabel", count_traces=False)
    if "MACHINERY_class_mismatch" not in bad.get("mislabel", []):
        raise MachineryError("selftest: class mismatch between generator and spec not reported")
    print(f"selftest C08 ok: {len(good)} good rows accepted, {len(corrupted)} corrupted rows rejected")
    return 0
