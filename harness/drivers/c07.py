"""C07 — ASN.1 DER primitives: minimal encoding, exact decoding, exact consumption.

Spec: spec/Der.tla (DerEnc / DerDec / minimality), checked on itself by MC_Der (TLC).
Binding: every case below is one execution of the real dpapi_ng ASN1Writer followed by the
real ASN1Reader (public API only); the recorded row is judged by TLC with TraceDer.tla:
writer bytes = DerEnc(value), reader value = original, cursor consumed exactly, nested readers
exhausted, peek_header = spec header.  Python only *drives* and *names* failing input classes.
"""
from __future__ import annotations

import concurrent.futures as cf
import json
import multiprocessing as mp
import pathlib
import random
import re
import typing as t

from ..core import Ctx, MachineryError, exc_class
from ..tlc import require_ok, run_tlc, write_cfg
from ..tracecheck import validate

MC_PARTS = 8
BATCH = 256
# many JVMs run side by side (spec-level runs + trace batches): keep each one's GC small
JVM_ENV = {"JDK_JAVA_OPTIONS": "-XX:ParallelGCThreads=2 -Xss256m"}


# ---------------------------------------------------------------------------------------------
# value trees (the JSON / TLA+ form of Der.tla values)
# ---------------------------------------------------------------------------------------------
def sm(n: int) -> dict:
    a = abs(n)
    return {"neg": n < 0, "mag": list(a.to_bytes((a.bit_length() + 7) // 8, "big"))}


def d128(n: int) -> list[int]:
    out = [n & 0x7F]
    n >>= 7
    while n:
        out.append(n & 0x7F)
        n >>= 7
    return out[::-1]


def from128(d: list[int]) -> int:
    n = 0
    for x in d:
        n = (n << 7) | x
    return n


def v_int(n: int, cls: int = 0, pc: int = 0, num: int = 2) -> dict:
    return {"k": "int", "cls": cls, "pc": pc, "num": num, **sm(n)}


def v_bool(b: bool, cls: int = 0, pc: int = 0, num: int = 1) -> dict:
    return {"k": "bool", "cls": cls, "pc": pc, "num": num, "b": bool(b)}


def v_oid(arcs: t.Sequence[int], cls: int = 0, pc: int = 0, num: int = 6) -> dict:
    return {"k": "oid", "cls": cls, "pc": pc, "num": num, "arcs": [d128(a) for a in arcs]}


def v_oct(b: bytes, cls: int = 0, pc: int = 0, num: int = 4) -> dict:
    return {"k": "oct", "cls": cls, "pc": pc, "num": num, "bytes": list(b)}


def v_utf8(s: str, cls: int = 0, pc: int = 0, num: int = 12) -> dict:
    return {"k": "utf8", "cls": cls, "pc": pc, "num": num, "cps": [ord(c) for c in s]}


def v_cons(kids: list[dict], cls: int = 0, pc: int = 1, num: int = 16) -> dict:
    return {"k": "cons", "cls": cls, "pc": pc, "num": num, "kids": kids}


def int_of(v: dict) -> int:
    n = int.from_bytes(bytes(v["mag"]), "big")
    return -n if v["neg"] else n


def oid_str(v: dict) -> str:
    return ".".join(str(from128(a)) for a in v["arcs"])


def retag(v: dict, cls: int, pc: int, num: int) -> dict:
    w = dict(v)
    w.update(cls=cls, pc=pc, num=num)
    return w


def leaves(v: dict) -> t.Iterator[dict]:
    if v["k"] == "cons":
        for k in v["kids"]:
            yield from leaves(k)
    else:
        yield v


# ---------------------------------------------------------------------------------------------
# independent reference encoder: only produces the reader's input when the real writer fails or
# differs; TLC checks that what it produced equals DerEncAll(vals) (MACHINERY clause otherwise)
# ---------------------------------------------------------------------------------------------
def ref_head(cls: int, pc: int, num: int, n: int) -> bytes:
    if num < 31:
        ident = bytes([cls << 6 | pc << 5 | num])
    else:
        d = d128(num)
        ident = bytes([cls << 6 | pc << 5 | 31] + [x | 0x80 for x in d[:-1]] + [d[-1]])
    if n < 128:
        return ident + bytes([n])
    ln = n.to_bytes((n.bit_length() + 7) // 8, "big")
    return ident + bytes([0x80 | len(ln)]) + ln


def ref_content(v: dict) -> bytes:
    k = v["k"]
    if k == "int":
        n = int_of(v)
        ln = (n.bit_length() if n >= 0 else (-n - 1).bit_length()) // 8 + 1
        return n.to_bytes(ln, "big", signed=True)
    if k == "bool":
        return b"\xff" if v["b"] else b"\x00"
    if k == "oid":
        arcs = [from128(a) for a in v["arcs"]]
        out = bytearray()
        for a in [arcs[0] * 40 + arcs[1]] + arcs[2:]:
            d = d128(a)
            out += bytes([x | 0x80 for x in d[:-1]] + [d[-1]])
        return bytes(out)
    if k == "oct":
        return bytes(v["bytes"])
    if k == "utf8":
        return "".join(chr(c) for c in v["cps"]).encode("utf-8")
    return b"".join(ref_enc(x) for x in v["kids"])


def ref_enc(v: dict) -> bytes:
    c = ref_content(v)
    return ref_head(v["cls"], v["pc"], v["num"], len(c)) + c


# ---------------------------------------------------------------------------------------------
# driving the real writer / reader (public API of dpapi_ng._asn1)
# ---------------------------------------------------------------------------------------------
def _api():
    from dpapi_ng import _asn1

    return _asn1


def _tag(v: dict):
    a = _api()
    return a.ASN1Tag(a.TagClass(v["cls"]), v["num"], bool(v["pc"]))


def write_value(w, v: dict, rng: random.Random) -> None:
    k, tg = v["k"], (v["cls"], v["pc"], v["num"])
    tag = _tag(v)

    def opt(default: tuple):  # the API default tag is used half of the time when it is the value's tag
        return None if tg == default and rng.random() < 0.5 else tag

    if k == "int":
        if tg == (0, 0, 10):
            w.write_enumerated(int_of(v), opt((0, 0, 10)))
        else:
            w.write_integer(int_of(v), opt((0, 0, 2)))
    elif k == "bool":
        w.write_boolean(v["b"], opt((0, 0, 1)))
    elif k == "oid":
        w.write_object_identifier(oid_str(v), opt((0, 0, 6)))
    elif k == "oct":
        data: t.Any = bytes(v["bytes"])
        r = rng.random()
        if r < 0.2:
            data = bytearray(data)
        elif r < 0.3:
            data = memoryview(data)
        w.write_octet_string(data, opt((0, 0, 4)))
    elif k == "utf8":
        s = "".join(chr(c) for c in v["cps"])
        if tg == (0, 0, 24):
            w.write_generalized_time(s, opt((0, 0, 24)))
        else:
            w.write_utf8_string(s, opt((0, 0, 12)))
    else:
        if tg == (0, 1, 17):
            cm = w.push_set(opt((0, 1, 17))) if rng.random() < 0.7 else w.push_set_of(tag)
        elif tg == (0, 1, 16):
            cm = w.push_sequence(opt((0, 1, 16))) if rng.random() < 0.7 else w.push_sequence_of(tag)
        else:
            cm = w.push_sequence(tag) if rng.random() < 0.5 else w.push_set(tag)
        with cm as c:
            for kid in v["kids"]:
                write_value(c, kid, rng)


def read_value(r, ty: dict, rng: random.Random, sub_left: list[int]) -> dict:
    """Reads one value of the type of `ty` and rebuilds a tree from what the reader returned."""
    k, tg = ty["k"], (ty["cls"], ty["pc"], ty["num"])
    tag = _tag(ty)
    base = {"k": k, "cls": ty["cls"], "pc": ty["pc"], "num": ty["num"]}
    mode = rng.random()
    kw: dict = {}
    if mode < 0.2:
        kw["header"] = r.peek_header()  # as the CMS code does
        if mode < 0.1:
            kw["tag"] = tag
    else:
        kw["tag"] = tag
    if rng.random() < 0.3:
        kw["hint"] = "verif"

    def dflt(default: tuple) -> dict:
        if tg == default and "header" not in kw and rng.random() < 0.5:
            return {q: x for q, x in kw.items() if q != "tag"}
        return kw

    if k == "int":
        if tg == (0, 0, 10):
            n = r.read_enumerated(int, **dflt((0, 0, 10)))
        else:
            n = r.read_integer(**dflt((0, 0, 2)))
        if type(n) is not int:
            n = int(n)
        return {**base, **sm(n)}
    if k == "bool":
        b = r.read_boolean(**dflt((0, 0, 1)))
        return {**base, "b": b if isinstance(b, bool) else bool(b)}
    if k == "oid":
        s = r.read_object_identifier(**dflt((0, 0, 6)))
        try:
            arcs = [d128(int(x)) for x in s.split(".")]
            if any(int(x) < 0 for x in s.split(".")):
                arcs = []
        except Exception:  # noqa
            arcs = []
        return {**base, "arcs": arcs}
    if k == "oct":
        return {**base, "bytes": list(r.read_octet_string(**dflt((0, 0, 4))))}
    if k == "utf8":
        if tg == (0, 0, 24):
            s = r.read_generalized_time(**dflt((0, 0, 24)))
        else:
            s = r.read_utf8_string(**dflt((0, 0, 12)))
        return {**base, "cps": [ord(c) for c in s]}
    if tg == (0, 1, 17):
        sub = r.read_set(**dflt((0, 1, 17)))
    elif tg == (0, 1, 16):
        sub = r.read_sequence(**dflt((0, 1, 16)))
    else:
        sub = r.read_sequence(**kw) if rng.random() < 0.5 else r.read_set_of(**kw)
    slot = len(sub_left)
    sub_left.append(-1)
    kids = [read_value(sub, kt, rng, sub_left) for kt in ty["kids"]]
    still = bool(sub)
    left = len(sub.get_remaining_data())
    sub_left[slot] = left if (left > 0) == still else max(left, 1)  # __bool__ must agree with the data left
    return {**base, "kids": kids}


def run_case(cid: t.Any, focus: str, vals: list[dict], trail: bytes, rng: random.Random, skip: t.Sequence[int] = ()) -> dict:
    a = _api()
    row: dict = {"id": cid, "k": "t", "focus": focus, "vals": vals, "trail": list(trail), "w": [], "wexc": "", "rw": False,
                 "rin": [], "rvals": [], "rexc": "", "rest": [], "sub_left": [], "hdr": [], "skip": list(skip)}
    ref = b"".join(ref_enc(v) for v in vals)
    wb = None
    try:
        w = a.ASN1Writer()
        for v in vals:
            write_value(w, v, rng)
        wb = bytes(w.get_data())
        row["w"] = list(wb)
    except Exception as e:  # noqa
        row["wexc"] = exc_class(e)
        row["wmsg"] = str(e)[:120]
    if wb == ref:
        row["rw"] = True
    else:
        row["rin"] = list(ref)
    data: t.Any = ref + trail
    q = rng.random()
    if q < 0.2:
        data = bytearray(data)
    elif q < 0.4:
        data = memoryview(data)
    r = a.ASN1Reader(data)
    try:
        h = r.peek_header()
        row["hdr"] = [int(h.tag.tag_class), int(bool(h.tag.is_constructed)), int(h.tag.tag_number), h.tag_length, h.length]
    except Exception:  # noqa
        row["hdr"] = []
    try:
        rvals = []
        for i, v in enumerate(vals):
            if i in skip:
                r.skip_value(r.peek_header())
                rvals.append(v)
            else:
                rvals.append(read_value(r, v, rng, row["sub_left"]))
        row["rvals"] = rvals
        more = bool(r)
        rest = r.get_remaining_data()
        row["rest"] = list(rest)
        if more != (len(rest) > 0):
            row["rest"] = list(rest) + [256]  # ASN1Reader.__bool__ disagrees with the data left: poison -> TLC rejects
    except Exception as e:  # noqa
        row["rexc"] = exc_class(e)
        row["rmsg"] = str(e)[:120]
        row["rvals"] = []
        row["sub_left"] = []
    return row


_RUN = re.compile(rb"(.)\1*", re.S)


def rle(b: bytes) -> list[list[int]]:
    return [[m.group(1)[0], m.end() - m.start()] for m in _RUN.finditer(b)]


def run_large(cid: t.Any, cls: int, pc: int, num: int, byte: int, count: int, wrap: int) -> dict:
    """Large OCTET STRING content (runs), optionally inside `wrap` nested SEQUENCEs."""
    a = _api()
    row: dict = {"id": cid, "k": "L", "focus": "len", "cls": cls, "pc": pc, "num": num, "run": [byte, count], "wrap": wrap,
                 "w": [], "wexc": "", "rv": [], "rexc": "", "left": 0, "hdr": []}
    content = bytes([byte]) * count
    tag = a.ASN1Tag(a.TagClass(cls), num, bool(pc))
    ref = ref_head(cls, pc, num, count) + content
    for _ in range(wrap):
        ref = ref_head(0, 1, 16, len(ref)) + ref
    try:
        w = a.ASN1Writer()

        def emit(wr, d: int) -> None:
            if d == 0:
                wr.write_octet_string(content, tag)
            else:
                with wr.push_sequence() as c:
                    emit(c, d - 1)

        emit(w, wrap)
        wb = bytes(w.get_data())
        row["w"] = rle(wb)
    except Exception as e:  # noqa
        row["wexc"] = exc_class(e)
        wb = None
    try:
        r = a.ASN1Reader(ref)
        left = 0
        readers = [r]
        for _ in range(wrap):
            r = r.read_sequence()
            readers.append(r)
        h = r.peek_header()
        row["hdr"] = [int(h.tag.tag_class), int(bool(h.tag.is_constructed)), int(h.tag.tag_number), h.tag_length, h.length]
        val = r.read_octet_string(tag)
        for x in readers:
            left += len(x.get_remaining_data())
        row["rv"] = rle(val)
        row["left"] = left
    except Exception as e:  # noqa
        row["rexc"] = exc_class(e)
    return row


# ---- small integers: compact rows ----------------------------------------------------------------
def int_row(cid: t.Any, v: int) -> dict:
    a = _api()
    row: dict = {"id": cid, "k": "i", "focus": "int", "v": v, "w": [], "wexc": "", "rw": False, "rin": [], "rv": 0, "rexc": "", "left": 0}
    ref = ref_enc(v_int(v))
    wb = None
    try:
        w = a.ASN1Writer()
        w.write_integer(v)
        wb = bytes(w.get_data())
        row["w"] = list(wb)
    except Exception as e:  # noqa
        row["wexc"] = exc_class(e)
    if wb == ref:
        row["rw"] = True
    else:
        row["rin"] = list(ref)
    r = a.ASN1Reader(ref)
    try:
        rv = r.read_integer()
        row["rv"] = rv if abs(rv) < 2**31 - 1 else 2**31 - 1
        row["left"] = len(r.get_remaining_data())
    except Exception as e:  # noqa
        row["rexc"] = exc_class(e)
        row["rmsg"] = str(e)[:120]
    return row


def int_batch(lo: int, n: int) -> dict:
    """n consecutive integers: writer bytes, reader value (of the writer's bytes), octets left."""
    a = _api()
    W, R = a.ASN1Writer, a.ASN1Reader
    ws, rvs, lefts = [], [], []
    exc = False
    for v in range(lo, lo + n):
        try:
            w = W()
            w.write_integer(v)
            b = bytes(w.get_data())
            r = R(b)
            rv = r.read_integer()
            left = len(r.get_remaining_data())
            if abs(rv) >= 2**31 - 1:
                rv = 2**31 - 1
        except Exception:  # noqa
            exc = True
            b, rv, left = b"", 2**31 - 1, 0
        ws.append(list(b))
        rvs.append(rv)
        lefts.append(left)
    return {"id": f"ib:{lo}", "k": "ib", "focus": "int", "lo": lo, "n": n, "w": ws, "rv": rvs, "left": lefts, "exc": exc}


def _slab_to_file(args: tuple) -> str:
    lo, hi, path = args
    with open(path, "w") as f:
        for b in range(lo, hi, BATCH):
            row = int_batch(b, min(BATCH, hi - b))
            f.write(json.dumps(row, separators=(",", ":")))
            f.write("\n")
    return path


def _validate_files(ctx: Ctx, files: list[str], what: str) -> dict:
    """TraceDer over ndjson files written by worker processes (same protocol as tracecheck.validate)."""

    def one(p: str):
        return run_tlc("TraceDer", "TraceDer.cfg", rundir=ctx.rundir, workers=1, env={"TRACE_FILE": p, **JVM_ENV}, timeout=3000,
                       tag=pathlib.Path(p).stem, heap="3g")

    bad: dict = {}
    with cf.ThreadPoolExecutor(max_workers=12) as ex:
        for p, res in zip(files, ex.map(one, files)):
            r = res.tagged("RESULT")
            if not r or res.errors:
                raise MachineryError(f"trace validation run failed for {p}: errors={res.errors[:3]}\n{res.out[-2500:]}")
            st, b = r[0][0], r[0][1]
            for item in b:
                bad[item[0]] = sorted(item[1])
            ctx.cov["tlc_runs"].append({"what": f"trace validation {what} {pathlib.Path(p).name}", "module": "TraceDer",
                                        "lines": st.get("n"), "wall_s": round(res.wall, 2)})
    return bad


# ---------------------------------------------------------------------------------------------
# input classes (only used to name a failing case; the verdict is TLC's)
# ---------------------------------------------------------------------------------------------
def int_class(n: int) -> str:
    c = ref_content(v_int(n))
    if n < 0 and len(c) >= 3 and c[-1] == 0 and c[-2] == 0:
        return "negative_low_octets_zero"
    s = "zero" if n == 0 else ("negative" if n < 0 else "positive")
    if len(c) > 1 and c[0] in (0, 255):
        s += "_sign_octet"
    return s


def oid_class(v: dict) -> str:
    arcs = [from128(a) for a in v["arcs"]]
    if arcs[0] == 2 and arcs[1] >= 40:
        return "first_arc_2_second_ge_40"
    if max(arcs) >= 2**64:
        return "arc_ge_2_64"
    if max(arcs[2:] or [0]) >= 128:
        return "multi_octet_arc"
    return "small_arcs"


def tag_class(v: dict) -> str:
    return f"class{v['cls']}_{'high' if v['num'] >= 31 else 'low'}tag_{'constructed' if v['pc'] else 'primitive'}"


def len_class(n: int) -> str:
    return "short_form" if n < 128 else f"long_form_{(n.bit_length() + 7) // 8}"


def leaf_class(v: dict) -> str:
    k = v["k"]
    if k == "int":
        return "int_" + int_class(int_of(v))
    if k == "oid":
        return "oid_" + oid_class(v)
    if k == "utf8":
        m = max(v["cps"] or [0])
        return "utf8_" + ("non_bmp" if m > 0xFFFF else "bmp" if m > 127 else "ascii")
    if k == "oct":
        return "oct_" + len_class(len(v["bytes"]))
    return k


def _leaf_fails(v: dict, side: str) -> bool:
    """Python-side re-run of one leaf, for *naming* the culprit of a failing tree/concatenation only."""
    rng = random.Random(1)
    row = run_case(0, "x", [v], b"", rng)
    if side == "writer":
        return bool(row["wexc"] or not row["rw"])
    return bool(row["rexc"] or row["rvals"] != [v] or row["rest"])


def classify(row: dict, side: str) -> tuple[str, str]:
    """-> (kind, input class) naming the failing input."""
    f = row["focus"]
    if row["k"] in ("i",):
        return "int", int_class(row["v"])
    if row["k"] == "L":
        return "len", len_class(row["run"][1]) + (f"_nested{row['wrap']}" if row["wrap"] else "")
    v0 = row["vals"][0]
    if f == "int":
        return f, int_class(int_of(v0))
    if f == "oid":
        return f, oid_class(v0)
    if f == "tag":
        return f, tag_class(v0) + "_" + v0["k"]
    if f == "len":
        return f, len_class(len(ref_content(v0))) + ("_nested" if v0["k"] == "cons" else "")
    if f in ("tree", "concat"):
        for v in row["vals"]:
            for lf in leaves(v):
                if _leaf_fails(lf, side):
                    k, c = leaf_class(lf).partition("_")[::2]
                    return k, c or k          # the culprit is a leaf: name its class, not the container
        return f, "structure"
    k, c = leaf_class(v0).partition("_")[::2]
    return k, c or k


SIDE = {"writer_raises": "writer", "writer_bytes_not_minimal_der": "writer"}


def judge(ctx: Ctx, rows: dict, bad: dict) -> None:
    groups: dict[str, list] = {}
    for cid, clauses in bad.items():
        row = rows[cid]
        if any(c.startswith("MACHINERY") for c in clauses):
            raise MachineryError(f"malformed trace line / spec disagreement {clauses}: {json.dumps(row)[:1500]}")
        for side in sorted({SIDE.get(c, "reader") for c in clauses}):
            cl = [c for c in clauses if SIDE.get(c, "reader") == side]
            kind, cls = classify(row, side)
            groups.setdefault(f"der:{kind}:{side}:{cls}", []).append((row, cl))
    for key, items in sorted(groups.items()):
        for row, cl in items[:2]:
            ctx.violation(key, ",".join(cl), _brief(row), f"{len(items)} failing case(s) in this input class; e.g. {_describe(row)}")


def _brief(row: dict) -> dict:
    return json.loads(json.dumps(row)[:200000]) if len(json.dumps(row)) < 200000 else {"id": row["id"], "focus": row["focus"]}


def _describe(row: dict) -> str:
    if row["k"] == "i":
        return f"INTEGER {row['v']}: writer {bytes(row['w']).hex() or row['wexc']}; reader -> {row['rexc'] + ' ' + row.get('rmsg', '') if row['rexc'] else row['rv']} left={row['left']}"
    if row["k"] == "L":
        return f"OCTET STRING of {row['run'][1]} octets (tag {row['cls']},{row['pc']},{row['num']}, nesting {row['wrap']}): writer {row['wexc'] or row['w'][:6]} reader {row['rexc'] or row['rv'][:3]} left={row['left']}"
    v0 = row["vals"][0]
    what = {"int": lambda: f"INTEGER {int_of(v0)}" if len(v0["mag"]) < 40 else f"INTEGER of {len(v0['mag'])} magnitude octets",
            "oid": lambda: "OID " + oid_str(v0)}.get(v0["k"], lambda: v0["k"])()
    w = row["wexc"] + " " + row.get("wmsg", "") if row["wexc"] else bytes(row["w"][:24]).hex()
    if row["rexc"]:
        r = row["rexc"] + " " + row.get("rmsg", "")
    elif v0["k"] == "oid" and row["rvals"]:
        r = "OID " + (oid_str(row["rvals"][0]) if row["rvals"][0]["arcs"] else "?")
    elif v0["k"] == "int" and row["rvals"] and len(row["rvals"][0]["mag"]) < 40:
        r = str(int_of(row["rvals"][0]))
    else:
        r = "value " + ("equal" if row["rvals"] == row["vals"] else "differs")
    return f"{len(row['vals'])} value(s), first = {what} tag=({v0['cls']},{v0['pc']},{v0['num']}): writer -> {w}; reader(spec bytes {bytes(ref_enc(v0)[:16]).hex()}) -> {r}; rest={row['rest'][:8]} trailer={row['trail']}"


# ---------------------------------------------------------------------------------------------
# case generation
# ---------------------------------------------------------------------------------------------
TAG_NUMS = list(range(0, 31)) + [31, 32, 36, 100, 127, 128, 129, 255, 256, 16383, 16384, 2097151, 2097152, 2**27]
PLANES = [(0x20, 0x7E), (0xA0, 0x7FF), (0x800, 0xD7FF), (0xE000, 0xFFFF), (0x10000, 0x1FFFF), (0x20000, 0x10FFFF)]


def rand_text(rng: random.Random, n: int) -> str:
    out = []
    for _ in range(n):
        lo, hi = rng.choice(PLANES)
        out.append(chr(rng.randrange(lo, hi + 1)))
    return "".join(out)


def rand_int(rng: random.Random, maxbits: int = 600) -> int:
    bits = rng.randrange(0, maxbits)
    n = rng.getrandbits(bits) if bits else 0
    if rng.random() < 0.3:
        n <<= 8 * rng.randrange(1, 6)
    if rng.random() < 0.2 and bits:
        n = (1 << bits) - rng.randrange(0, 3)
    return -n if rng.random() < 0.5 else n


def rand_oid(rng: random.Random, allow_2x: bool = True) -> list[int]:
    def arc() -> int:
        b = rng.choice([0, 1, 3, 6, 7, 8, 13, 14, 15, 21, 28, 32, 35, 63, 64, 65, 80, 130])
        return rng.getrandbits(b) if b else 0

    first = rng.randrange(3) if allow_2x else rng.randrange(2)
    second = rng.randrange(40) if first < 2 or rng.random() < 0.3 else arc()
    return [first, second] + [arc() for _ in range(rng.randrange(0, 10))]


def rand_tag(rng: random.Random, universal_ok: bool = True) -> tuple[int, int, int]:
    cls = rng.randrange(0 if universal_ok else 1, 4)
    num = rng.randrange(0, 37) if cls == 0 else rng.choice(TAG_NUMS + [rng.randrange(0, 40), rng.getrandbits(rng.randrange(1, 27))])
    return cls, int(rng.random() < 0.3), num


def rand_leaf(rng: random.Random, oid_2x: bool = True) -> dict:
    k = rng.choice(["int", "int", "bool", "oid", "oct", "utf8", "time", "enum"])
    if k == "int":
        v = v_int(rand_int(rng, 200))
    elif k == "enum":
        v = v_int(rand_int(rng, 40), 0, 0, 10)
    elif k == "bool":
        v = v_bool(rng.random() < 0.5)
    elif k == "oid":
        v = v_oid(rand_oid(rng, oid_2x))
    elif k == "oct":
        v = v_oct(rng.randbytes(rng.choice([0, 1, 2, 5, 16, 40, 127, 128, 129, 200, 255, 256, 300])))
    elif k == "utf8":
        v = v_utf8(rand_text(rng, rng.randrange(0, 12)))
    else:
        v = v_utf8("%04d%02d%02d%02d%02d%02dZ" % (rng.randrange(1, 9999), rng.randrange(1, 13), rng.randrange(1, 29), rng.randrange(24),
                                                  rng.randrange(60), rng.randrange(60)), 0, 0, 24)
    if rng.random() < 0.3:
        v = retag(v, *rand_tag(rng))
    return v


def rand_tree(rng: random.Random, depth: int, oid_2x: bool = True) -> dict:
    if depth == 0 or rng.random() < 0.25:
        return rand_leaf(rng, oid_2x)
    kids = [rand_tree(rng, depth - 1, oid_2x) for _ in range(rng.choice([0, 1, 1, 2, 2, 3, 4]))]
    q = rng.random()
    if q < 0.4:
        return v_cons(kids)
    if q < 0.6:
        return v_cons(kids, 0, 1, 17)
    if q < 0.8:
        return v_cons(kids, 2, 1, rng.randrange(0, 5))
    cls, pc, num = rand_tag(rng, universal_ok=False)
    return v_cons(kids, cls, 1 if rng.random() < 0.9 else pc, num)


def depth_of(v: dict) -> int:
    return 0 if v["k"] != "cons" else 1 + max([depth_of(k) for k in v["kids"]] or [0])


def gen_cases(ctx: Ctx) -> list[tuple]:
    """-> [(focus, vals, skip)]"""
    rng = ctx.rng
    out: list[tuple] = []

    def add(focus: str, *vals: dict, skip: t.Sequence[int] = ()) -> None:
        out.append((focus, list(vals), tuple(skip)))

    # integers: +-2^k, +-(2^k +- 1)
    ks = range(0, 4097) if ctx.thorough else sorted(set(range(0, 200)) | {k for k in range(200, 4097) if k % 8 in (0, 1, 7)} | {4095, 4096})
    for k in ks:
        for d in (-1, 0, 1):
            for s in (1, -1):
                add("int", v_int(s * ((1 << k) + d)))
    # integers whose low octets are zero, of every width up to 40 octets
    for j in range(1, 40):
        for m in (1, 2, 127, 128, 129, 255, 256, 257, 0x7FFF, 0x8000, 0x8001, 0xFFFF):
            for s in (1, -1):
                add("int", v_int(s * m * (1 << (8 * j))))
    for _ in range(ctx.pick(2500, 40000)):
        add("int", v_int(rand_int(rng)))
    for n in (0, 1, -1, 127, 128, -128, -129, 255, 256, -256, -257):
        add("int", v_int(n, 0, 0, 10))
    # booleans
    for b in (True, False):
        add("bool", v_bool(b))
    # object identifiers
    small, big = [0, 1, 39], [0, 1, 127, 128, 16383, 16384, 2**32, 2**64 - 1, 2**64, 2**128]
    tails = [[]] + [[a] for a in big] + [[a, b] for a in big for b in big]
    for f in (0, 1):
        for s2 in small + [38]:
            for tl in tails:
                add("oid", v_oid([f, s2] + tl))
    for s2 in [0, 1, 39, 40, 47, 48, 127, 128, 175, 176, 999, 16303, 16304, 2**32, 2**64 - 80, 2**64 - 1, 2**64, 2**100]:
        for tl in tails[:: 1 if ctx.thorough else 3]:
            add("oid", v_oid([2, s2] + tl))
    for o in ("1.2.840.113549.1.7.3", "1.2.840.113549.1.7.1", "1.3.6.1.4.1.311.74.1", "1.3.6.1.4.1.311.74.1.1", "2.16.840.1.101.3.4.1.45",
              "2.16.840.1.101.3.4.1.46", "2.5.4.3", "0.9.2342.19200300.100.1.25", "2.999.1", "2.25.329800735698586629295641978511506172918"):
        add("oid", v_oid([int(x) for x in o.split(".")]))
    for _ in range(ctx.pick(1500, 30000)):
        add("oid", v_oid(rand_oid(rng)))
    # strings
    for n in list(range(0, 140)) + [200, 255, 256, 257, 300, 1000]:
        add("oct", v_oct(rng.randbytes(n)))
    for _ in range(ctx.pick(600, 10000)):
        add("utf8", v_utf8(rand_text(rng, rng.randrange(0, 50))))
    for cp in (0, 0x7F, 0x80, 0x7FF, 0x800, 0xD7FF, 0xE000, 0xFFFF, 0x10000, 0x1F600, 0x10FFFF):
        add("utf8", v_utf8(chr(cp)))
        add("utf8", v_utf8("a" + chr(cp) * 43))
    for s in ("20261003075300Z", "19700101000000Z", "20261003075300.5Z", "99991231235959.999Z", "2026100307Z", ""):
        add("time", v_utf8(s, 0, 0, 24))
    # tags: every class x number family x P/C on every kind
    protos = [v_int(-129), v_oct(b"\x01\x02\x03"), v_bool(True), v_utf8("hé\U0001F600"), v_oid([1, 2, 840, 113549]),
              v_cons([v_bool(False), v_oct(b"\x07")])]
    for cls in range(4):
        for num in TAG_NUMS:
            if cls == 0 and num > 36:
                continue  # X.680 assigns universal numbers 0..36 only; see the probe below
            for pc in (0, 1):
                for p in protos:
                    add("tag", retag(p, cls, pc, num))
    # content lengths around 2^7, 2^8 (explicit bytes; 2^16 and 2^24 as runs below)
    for n in list(range(120, 136)) + list(range(250, 262)) + ([65535, 65536] if not ctx.thorough else list(range(65533, 65539))):
        add("len", v_oct(bytes([n & 0xFF]) * n))
    for n in list(range(110, 132)) + list(range(240, 260)):
        add("len", v_cons([v_oct(b"\x55" * n), v_int(1)]))
        add("len", v_cons([v_cons([v_oct(b"\x55" * n)], 2, 1, 0)], 0, 1, 17))
    for n in (41, 42, 43, 44, 84, 85, 86):
        add("len", v_utf8("€" * n))  # 3 octets per character
    # nested trees and concatenations
    for _ in range(ctx.pick(2500, 40000)):
        add("tree", rand_tree(rng, rng.randrange(1, 6)))
    chain = v_int(-1)
    for d in range(1, 9):
        chain = v_cons([chain] + ([v_utf8("x" * d)] if d % 2 else []), 0, 1, 16 + d % 2)
        add("tree", chain)
    for _ in range(ctx.pick(1500, 25000)):
        n = rng.randrange(2, 7)
        vals = [rand_tree(rng, rng.choice([0, 0, 0, 1, 2])) for _ in range(n)]
        sk = [i for i in range(n) if rng.random() < 0.1]
        add("concat", *vals, skip=sk)
    return out


def large_cases(ctx: Ctx) -> list[tuple]:
    counts = [127, 128, 255, 256, 65534, 65535, 65536, 65537, 65536 + 255, 65536 + 256]
    counts += [2**24 - 1, 2**24, 2**24 + 1] if ctx.thorough else [2**24 - 1, 2**24]
    out = []
    for n in counts:
        for wrap in (0, 1, 2):
            out.append((0, 0, 4, 0xAA, n, wrap))
        out.append((2, 0, 0, 0x82, n, 1))      # filler equal to a header octet: run merging
        out.append((3, 1, 16384, 0x00, n, 0))
    return out


# ---------------------------------------------------------------------------------------------
# spec-level TLC
# ---------------------------------------------------------------------------------------------
def _mc_cfg(part: int) -> str:
    return (f"CONSTANTS\n  MaxPow = 4096\n  Part = {part}\n  Parts = {MC_PARTS}\nINIT Init\nNEXT Next\nINVARIANTS\n"
            "  WellFormed\n  RoundTrip\n  ExactConsumption\n  Minimal\n  PrefixRejected\n")


def _start_spec_checks(ctx: Ctx) -> tuple[cf.ThreadPoolExecutor, list]:
    ex = cf.ThreadPoolExecutor(max_workers=MC_PARTS + 2)
    futs = []
    for part in range(MC_PARTS + 2):
        cfg = write_cfg(ctx.rundir, f"MC_Der_part{part}.cfg", _mc_cfg(part))
        futs.append((part, ex.submit(run_tlc, "MC_Der", str(cfg), rundir=ctx.rundir, workers=1, heap="3g", tag=f"part{part}", env=JVM_ENV)))
    return ex, futs


def _finish_spec_checks(ctx: Ctx, ex: cf.ThreadPoolExecutor, futs: list) -> None:
    what = {0: "all 65,536 integers of <= 2 content octets", 1: "tags (4 classes x 39 numbers x P/C x 5 kinds), lengths around 2^7/2^8/2^16 "
            "(direct and nested), OIDs (arcs to 2^133), UTF-8 boundaries, trees to depth 5, typed injectivity, non-canonical rejection, 2^24/2^31 headers"}
    for part, f in futs:
        r = f.result()
        require_ok(r, f"MC_Der part {part}")
        if r.distinct == 0:
            raise MachineryError(f"MC_Der part {part} explored no value")
        ctx.add_tlc(r, "Der.tla on itself: RoundTrip, ExactConsumption, Minimal, PrefixRejected over "
                    + what.get(part, f"+-2^k, +-(2^k+-1) as byte strings, k = {part - 2} mod {MC_PARTS}, k <= 4096"))
    ex.shutdown()


# ---------------------------------------------------------------------------------------------
# probes outside the statement (never violations): what the reader does with non-DER input
# ---------------------------------------------------------------------------------------------
def _probes(ctx: Ctx) -> None:
    a = _api()
    cases = [("empty_integer", b"\x02\x00", "read_integer"), ("empty_oid", b"\x06\x00", "read_object_identifier"),
             ("nonminimal_length", b"\x04\x81\x01\x00", "read_octet_string"), ("integer_redundant_zero", b"\x02\x02\x00\x05", "read_integer"),
             ("integer_redundant_ff", b"\x02\x02\xff\x80", "read_integer"), ("boolean_01", b"\x01\x01\x01", "read_boolean"),
             ("oid_padded_subidentifier", b"\x06\x03\x2a\x80\x01", "read_object_identifier")]
    for name, data, meth in cases:
        try:
            getattr(a.ASN1Reader(data), meth)()
            ctx.note_drift(f"reader_accepts_non_der:{name}")
        except (ValueError, a.NotEnougData):
            pass
        except Exception as e:  # noqa
            ctx.note_drift(f"reader_raises_{type(e).__name__}_on_non_der:{name}")
    try:
        w = a.ASN1Writer()
        w.write_octet_string(b"x", a.ASN1Tag(a.TagClass.UNIVERSAL, 127, False))
        a.ASN1Reader(bytes(w.get_data())).peek_header()
    except Exception:  # noqa
        ctx.note_drift("reader_rejects_unassigned_universal_tag_number_gt_36")


# ---------------------------------------------------------------------------------------------
def _exhaustive_ints(ctx: Ctx, rows_by_id: dict, pool: t.Any) -> tuple[dict, int, str]:
    """All integers of <= 2 (quick) / <= 3 (thorough) content octets, batched."""
    bad: dict = {}
    if not ctx.thorough:
        rows = [int_batch(lo, BATCH) for lo in range(-32768, 32768, BATCH)]
        b, _ = validate(ctx, "TraceDer", "TraceDer.cfg", rows, chunk=64, what="ints2", count_traces=False, env=JVM_ENV)
        n, note = 65536, "every integer -32768..32767"
        batches = {r["id"]: r for r in rows}
        bad_batches = list(b)
    else:
        lo0, hi0 = -(2**23), 2**23
        slab = 2**18
        jobs = [(lo, lo + slab, str(ctx.rundir / f"TraceDer-ints3-{i:03d}.ndjson")) for i, lo in enumerate(range(lo0, hi0, slab))]
        files = pool.map(_slab_to_file, jobs)
        pool.close()
        pool.join()
        b = _validate_files(ctx, files, "ints3")
        for f in files:
            pathlib.Path(f).unlink(missing_ok=True)
        n, note = hi0 - lo0, "every integer -2^23..2^23-1 (all values of up to 3 content octets), not stratified"
        batches = {}
        bad_batches = list(b)
    ctx.traces(n)
    ctx.count(n)
    # pinpoint: re-run failing batches value by value as individual rows
    if bad_batches:
        if any(c.startswith("MACHINERY") for cl in b.values() for c in cl):
            raise MachineryError(f"malformed integer batch: {list(b.items())[:3]}")
        singles = []
        for bid in bad_batches[:600]:
            lo = int(str(bid).split(":")[1])
            for v in range(lo, lo + BATCH):
                singles.append(int_row(f"i:{v}", v))
        sb, _ = validate(ctx, "TraceDer", "TraceDer.cfg", singles, chunk=20000, what="ints-pinpoint", count_traces=False, env=JVM_ENV)
        for r in singles:
            rows_by_id[r["id"]] = r
        bad.update(sb)
        if not sb:
            raise MachineryError(f"integer batches {bad_batches[:5]} rejected but no single value reproduces it")
    return bad, n, note


def run(ctx: Ctx) -> int:
    _api()
    # worker processes for the 16.7M-integer sweep are forked before any thread exists
    pool = mp.get_context("fork").Pool(14) if ctx.thorough else None
    ex, futs = _start_spec_checks(ctx)
    rows_by_id: dict = {}
    if True:
        bad_i, n_int, int_note = _exhaustive_ints(ctx, rows_by_id, pool)
        cases = gen_cases(ctx)
        rows = []
        for i, (focus, vals, skip) in enumerate(cases):
            trail = b"" if ctx.rng.random() < 0.5 else ctx.rng.randbytes(ctx.rng.randrange(1, 4))
            row = run_case(f"c{i}", focus, vals, trail, ctx.rng, skip)
            rows.append(row)
            v0 = vals[0]
            ctx.distinct((focus, len(vals), v0["k"], v0["cls"], v0["pc"], v0["num"], leaf_class(v0) if v0["k"] != "cons" else depth_of(v0),
                          len(ref_content(v0)).bit_length(), len(trail) > 0))
        big = [r for r in rows if len(r["w"]) > 20000]
        small = [r for r in rows if len(r["w"]) <= 20000]
        small.sort(key=lambda r: len(r["w"]) + len(r["rin"]))
        # interleave sizes so that chunks have similar weight
        nchunk = max(1, len(small) // 1500)
        order = [r for k in range(nchunk) for r in small[k::nchunk]]
        per = -(-len(order) // nchunk)
        bad_t, _ = validate(ctx, "TraceDer", "TraceDer.cfg", order, chunk=per, what="cases", env=JVM_ENV)
        bad_b, _ = validate(ctx, "TraceDer", "TraceDer.cfg", big, chunk=2, what="bigcases", env=JVM_ENV) if big else ({}, [])
        lrows = [run_large(f"L{i}", *c) for i, c in enumerate(large_cases(ctx))]
        bad_l, _ = validate(ctx, "TraceDer", "TraceDer.cfg", lrows, chunk=40, what="large", env=JVM_ENV)
        for r in lrows:
            ctx.distinct(("L", r["cls"], r["pc"], r["num"], r["run"][1], r["wrap"]))
        ctx.count(len(rows) + len(lrows))
        for r in rows + lrows:
            rows_by_id[r["id"]] = r
        _probes(ctx)
    # the spec-level runs were started first and ran concurrently with the conformance part
    _finish_spec_checks(ctx, ex, futs)
    judge(ctx, rows_by_id, {**bad_i, **bad_t, **bad_b, **bad_l})
    for r in (rows[0], rows[len(rows) // 2], rows[-1], lrows[-1]):
        ctx.sample({k: (x if not isinstance(x, list) or len(x) < 40 else x[:40] + ["..."]) for k, x in r.items()})
    ctx.cov["case_classes"] = {f: sum(1 for r in rows if r["focus"] == f) for f in sorted({r["focus"] for r in rows})}
    ctx.cov["exhaustive_integers"] = int_note
    ctx.assume("projection value <-> tree (int.to_bytes, str.split('.') of the returned OID, ord/chr) is trusted; the reference "
               "encoder that feeds the reader is *checked* by TLC against DerEncAll on every line")
    ctx.assume("universal-class tag numbers are exercised for the assigned numbers 0..36 only (the reader maps them to TypeTagNumber)")
    return ctx.finish(
        rule=f"{int_note} in batches of {BATCH}; +-2^k, +-(2^k+-1) for k<=4096, integers with zero low octets, random integers to 600 bits; "
        "systematic + random OIDs (first arc 0..2, arcs to 2^128), octet/UTF-8 (all planes)/GeneralizedTime strings, booleans, every "
        "class x tag-number family x P/C on six kinds, content lengths around 2^7/2^8/2^16 (2^24 in thorough; large contents as "
        "run-length rows), random trees to depth 5 and a depth-8 chain, concatenations of 2..6 values with trailers and skip_value; "
        "each is one real ASN1Writer + ASN1Reader execution judged by TraceDer (TLC); distinct = (class, tag, kind, input class, size bucket)",
        exhaustive=False,
    )


def replay(ctx: Ctx, case: dict) -> int:
    row = case["case"]
    if row.get("k") == "i":
        new = int_row(row["id"], row["v"])
    elif row.get("k") == "L":
        new = run_large(row["id"], row["cls"], row["pc"], row["num"], row["run"][0], row["run"][1], row["wrap"])
    else:
        new = run_case(row["id"], row["focus"], row["vals"], bytes(row["trail"]), ctx.rng, row.get("skip", ()))
    bad, _ = validate(ctx, "TraceDer", "TraceDer.cfg", [new], what="replay")
    judge(ctx, {new["id"]: new}, bad)
    return ctx.finish(rule="replay of one recorded case")


# ---------------------------------------------------------------------------------------------
def _expect_reject(ctx: Ctx, module: str, cfg: str, good: list[dict], corrupted: list[dict], what: str) -> None:
    """As tracecheck.selftest_expect_reject, with this driver's JVM options (deep recursion needs a larger stack)."""
    bad, _ = validate(ctx, module, cfg, good, what=what + "-good", count_traces=False, env=JVM_ENV)
    if bad:
        raise MachineryError(f"selftest {what}: good rows rejected: {list(bad.items())[:3]}")
    bad, _ = validate(ctx, module, cfg, corrupted, what=what + "-corrupt", count_traces=False, env=JVM_ENV)
    missing = [r["id"] for r in corrupted if r["id"] not in bad]
    if missing:
        raise MachineryError(f"selftest {what}: corrupted rows accepted: {missing[:5]}")



def selftest(ctx: Ctx) -> int:
    rng = ctx.rng
    good: list[dict] = []
    vals = [v_int(5), v_int(-129), v_int(2**70 + 1), v_int(-(2**64) - 3), v_oid([1, 2, 840, 113549]), v_oid([0, 39, 2**64]),
            v_utf8("hé\U0001F600"), v_oct(b"\x00" * 130), v_bool(True), retag(v_oct(b"abc"), 2, 0, 16384),
            v_cons([v_int(7), v_cons([v_utf8("x"), v_bool(False)], 2, 1, 0)]), v_cons([v_oct(b"\x11" * 200)], 0, 1, 17)]
    for i, v in enumerate(vals):
        good.append(run_case(f"g{i}", "self", [v], b"\x05\x00" if i % 2 else b"", rng))
    good.append(run_case("gc", "self", [vals[0], vals[4], vals[10]], b"\xff", rng))
    good.append(int_batch(-300, BATCH))
    good.append(int_row("gi", -32769))
    good.append(run_large("gl", 0, 0, 4, 0xAA, 65536, 1))
    corrupted: list[dict] = []

    def mut(row: dict, name: str, f: t.Callable[[dict], None]) -> None:
        c = json.loads(json.dumps(row))
        c["id"] = f"{row['id']}-{name}"
        f(c)
        corrupted.append(c)

    for row in good:
        if row["k"] == "t":
            mut(row, "wbyte", lambda c: c["w"].__setitem__(len(c["w"]) - 1, (c["w"][-1] + 1) % 256))
            mut(row, "wlen", lambda c: c["w"].__setitem__(1, c["w"][1] ^ 1) if c["w"][0] & 31 != 31 else c["w"].append(0))
            mut(row, "rest", lambda c: c["rest"].append(0))
            mut(row, "hdr", lambda c: c["hdr"].__setitem__(3, c["hdr"][3] + 1))
            mut(row, "rexc", lambda c: c.__setitem__("rexc", "builtins.ValueError"))
            mut(row, "wexc", lambda c: c.__setitem__("wexc", "builtins.ValueError"))
            v0 = row["rvals"][0]
            if v0["k"] == "int":
                mut(row, "rval", lambda c: c["rvals"][0].__setitem__("neg", not c["rvals"][0]["neg"]))
                mut(row, "rmag", lambda c: c["rvals"][0]["mag"].__setitem__(-1, c["rvals"][0]["mag"][-1] ^ 1))
            elif v0["k"] == "oid":
                mut(row, "rval", lambda c: c["rvals"][0]["arcs"].__setitem__(1, [1, 0]))
            elif v0["k"] == "utf8":
                mut(row, "rval", lambda c: c["rvals"][0]["cps"].pop())
            elif v0["k"] == "oct":
                mut(row, "rval", lambda c: c["rvals"][0]["bytes"].pop())
            elif v0["k"] == "bool":
                mut(row, "rval", lambda c: c["rvals"][0].__setitem__("b", False))
            else:
                mut(row, "rval", lambda c: c["rvals"][0]["kids"].pop())
                mut(row, "subleft", lambda c: c["sub_left"].__setitem__(0, 2))
        elif row["k"] == "ib":
            mut(row, "rv", lambda c: c["rv"].__setitem__(5, c["rv"][5] + 1))
            mut(row, "left", lambda c: c["left"].__setitem__(200, 1))
            mut(row, "w", lambda c: c["w"][100].insert(2, 0))
        elif row["k"] == "i":
            mut(row, "rv", lambda c: c.__setitem__("rv", c["rv"] + 256))
            mut(row, "w", lambda c: c.__setitem__("w", [2, 2, 0x7F, 0xFF]))
            mut(row, "left", lambda c: c.__setitem__("left", 1))
        else:
            mut(row, "w", lambda c: c["w"][-1].__setitem__(1, c["w"][-1][1] + 1))
            mut(row, "rv", lambda c: c["rv"][0].__setitem__(1, c["rv"][0][1] - 1))
            mut(row, "hdr", lambda c: c["hdr"].__setitem__(4, 65535))
    _expect_reject(ctx, "TraceDer", "TraceDer.cfg", good, corrupted, "c07")
    print(f"selftest C07 ok: {len(good)} recorded rows accepted, {len(corrupted)} corrupted rows (emitted byte, length octet, returned value, "
          "left-over octets, nested left-over, header, exception) all rejected")
    return 0
