"""C09 — encryption names the group key of the interval containing the current time."""
from __future__ import annotations

import asyncio
import uuid

from .. import taps
from ..core import Ctx, MachineryError
from ..tlc import require_ok, run_apalache, run_tlc
from ..tracecheck import validate

EPOCH = 116444736000000000
BASE = 360000000000
SID = "S-1-5-21-2185496602-3367037166-1388177638-1103"


def limbs(t: int) -> list[int]:
    return [t // 10**10, (t // 10**5) % 10**5, t % 10**5]


def _instants(ctx: Ctx) -> list[tuple[str, int]]:
    """FILETIME instants: +-64 ticks around L2/L1/L0 boundaries for several epochs + random."""
    out = []
    now_l0 = (1791000000 * 10**7 + EPOCH) // (1024 * BASE)
    nep = ctx.pick(7, 120)
    epochs = [now_l0 - nep // 2 + i for i in range(nep)] + [ctx.rng.randrange(330, 520) for _ in range(ctx.pick(3, 40))]
    span = 64
    for l0 in epochs:
        for kind, mult in (("L0", 1024), ("L1", 32), ("L2", 1)):
            k = l0 * 1024 + (0 if kind == "L0" else ctx.rng.randrange(1, 1024))
            if kind == "L1":
                k = k // 32 * 32
            boundary = k * BASE
            for off in range(-span, span + 1):
                out.append((f"{kind}-boundary", boundary + off))
    lo = 11644473600 * 10**7  # 1970
    hi = lo + (2200 - 1970) * 365 * 86400 * 10**7
    for _ in range(ctx.pick(1500, 150000)):
        out.append(("random", ctx.rng.randrange(lo, hi)))
    return out


def _seed_envelope_source(ctx: Ctx, base_id: int) -> list[dict]:
    """Second cache source named by the statement: previously retrieved seed keys (no root key loaded).  The DC's clock
    may be ahead of the client's (skew), so the cached seed envelope can sit at a later position than the client's now."""
    import dpapi_ng
    import dpapi_ng._client as client
    from dpapi_ng._blob import DPAPINGBlob

    from .. import blobref, refdc, sdref

    refdc.ensure_ntlm_users()
    rng = ctx.rng
    rows = []
    user = f"{refdc.DOMAIN}\\{refdc.USER}"
    for k in range(ctx.pick(120, 1500)):
        l0 = 361 + rng.randrange(20)
        a, b = rng.randrange(0, 31), rng.randrange(32)
        skew = rng.choice([(0, 0), (0, 1), (1, 0), (1, 0), (3, 0), (0, 5), (2, -3)])
        da, db = min(31, a + skew[0]), min(31, max(0, b + skew[1]))
        if (da, db) < (a, b):
            da, db = a, b
        if k % 4 == 3 and (a, b) > (0, 0):
            # the opposite case: what was retrieved earlier is for a PAST interval of this L0 (the process has been running for
            # a while).  It does not cover now: whatever the library does (ask the DC again), it must not name the past interval
            pa = rng.randrange(0, a + 1)
            pb = rng.randrange(0, b) if pa == a and b > 0 else (rng.randrange(32) if pa < a else 0)
            if (pa, pb) < (a, b):
                da, db, skew = pa, pb, ("stale", pa - a, pb - b)
        ft = ((l0 * 32 + a) * 32 + b) * BASE + rng.randrange(BASE)
        h = rng.choice(["SHA1", "SHA256", "SHA384", "SHA512"])
        rkid = uuid.UUID(bytes=rng.randbytes(16))
        dc = refdc.DC()
        dc.add_root_key(rkid, refdc.RootKeyInfo(rng.randbytes(64), h, "DH"))
        dc.now = (l0, da, db)
        stale = isinstance(skew[0], str)
        cache = dpapi_ng.KeyCache()
        ks = dc.keyset(rkid, sdref.target_sd(SID), l0)
        prime = blobref.make_blob(h, ks.l2(da, db), rkid, l0, da, db, SID, b"prime", rng.randbytes)
        row = {"id": base_id + k, "kind": "seed-source stale" if stale else f"seed-source skew {skew}", "t": limbs(ft), "t2": limbs(ft), "l0": -1, "l1": -1, "l2": -1, "res": "blob", "flavour": "sync"}
        try:
            with refdc.Network(dc):
                dpapi_ng.ncrypt_unprotect_secret(prime, server="dc01", username=user, password=refdc.PASSWORD, auth_protocol="ntlm", cache=cache)
            n_before = len(dc.getkey_log)
            if stale:
                dc.now = (l0, a, b)        # the DC's clock agrees with the client's again: a fresh GetKey names the current interval
            with taps.clock(client, (ft - EPOCH) * 100), taps.KdfTap(budget=300, record=False), refdc.Network(dc):
                blob = dpapi_ng.ncrypt_protect_secret(b"x", SID, root_key_identifier=rkid, cache=cache, server="dc01", username=user,
                                                      password=refdc.PASSWORD, auth_protocol="ntlm")
            if len(dc.getkey_log) != n_before:
                continue      # the key came from the DC, not from the cache: C09 does not apply (C17)
            kid = DPAPINGBlob.unpack(blob).key_identifier
            row.update(l0=kid.l0, l1=kid.l1, l2=kid.l2)
        except taps.BudgetExceeded:
            row["res"] = "budget"
        except Exception as e:  # noqa
            row["res"] = "error:" + type(e).__name__
        rows.append(row)
        ctx.distinct(("seed-source", l0, a, b, skew))
    return rows


def run(ctx: Ctx) -> int:
    import dpapi_ng
    import dpapi_ng._client as client
    from dpapi_ng._blob import DPAPINGBlob

    r = run_tlc("GkdiClock", "MC_GkdiClock.cfg", rundir=ctx.rundir, coverage=True)
    require_ok(r, "scaled clock model")
    ctx.add_tlc(r, "GkdiClock Fan=4 Base=3 MaxT=200: tick/jump/protect, NamesContainingInterval, NeverFutureNeverPast, Monotone")
    proved = 0
    for inv in ("Lemma1", "Lemma2", "Lemma3"):
        ok, out, w = run_apalache("ApaClock", ["--length=0", f"--inv={inv}"], ctx.rundir, timeout=600)
        if not ok:
            raise MachineryError(f"Apalache could not discharge ApaClock!{inv}: {out[-800:]}")
        proved += 1
        ctx.cov["tlc_runs"].append({"what": f"Apalache ApaClock!{inv} for all t in Nat (real constants)", "wall_s": round(w, 1)})
    ctx.cov["apalache_lemmas"] = proved

    rkid = uuid.UUID(int=ctx.rng.getrandbits(128))
    cache = dpapi_ng.KeyCache()
    cache.load_key(ctx.rng.randbytes(64), rkid)
    rows = []
    inst = _instants(ctx)
    for i, (kind, ft) in enumerate(inst):
        unix_ns = (ft - EPOCH) * 100 + ctx.rng.randrange(100)
        # a running clock: every read returns a later value (1 tick = 100 ns per read for a third of the cases, so that a
        # boundary can fall between two reads of one call); t / t2 are the first and last values the call saw
        step = 100 if i % 3 == 0 else 0
        reads: list[int] = []

        def now_ns(base=unix_ns, step=step, reads=reads) -> int:
            v = base + step * len(reads)
            reads.append(v)
            return v

        row = {"id": i, "kind": kind, "t": limbs(ft), "t2": limbs(ft), "l0": -1, "l1": -1, "l2": -1, "res": "blob", "flavour": "sync"}
        try:
            with taps.clock(client, now_ns), taps.KdfTap(budget=300, record=False):
                if i % 7 == 3:
                    row["flavour"] = "async"
                    blob = asyncio.run(dpapi_ng.async_ncrypt_protect_secret(b"x", SID, root_key_identifier=rkid, cache=cache))
                else:
                    blob = dpapi_ng.ncrypt_protect_secret(b"x", SID, root_key_identifier=rkid, cache=cache)
            kid = DPAPINGBlob.unpack(blob).key_identifier
            row.update(l0=kid.l0, l1=kid.l1, l2=kid.l2)
            if reads:
                row["t"], row["t2"] = limbs(reads[0] // 100 + EPOCH), limbs(reads[-1] // 100 + EPOCH)
        except taps.BudgetExceeded:
            row["res"] = "budget"
        except Exception as e:  # noqa
            row["res"] = "error:" + type(e).__name__
        rows.append(row)
        ctx.distinct((ft // BASE, ft % BASE < 64 or ft % BASE >= BASE - 64))
        if len(rows) % 64 == 0:       # a fresh cache now and then (keeps the number of cached L0 entries small)
            cache = dpapi_ng.KeyCache()
            cache.load_key(ctx.rng.randbytes(64), rkid)
    rows += _seed_envelope_source(ctx, len(rows))
    ctx.count(len(rows))
    bad, _ = validate(ctx, "TraceClock", "TraceClock.cfg", rows, chunk=20000, what="clock")
    by = {r["id"]: r for r in rows}
    for i, clauses in bad.items():
        r = by[i]
        if any(c.startswith("MACHINERY") for c in clauses):
            raise MachineryError(f"bad trace line {r}")
        t = r["t"][0] * 10**10 + r["t"][1] * 10**5 + r["t"][2]
        ctx.violation(f"clock:{clauses[0]}:{r['kind']}", ",".join(clauses), r,
                      f"t={t} (FILETIME) named (L0,L1,L2)=({r['l0']},{r['l1']},{r['l2']}) res={r['res']} [{r['flavour']}]")
    for r in rows[:2] + rows[-1:]:
        ctx.sample(r)
    ctx.assume("clock observed through dpapi_ng._client's `time` name (time.time_ns); key identifier read back with the library's own blob parser")
    return ctx.finish(
        rule="instants = every offset in +-64 ticks of L0/L1/L2 boundaries for several epochs + random instants 1970-2200; "
        "each is one real (async_)ncrypt_protect_secret call from a root-key cache under the clock tap; TLC (TraceClock) checks "
        "Contains(named interval, t) on limbs; distinct = distinct (L2 interval, near-boundary) classes",
    )


def selftest(ctx: Ctx) -> int:
    from ..tracecheck import selftest_expect_reject

    good, badrows = [], []
    for i in range(30):
        ft = (372000 + i) * BASE + i
        idx = ft // BASE
        row = {"id": i, "kind": "x", "t": limbs(ft), "t2": limbs(ft), "l0": idx // 1024, "l1": idx // 32 % 32, "l2": idx % 32, "res": "blob", "flavour": "sync"}
        good.append(row)
        b = dict(row)
        b["l2"] = (b["l2"] + 1) % 32
        badrows.append(b)
    selftest_expect_reject(ctx, "TraceClock", "TraceClock.cfg", good, badrows, "c09")
    print("selftest C09 ok")
    return 0
