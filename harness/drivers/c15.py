"""C15 — bind/auth handshake relays tokens faithfully and fails closed."""
from __future__ import annotations

import asyncio
import random
import struct
import typing as t
import uuid

from .. import taps
from .. import blobref, provider, refdc, sdref
from ..core import Ctx, MachineryError
from ..tlc import require_ok, run_tlc
from ..tracecheck import validate

SID = "S-1-5-21-2185496602-3367037166-1388177638-1103"
RKID = uuid.UUID(int=0xABCDEF0123456789ABCDEF0123456789)
ROOT = bytes(range(64, 128))
CODES = {"acc": 0, "user": 1, "prov": 2, "nack": 3}


def ctok(i: int) -> bytes:
    # tokens are opaque octet strings: they may begin and end with NUL octets (an NTLM message ends with MsvAvEOL = 00 00 00 00)
    return b"\x00CLIENT-TOKEN-%d\x00" % i if i % 2 else b"CLIENT-TOKEN-%d" % i


def stok(i: int) -> bytes:
    return b"SERVER-TOKEN-%d!\x00\x00\x00\x00" % i if i % 2 else b" SERVER-TOKEN-%d!" % i


_TOK_IDS = {**{ctok(i): i for i in range(1, 40)}, **{stok(i): i for i in range(1, 40)}}


def tok_id(b: t.Optional[bytes]) -> int:
    """Identity of a token by its exact octets (99 = not one of the scripted tokens, e.g. truncated or padded on the way)."""
    if b is None:
        return -1
    if bytes(b) == b"":
        return 0
    return _TOK_IDS.get(bytes(b), 99)


class ScriptedServer:
    """ISD_KEY (or EPM) connection whose replies follow a script; decodes what the client sends."""

    def __init__(self, dc: refdc.DC, port: int, script: list[dict], ctx_log: list, seal: provider.SealKey, scripted_port: int) -> None:
        self.dc, self.port, self.script, self.seal = dc, port, list(script), seal
        self.scripted = port == scripted_port
        self.inner = refdc.Connection(dc, port, 1)
        self.sent: list[dict] = []
        self.delivered = 0
        self.buf = b""
        self.eof = False
        self.sign_header = False
        self.recv_seq = 0
        self.send_seq = 0
        self.auth_seen: t.Optional[dict] = None
        self.variant = len(script) + sum(len(str(x)) for x in script)      # deterministic per script

    def feed(self, data: bytes) -> bytes:
        if not self.scripted:
            return self.inner.feed(data)
        self.buf += data
        out = b""
        while len(self.buf) >= 16:
            fl = struct.unpack("<H", self.buf[8:10])[0]
            if len(self.buf) < fl:
                break
            pdu, self.buf = self.buf[:fl], self.buf[fl:]
            out += self.on_pdu(pdu)
        return out

    def on_pdu(self, pdu: bytes) -> bytes:
        h, body, auth = refdc.split_pdu(pdu)
        pt = h["ptype"]
        if pt in (refdc.PT_BIND, refdc.PT_ALTER):
            b = refdc.parse_bind_body(body)
            self.sent.append({"type": "bind" if pt == refdc.PT_BIND else "alter", "tok": tok_id(auth["value"]) if auth else -1,
                              "sign": bool(h["flags"] & refdc.PFC_SIGN), "ctxs": [c["id"] for c in b["contexts"]]})
            self.auth_seen = auth or self.auth_seen
            nctx = len(b["contexts"])
        elif pt == refdc.PT_REQUEST:
            rq = refdc.parse_request_body(h, body)
            self.sent.append({"type": "request", "tok": -1, "sign": False, "ctxs": [rq["ctx"]]})
            nctx = 0
        else:
            self.sent.append({"type": f"ptype{pt}", "tok": -1, "sign": False, "ctxs": []})
            nctx = 0
        if not self.script:
            self.eof = True
            return b""
        r = self.script.pop(0)
        self.delivered += 1
        k = r["k"]
        call = h["call_id"]
        fl = refdc.PFC_FIRST | refdc.PFC_LAST
        if k == "eof":
            self.eof = True
            return b""
        if k == "nak":
            return refdc.finish_pdu(refdc.PT_BIND_NAK, fl, call, refdc.bind_nak_body(2))
        if k == "fault":
            return refdc.finish_pdu(refdc.PT_FAULT, fl, call, refdc.fault_body(5))
        if k == "wrongack":
            # a well-formed accepting ack, but of the other PDU type (bind_ack <-> alter_context_resp)
            res = [(0, 0, refdc.NDR64), (3, 2, (uuid.UUID(int=0), 0, 0))][: max(nctx, 1)]
            rb = refdc.bind_ack_body(res, "49664" if pt != refdc.PT_BIND else "")
            tr = b""
            if self.auth_seen is not None:
                rb += b"\x00" * (-len(rb) % 4)
                a = self.auth_seen
                tr = refdc.sec_trailer(a["type"], a["level"], 0, a["ctx"], stok(1))
            return refdc.finish_pdu(refdc.PT_ALTER_RESP if pt == refdc.PT_BIND else refdc.PT_BIND_ACK, fl | refdc.PFC_SIGN, call, rb, tr)
        if k == "ack":
            res = [(CODES[x], 0 if x == "acc" else 2, refdc.NDR64 if x == "acc" else (uuid.UUID(int=0), 0, 0)) for x in r["res"][: max(nctx, 1)]]
            # secondary address: every length residue mod 4 (a 5-, 4-, 3-, 2-digit port; none in an alter_context_resp)
            self.acks = getattr(self, "acks", 0) + 1
            rb = refdc.bind_ack_body(res, ("49664", "5000", "135", "80")[(self.acks + self.variant) % 4] if pt == refdc.PT_BIND else "")
            tr = b""
            if self.auth_seen is not None:
                rb += b"\x00" * (-len(rb) % 4)
                a = self.auth_seen
                tr = refdc.sec_trailer(a["type"], a["level"], 0, a["ctx"], stok(r["tok"]) if r["tok"] else b"")
            ptype = refdc.PT_BIND_ACK if pt == refdc.PT_BIND else (refdc.PT_ALTER_RESP if pt == refdc.PT_ALTER else refdc.PT_BIND_ACK)
            return refdc.finish_pdu(ptype, fl | (refdc.PFC_SIGN if r["sign"] else 0), call, rb, tr)
        # k == "response"
        if pt != refdc.PT_REQUEST:
            return refdc.finish_pdu(refdc.PT_RESPONSE, fl, call, refdc.response_body(b"\x00" * 8))
        return self.answer_request(h, body, auth, pdu)

    def answer_request(self, h: dict, body: bytes, auth: t.Optional[dict], pdu: bytes) -> bytes:
        rq = refdc.parse_request_body(h, body)
        fl = refdc.PFC_FIRST | refdc.PFC_LAST
        if self.port == 135:
            tw = [refdc.tower_octets(refdc.tcp_tower(refdc.ISD_KEY, self.dc.isd_port))]
            return refdc.finish_pdu(refdc.PT_RESPONSE, fl, h["call_id"], refdc.response_body(refdc.ept_map_response(tw), rq["ctx"]))
        if auth is None:
            return refdc.finish_pdu(refdc.PT_FAULT, fl, h["call_id"], refdc.fault_body(5))
        pt_stub, used_sign = provider.server_open(self.seal, self.recv_seq, pdu[: rq["stub_off"]], rq["stub"], auth["raw8"], auth["value"])
        self.recv_seq += 1
        self.sent[-1]["sealed_ok"] = used_sign is not None
        self.sent[-1]["sign"] = bool(used_sign)
        stub = pt_stub[: len(pt_stub) - auth["pad"]] if auth["pad"] else pt_stub
        try:
            g = refdc.parse_get_key_request(stub)
            hres, env, _ = self.dc.get_key(g["sd"], g["rkid"], g["l0"], g["l1"], g["l2"])
        except Exception:  # noqa
            return refdc.finish_pdu(refdc.PT_FAULT, fl, h["call_id"], refdc.fault_body(0x6F7))
        rstub = refdc.get_key_response(env, hres)
        pad = -len(rstub) % 16
        rbody = rstub + b"\x00" * pad
        sig_len = self.seal.sig_len
        hdr = refdc.pdu_header(refdc.PT_RESPONSE, fl, 16 + 8 + len(rbody) + 8 + sig_len, sig_len, h["call_id"]) + struct.pack("<IHBB", len(rbody), rq["ctx"], 0, 0)
        tr8 = struct.pack("<BBBBI", auth["type"], auth["level"], pad, 0, auth["ctx"])
        ct, sig = provider.server_seal(self.seal, self.send_seq, hdr, rbody, tr8, bool(used_sign))
        self.send_seq += 1
        return hdr + ct + tr8 + sig


class Sock:
    def __init__(self, srv: ScriptedServer) -> None:
        self.srv, self.rx, self.n = srv, b"", 0
        self.closed = 0

    def settimeout(self, v: t.Any) -> None:
        pass

    def sendall(self, d: bytes) -> None:
        self.rx += self.srv.feed(bytes(d))

    def recv(self, n: int, f: int = 0) -> bytes:
        self.n += 1
        if self.n > 2000:
            raise TimeoutError("spin")
        out, self.rx = self.rx[:n], self.rx[n:]
        return out

    def recv_into(self, buf: t.Any, nbytes: int = 0, f: int = 0) -> int:
        mv = memoryview(buf)
        d = self.recv(nbytes or len(mv))
        mv[: len(d)] = d
        return len(d)

    def shutdown(self, how: int) -> None:
        pass

    def close(self) -> None:
        self.closed += 1


class Writer:
    def __init__(self, srv: ScriptedServer, reader: asyncio.StreamReader) -> None:
        self.srv, self.reader = srv, reader
        self.closed = 0

    def write(self, d: bytes) -> None:
        out = self.srv.feed(bytes(d))
        if out:
            self.reader.feed_data(out)
        if self.srv.eof:
            self.reader.feed_eof()
        elif not out and len(getattr(self.srv, "buf", b"")) > 0:
            # nothing to answer yet and an incomplete PDU in the peer's buffer: the client announced more octets than it sent.
            # The peer waits; the harness ends the wait by closing the connection (as a peer's idle timer would).
            self.reader.feed_eof()

    async def drain(self) -> None:
        return None

    def close(self) -> None:
        self.closed += 1

    async def wait_closed(self) -> None:
        await asyncio.sleep(0)


_LOOP: asyncio.AbstractEventLoop = None  # type: ignore


def execute(prov: dict, script: list[dict], flavour: str, scripted_port: int, blob: bytes, dc: refdc.DC) -> dict:
    """Run one whole unprotect call with the scripted provider and the scripted server."""
    import socket

    import dpapi_ng

    log: list = []
    good_ack = {"k": "ack", "res": ["acc", "nack"], "sign": True, "tok": 0}
    real = prov if prov["auth"] else {"legs": 1, "emptyAt": 0, "auth": True}
    legs = [b"" if (i == real["emptyAt"]) else ctok(i) for i in range(1, real["legs"] + 1)]
    ctx_holder: list[provider.ScriptedContext] = []

    def factory() -> provider.ScriptedContext:
        c = provider.ScriptedContext(legs, complete_after=real["legs"], log=log)
        ctx_holder.append(c)
        return c

    servers: list[ScriptedServer] = []
    seal = provider.SealKey()

    def mk(port: int) -> ScriptedServer:
        s = ScriptedServer(dc, port, script if port == scripted_port else [good_ack, {"k": "response"}], log, seal, port)
        s.scripted_for_case = port == scripted_port
        servers.append(s)
        return s

    transports: list = []

    def create_connection(addr: tuple, timeout: t.Any = None, *a: t.Any, **k: t.Any) -> Sock:
        transports.append(Sock(mk(addr[1])))
        return transports[-1]

    async def open_connection(host: str, port: int = 0, **k: t.Any):
        r = taps.CountingReader()
        transports.append(Writer(mk(port), r))
        return r, transports[-1]

    o1, o2 = socket.create_connection, asyncio.open_connection
    socket.create_connection, asyncio.open_connection = create_connection, open_connection  # type: ignore
    end, exc = "done", ""
    try:
        with provider.installed(factory) as ctx_calls:
            kw = dict(server="dc01", username="u", password="p", auth_protocol="negotiate")
            try:
                with taps.time_limit(60):
                    if flavour == "sync":
                        pt = dpapi_ng.ncrypt_unprotect_secret(blob, **kw)
                    else:
                        pt = _LOOP.run_until_complete(asyncio.wait_for(dpapi_ng.async_ncrypt_unprotect_secret(blob, **kw), 40))
                if pt != b"handshake-payload":
                    end, exc = "error", "wrong plaintext"
            except (asyncio.TimeoutError, taps.Hang):
                end = "hang"
            except MachineryError:
                raise
            except BaseException as e:  # noqa
                if isinstance(e, (KeyboardInterrupt, SystemExit)):
                    raise
                end, exc = "error", type(e).__name__
    finally:
        socket.create_connection, asyncio.open_connection = o1, o2  # type: ignore
    srv = [s for s in servers if getattr(s, "scripted_for_case", False)]
    sent = srv[0].sent if srv else []
    delivered = srv[0].delivered if srv else 0
    steps = [{"tin": tok_id(e["in"]), "out": tok_id(e["out"]), "completeAfter": e["complete_after"], "wasComplete": e["was_complete"]}
             for e in log if e["ev"] == "step"]
    wraps = [e for e in log if e["ev"] == "wrap"]
    if not prov["auth"]:
        steps, wraps = [], []
    import spnego

    ctx_ok = all(c["hostname"] == "dc01" and c["service"] == "host" and c["protocol"] == "negotiate" and c["username"] == "u"
                 and (c["context_req"] & int(spnego.ContextReq.dce_style)) for c in ctx_calls)
    return {"sent": sent, "delivered": delivered, "steps": steps, "wrapSign": ("true" if wraps[0]["sign_header"] else "false") if wraps else "none",
            "end": end, "exc": exc, "nconn_scripted": len(srv), "allClosed": all(t_.closed >= 1 for t_ in transports), "nTransports": len(transports),
            "ctxReqOK": bool(ctx_ok)}


def _behaviours(ctx: Ctx, max_legs: int) -> list[tuple[dict, list[dict], dict]]:
    cfg = ctx.rundir / "emit.cfg"
    cfg.write_text(f"CONSTANT MaxLegs = {max_legs}\nCONSTANT ResultCodes <- MC_Codes\nCONSTANT ServerTokens <- MC_Toks\nINIT Init\nNEXT Next\n"
                   "CONSTRAINT Emit\nCHECK_DEADLOCK FALSE\n")
    r = run_tlc("MC_RpcBind", str(cfg), rundir=ctx.rundir, workers=4, tag="emit", timeout=1800)
    if r.errors:
        raise MachineryError(f"emission failed {r.errors[:2]} {r.out[-600:]}")
    out = []
    for p, script, st in r.tagged("CASE"):
        out.append((p, script, st))
    ctx.cov["states"] += r.distinct
    ctx.cov["transitions"] += r.generated
    return out


def run(ctx: Ctx) -> int:
    global _LOOP
    _LOOP = asyncio.new_event_loop()
    asyncio.set_event_loop(_LOOP)
    ml = ctx.pick(3, 4)
    cfg = ctx.rundir / "mc.cfg"
    cfg.write_text(f"CONSTANT MaxLegs = {ml}\nCONSTANT ResultCodes <- MC_Codes\nCONSTANT ServerTokens <- MC_Toks\nINIT Init\nNEXT Next\n"
                   "INVARIANT TokensRelayed\nINVARIANT NoEmptyAlter\nINVARIANT ServerTokensFed\nINVARIANT StopsWhenComplete\nINVARIANT RequestOnlyOnAccepted\n"
                   "INVARIANT SignHeader\nINVARIANT FailClosed\nINVARIANT NoRequestAfterRejection\nINVARIANT BoundedExchange\nCHECK_DEADLOCK FALSE\n")
    r = run_tlc("MC_RpcBind", str(cfg), rundir=ctx.rundir, tag="mc")
    require_ok(r, "RpcBind model check")
    ctx.add_tlc(r, f"RpcBind: every provider script (1..{ml} legs, empty token at any leg, no auth) x every server script "
                   "(bind_ack/alter_resp result vectors x sign flag x token, nak, fault, response, eof): TokensRelayed, ServerTokensFed, "
                   "StopsWhenComplete, RequestOnlyOnAccepted, SignHeader, FailClosed")
    behaviours = _behaviours(ctx, ml)
    if not ctx.thorough and len(behaviours) > 5000:
        behaviours = ctx.rng.sample(behaviours, 5000)
    # longer handshakes than the exhaustive bound (the statement: any number of authentication legs): accepting servers, with and
    # without a token in the last ack, every leg count up to 7
    for legs in range(ml + 1, 8):
        for last_tok in (0, 1):
            acks = [{"k": "ack", "res": ["acc", "nack"], "sign": True, "tok": 1} for _ in range(legs - 1)]
            acks.append({"k": "ack", "res": ["acc", "nack"], "sign": True, "tok": last_tok})
            behaviours.append(({"legs": legs, "emptyAt": 0, "auth": True}, acks + [{"k": "response"}], {"pc": "done"}))

    dc = refdc.DC()
    dc.add_root_key(RKID, refdc.RootKeyInfo(ROOT, "SHA256", "DH"))
    ks = dc.keyset(RKID, sdref.target_sd(SID), 361)
    blob = blobref.make_blob("SHA256", ks.l2(7, 9), RKID, 361, 7, 9, SID, b"handshake-payload", random.Random(3).randbytes)
    rows = []
    for i, (p, script, st) in enumerate(behaviours):
        port = 49664 if p["auth"] else 135
        for flavour in (("sync", "async") if (i % 3 == 0 or ctx.thorough) else ("sync",) if i % 3 == 1 else ("async",)):
            obs = execute(p, script, flavour, port, blob, dc)
            rows.append({"id": len(rows), "prov": p, "script": script, "fl": flavour, **obs, "spec_pc": st["pc"]})
        ctx.distinct((str(p), str(script)))
    ctx.count(len(rows))
    slim = [{k: r[k] for k in ("id", "prov", "script", "sent", "delivered", "steps", "wrapSign", "end", "allClosed", "ctxReqOK")} for r in rows]
    bad, stats = validate(ctx, "TraceBind", "TraceBind.cfg", slim, chunk=ctx.pick(1500, 8000), what="bind")
    for i, clauses in list(bad.items()):
        for c in [c for c in clauses if c.startswith("EXT_")]:
            ctx.note_drift("extended_behaviour:" + c)
        clauses = [c for c in clauses if not c.startswith("EXT_")]
        if not clauses:
            continue
        r = rows[i]
        ctx.violation(f"bind:{clauses[0]}:{'auth' if r['prov']['auth'] else 'noauth'}:{r['end']}", ",".join(clauses),
                      {k: r[k] for k in ("prov", "script", "fl", "sent", "steps", "wrapSign", "end", "exc")},
                      f"provider {r['prov']} server script {[x['k'] + (':' + '/'.join(x['res']) if x['k'] == 'ack' else '') for x in r['script']]} "
                      f"[{r['fl']}] -> sent {[(x['type'], x['tok']) for x in r['sent']]} end={r['end']} {r['exc']}")
    ctx.note_drift("outcome_or_pdu_count_differs_from_RpcBind_fold", sum(s.get("drift", 0) for s in stats))
    sync_async = {}
    for r in rows:
        sync_async.setdefault((str(r["prov"]), str(r["script"])), {})[r["fl"]] = (r["end"], [(x["type"], x["tok"], x["sign"]) for x in r["sent"]])
    for k, v in sync_async.items():
        if len(v) == 2 and v["sync"] != v["async"]:
            ctx.violation("bind:sync_async_conversations_differ", "sync_and_async_conduct_same_handshake", {"case": k, "obs": v})
    for r in rows[:2] + rows[-1:]:
        ctx.sample({k: r[k] for k in ("prov", "script", "fl", "sent", "steps", "wrapSign", "end")})
    ctx.assume("authentication provider scripted at the spnego.client boundary; PDUs decoded by the scripted server's own codec")
    from .. import faultsim
    faultsim.check(ctx, "C15")   # the same statement through the public API: peer faults at every step of the online conversation (OnlineFaults.tla)
    return ctx.finish(
        rule="behaviours = every terminal path of RpcBind.tla (provider script x server script) emitted by TLC; each replayed through the "
        "whole public unprotect API (sync and async) against a scripted server, scripted provider at spnego.client; the decoded PDUs, "
        "provider call log and seal flags are validated by TraceBind (TLC); distinct = distinct (provider, server) scripts",
        exhaustive=True,
    )


def selftest(ctx: Ctx) -> int:
    from ..tracecheck import selftest_expect_reject

    ack = {"k": "ack", "res": ["acc", "nack"], "sign": True, "tok": 1}
    good = [{"id": 0, "prov": {"legs": 2, "emptyAt": 0, "auth": True}, "script": [ack, dict(ack, tok=0), {"k": "response"}],
             "sent": [{"type": "bind", "tok": 1, "sign": True, "ctxs": [0, 1]}, {"type": "alter", "tok": 2, "sign": True, "ctxs": [0]},
                      {"type": "request", "tok": -1, "sign": True, "ctxs": [0]}],
             "delivered": 3, "steps": [{"tin": -1, "out": 1, "completeAfter": False, "wasComplete": False},
                                       {"tin": 1, "out": 2, "completeAfter": True, "wasComplete": False}], "wrapSign": "true", "end": "done", "allClosed": True, "ctxReqOK": True}]
    import copy

    b1 = copy.deepcopy(good[0]); b1["id"] = 1; b1["sent"][1]["tok"] = 1
    b2 = copy.deepcopy(good[0]); b2["id"] = 2; b2["steps"][1]["tin"] = 0
    b3 = copy.deepcopy(good[0]); b3["id"] = 3; b3["script"][0]["res"] = ["prov", "nack"]
    b4 = copy.deepcopy(good[0]); b4["id"] = 4; b4["script"][0]["sign"] = False; b4["script"][1]["sign"] = False
    selftest_expect_reject(ctx, "TraceBind", "TraceBind.cfg", good, [b1, b2, b3, b4], "c15")
    print("selftest C15 ok")
    return 0


def replay(ctx: Ctx, rec: dict) -> int:
    global _LOOP
    _LOOP = asyncio.new_event_loop()
    asyncio.set_event_loop(_LOOP)
    case = rec["case"]
    dc = refdc.DC()
    dc.add_root_key(RKID, refdc.RootKeyInfo(ROOT, "SHA256", "DH"))
    ks = dc.keyset(RKID, sdref.target_sd(SID), 361)
    blob = blobref.make_blob("SHA256", ks.l2(7, 9), RKID, 361, 7, 9, SID, b"handshake-payload", random.Random(3).randbytes)
    obs = execute(case["prov"], case["script"], case.get("fl", "sync"), 49664 if case["prov"]["auth"] else 135, blob, dc)
    row = {"id": 0, "prov": case["prov"], "script": case["script"], **{k: obs[k] for k in ("sent", "delivered", "steps", "wrapSign", "end", "allClosed", "ctxReqOK")}}
    bad, _ = validate(ctx, "TraceBind", "TraceBind.cfg", [row], what="replay")
    print(row)
    if bad:
        print("VIOLATION property=C15 replay=-")
        print("  clause:", ",".join(bad[0]))
        return 1
    print("[C15] replayed handshake accepted on the current tree")
    return 0
