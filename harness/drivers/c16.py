"""C16 — key material is accepted only from replies sealed by the security context."""
from __future__ import annotations

import random
import struct
import types
import typing as t
import uuid

from .. import taps
from .. import blobref, refdc, sdref
from ..core import Ctx, MachineryError
from ..tlc import require_actions, require_ok, run_tlc
from ..tracecheck import validate

SID = "S-1-5-21-2185496602-3367037166-1388177638-1103"
USER = f"{refdc.DOMAIN}\\{refdc.USER}"
RKID = uuid.UUID(int=0x1111222233334444AAAABBBBCCCCDDDD)
EVIL_RKID = RKID  # the adversary claims the same root key id
ROOT = bytes(range(100, 164))
EVIL_ROOT = bytes(range(7, 71))


def _dc(sign: bool) -> refdc.DC:
    dc = refdc.DC()
    dc.add_root_key(RKID, refdc.RootKeyInfo(ROOT, "SHA256", "DH"))
    dc.header_sign = sign
    return dc


def _evil_dc() -> refdc.DC:
    dc = refdc.DC()
    dc.add_root_key(EVIL_RKID, refdc.RootKeyInfo(EVIL_ROOT, "SHA256", "DH"))
    return dc


def _regions(pdu: bytes) -> dict[str, tuple[int, int]]:
    h = refdc.parse_header(pdu)
    tr = h["frag_len"] - h["auth_len"] - 8
    return {"hdr": (0, 24), "body": (24, tr), "trailer": (tr, tr + 8), "sig": (tr + 8, h["frag_len"])}


def flip(pdu: bytes, bit: int) -> bytes:
    b = bytearray(pdu)
    b[bit // 8] ^= 1 << (bit % 8)
    return bytes(b)


def strip_trailer(pdu: bytes, cleartext_body: t.Optional[bytes] = None) -> bytes:
    """auth_len = 0, no verifier; the body is either the ciphertext as is or the adversary's own stub."""
    r = _regions(pdu)
    body = pdu[24 : r["body"][1]] if cleartext_body is None else cleartext_body
    hdr = bytearray(pdu[:24])
    struct.pack_into("<HH", hdr, 8, 24 + len(body), 0)
    struct.pack_into("<I", hdr, 16, len(body))
    return bytes(hdr) + body


def bogus_trailer(pdu: bytes, cleartext_body: bytes, alen: t.Optional[int] = None) -> bytes:
    r = _regions(pdu)
    alen = (r["sig"][1] - r["sig"][0]) if alen is None else alen
    body = cleartext_body + b"\x00" * (-len(cleartext_body) % 16)
    hdr = bytearray(pdu[:24])
    struct.pack_into("<HH", hdr, 8, 24 + len(body) + 8 + alen, alen)
    struct.pack_into("<I", hdr, 16, len(body))
    tr = bytearray(pdu[r["trailer"][0] : r["trailer"][1]])
    tr[2] = -len(cleartext_body) % 16
    return bytes(hdr) + body + bytes(tr) + bytes(alen)


# ---- low level: one authenticated connection, request() result vs what the DC sealed ----------------
def _get_key_stub(l1: int = 3, l2: int = 4) -> bytes:
    sd = sdref.target_sd(SID)
    return (struct.pack("<Q", len(sd)) + struct.pack("<Q", len(sd)) + sd + b"\x00" * (-len(sd) % 8) + struct.pack("<Q", 0x20000) + RKID.bytes_le
            + struct.pack("<iii", 361, l1, l2))


LAST_ERROR = [""]
LAST_CALL: list = [None]     # how to repeat the most recent exchange (-> outcome of its last call)


def low_level(sign: bool, mangles: list[t.Optional[t.Callable[[bytes, list[bytes]], bytes]]], opnum: int = 0, keep_going: bool = False,
              not_last: bool = False) -> list[str]:
    """Performs len(mangles) consecutive requests on one connection; mangles[i] rewrites reply i.
    -> outcome per call ('authentic' | 'different' | 'error'); stops at the first error."""
    from dpapi_ng._gkdi import ISD_KEY
    from dpapi_ng._rpc import NDR64, CommandFlags, CommandPContext, ContextElement, SyncRpcClient, VerificationTrailer, bind_time_feature_negotiation
    from dpapi_ng._rpc._auth import AuthenticationProvider

    def again() -> str:
        o = low_level(sign, mangles, opnum, keep_going, not_last)
        return o[-1] if len(o) == len(mangles) or o[-1] == "error" else "error"

    LAST_CALL[0] = again
    dc = _dc(sign)
    dc.reply_not_last = not_last
    conn = refdc.Connection(dc, 49664, 1)
    history: list[bytes] = []
    state = {"i": 0}

    def mangle(kind: str, reply: bytes, c: refdc.Connection) -> bytes:
        if kind not in ("response", "fault"):
            return reply
        if kind == "fault" and not (state["i"] < len(mangles) and getattr(mangles[state["i"]], "any_reply", False)):
            return reply
        i = state["i"]
        state["i"] += 1
        out = reply if mangles[i] is None else mangles[i](reply, history)  # type: ignore
        history.append(reply)
        return out

    conn.mangle = mangle
    net = types.SimpleNamespace(schedule=None)
    auth = AuthenticationProvider(USER, refdc.PASSWORD, "dc01", "ntlm")
    client = SyncRpcClient(refdc.FakeSocket(conn, net), auth)  # type: ignore
    client.bind(contexts=[ContextElement(0, ISD_KEY, [NDR64]), ContextElement(1, ISD_KEY, [bind_time_feature_negotiation()])])
    vt = VerificationTrailer([CommandPContext(flags=CommandFlags.SEC_VT_COMMAND_END, interface_id=ISD_KEY, transfer_syntax=NDR64)])
    outs = []
    for i in range(len(mangles)):
        try:
            with taps.time_limit(60):
                resp = client.request(0, opnum, _get_key_stub(3, 4 + i), verification_trailer=vt)
            outs.append("authentic" if resp.stub_data == conn.last_plain_body else "different")
        except MachineryError:
            raise
        except (Exception, taps.Hang) as e:  # noqa
            outs.append("error")
            LAST_ERROR[0] = f"{type(e).__name__}: {e}"
            if not keep_going:
                break
    return outs


# ---- API level: protect / unprotect results vs whose keys were used -----------------------------------
def api_level(op: str, sign: bool, action: str, flavour: str) -> tuple[str, str]:
    import asyncio

    import dpapi_ng

    dc = _dc(sign)
    evil = _evil_dc()
    sd = sdref.target_sd(SID)
    ks = dc.keyset(RKID, sd, 361)
    blob_in = blobref.make_blob("SHA256", ks.l2(3, 4), RKID, 361, 3, 4, SID, b"sealed-payload", random.Random(11).randbytes)
    evil_kind = "pubkey" if action.endswith("pub") else "seed"

    def evil_stub(reply: bytes) -> bytes:
        evil.reply_kind = evil_kind
        args = (-1, -1, -1) if op == "protect" else (361, 3, 4)
        _, env, _ = evil.get_key(sd, EVIL_RKID, *args)
        return refdc.get_key_response(env, 0)

    def on_conn(c: refdc.Connection) -> None:
        if c.port == 135 and action.startswith("epm_redirect"):
            # the endpoint-mapper hop is unauthenticated: anyone can answer it.  The forged answer points back at port 135, where
            # the same party answers the bind without verifier and any request with a cleartext stub of its own.
            def redirect(kind: str, reply: bytes, cc: refdc.Connection) -> bytes:
                h = refdc.parse_header(reply)
                if cc.id == 1:
                    if kind != "response":
                        return reply
                    tw = refdc.tower_octets(refdc.tcp_tower(refdc.ISD_KEY, 135))
                    return refdc.finish_pdu(refdc.PT_RESPONSE, 3, h["call_id"], refdc.response_body(refdc.ept_map_response([tw], 0)))
                if kind in ("bind_ack", "alter_resp"):
                    body = refdc.bind_ack_body([(0, 0, refdc.NDR64), (3, 3, (uuid.UUID(int=0), 0, 0))], "135")
                    return refdc.finish_pdu(refdc.PT_BIND_ACK if kind == "bind_ack" else refdc.PT_ALTER_RESP, 3, h["call_id"], body)
                return refdc.finish_pdu(refdc.PT_RESPONSE, 3, h["call_id"], refdc.response_body(evil_stub(reply)))

            c.mangle = redirect
            return
        if c.port == 135:
            return

        def mangle(kind: str, reply: bytes, cc: refdc.Connection) -> bytes:
            if action.startswith("downgrade_bind"):
                # a party without the session key answers the authenticated bind itself: bind_ack / alter_context_resp with
                # the verifier removed (auth_len 0), then a cleartext RESPONSE with its own stub for whatever is asked
                h = refdc.parse_header(reply)
                if kind in ("bind_ack", "alter_resp"):
                    body = reply[16 : h["frag_len"] - h["auth_len"] - (8 if h["auth_len"] else 0)]
                    return refdc.finish_pdu(h["ptype"], h["flags"], h["call_id"], body)
                return refdc.finish_pdu(refdc.PT_RESPONSE, 3, h["call_id"], refdc.response_body(evil_stub(reply)))
            if kind != "response":
                return reply
            if action == "pass":
                return reply
            if action == "strip":
                return strip_trailer(reply)
            if action.startswith("inject_clear"):
                return strip_trailer(reply, evil_stub(reply))
            if action.startswith("inject_bogus_trailer"):
                return bogus_trailer(reply, evil_stub(reply))
            if action == "fault":
                return refdc.finish_pdu(refdc.PT_FAULT, 3, 1, refdc.fault_body(5))
            raise MachineryError(action)

        c.mangle = mangle

    net = refdc.Network(dc)
    net.on_connection = on_conn
    kw = dict(server="dc01", username=USER, password=refdc.PASSWORD, auth_protocol="ntlm")
    try:
        with net, taps.time_limit(30):
            if op == "unprotect":
                pt = dpapi_ng.ncrypt_unprotect_secret(blob_in, **kw) if flavour == "sync" else asyncio.run(dpapi_ng.async_ncrypt_unprotect_secret(blob_in, **kw))
                return ("authentic" if pt == b"sealed-payload" else "different"), ""
            out = (dpapi_ng.ncrypt_protect_secret(b"to-protect", SID, **kw) if flavour == "sync"
                   else asyncio.run(dpapi_ng.async_ncrypt_protect_secret(b"to-protect", SID, **kw)))
    except MachineryError:
        raise
    except (Exception, taps.Hang) as e:  # noqa
        return "error", type(e).__name__
    # whose key opens the new blob?
    for who, d in (("authentic", dc), ("different", evil)):
        try:
            pt, _ = blobref.open_blob(out, "SHA256", lambda kid: d.keyset(kid["rkid"], sd, kid["l0"]).l2(kid["l1"], kid["l2"]))
            if pt == b"to-protect":
                return who, "blob opens with the adversary's root key" if who == "different" else ""
        except Exception:  # noqa
            continue
    return "different", "blob opens with neither key"


def run(ctx: Ctx) -> int:
    refdc.ensure_ntlm_users()
    r = run_tlc("RpcSeal", "MC_RpcSeal.cfg", rundir=ctx.rundir, coverage=True)
    require_ok(r, "RpcSeal model check")
    require_actions(r, ["Adversary", "ClientReceives", "NextCall"], "RpcSeal")
    ctx.add_tlc(r, "RpcSeal: 3 consecutive calls x header signing on/off x adversary {pass, strip, flip body/sig/hdr/trailer, replay, "
                   "inject cleartext, inject with bogus trailer}: OnlySealedAccepted, NoTrailerRejected, AlteredRejected, AuthenticAccepted")
    cfg = ctx.rundir / "emit.cfg"
    cfg.write_text("CONSTANT Calls = 2\nINIT Init\nNEXT Next\nCONSTRAINT Emit\nCHECK_DEADLOCK FALSE\n")
    em = run_tlc("RpcSeal", str(cfg), rundir=ctx.rundir, workers=1, tag="emit")
    classes = sorted({(bool(c[0]), int(c[1]), c[2]) for c in em.tagged("CASE")})
    if len(classes) < 20:
        raise MachineryError(f"adversary class emission too small: {classes}")

    rows: list[dict] = []
    rng = ctx.rng

    redo: dict[int, t.Callable[[], str]] = {}

    def add(sign: bool, call: int, act: str, region: str, bit: int, out: str, level: str, detail: str = "") -> None:
        rows.append({"id": len(rows), "sign": sign, "call": call, "act": act, "region": region, "bit": bit, "out": out, "level": level, "detail": detail})
        if LAST_CALL[0] is not None:
            redo[len(rows) - 1] = LAST_CALL[0]

    # a template reply to learn the regions
    tmpl: list[bytes] = []
    first = low_level(True, [lambda rep, hist: (tmpl.append(rep), rep)[1]])
    if not tmpl or first != ["authentic"]:
        raise MachineryError(f"template exchange with the reference DC did not complete: outcomes={first} last error={LAST_ERROR[0]}")
    reg = _regions(tmpl[0])
    for sign, call, act in classes:
        pre: list = [None] * (call - 1)
        if act == "pass":
            outs = low_level(sign, pre + [None])
            add(sign, call, "pass", "none", -1, outs[-1] if len(outs) == call else "error", "rpc")
        elif act == "strip":
            outs = low_level(sign, pre + [lambda rep, hist: strip_trailer(rep)])
            add(sign, call, "strip", "none", -1, outs[-1], "rpc")
            outs = low_level(sign, pre + [lambda rep, hist: strip_trailer(rep, b"EVIL-STUB" * 8)])
            add(sign, call, "inject_clear", "none", -1, outs[-1], "rpc")
        elif act == "inject_clear":
            outs = low_level(sign, pre + [lambda rep, hist: strip_trailer(rep, refdc.get_key_response(b"\x01" * 80, 0))])
            add(sign, call, "inject_clear", "none", -1, outs[-1], "rpc")
        elif act == "inject_bogus_trailer":
            outs = low_level(sign, pre + [lambda rep, hist: bogus_trailer(rep, b"EVIL-STUB" * 8)])
            add(sign, call, "inject_bogus_trailer", "none", -1, outs[-1], "rpc")
            # a verifier that is shorter or longer than a real signature (auth_len 1..15, 17, 32) is still not a signature
            for alen in (1, 2, 4, 8, 12, 15, 17, 32):
                outs = low_level(sign, pre + [lambda rep, hist, alen=alen: bogus_trailer(rep, b"EVIL-STUB" * 8, alen)])
                add(sign, call, "inject_bogus_trailer", "none", -alen, outs[-1], "rpc")
                # ... also when the body is the authentic ciphertext and the authentic signature is merely cut short
                def cut_sig(rep: bytes, hist: list, alen: int = alen) -> bytes:
                    r = _regions(rep)
                    b = bytearray(rep[: r["sig"][0]] + rep[r["sig"][0] : r["sig"][0] + alen].ljust(alen, b"\x00"))
                    struct.pack_into("<HH", b, 8, len(b), alen)
                    return bytes(b)
                outs = low_level(sign, pre + [cut_sig])
                add(sign, call, "flip", "sig", -alen, outs[-1], "rpc")
        elif act == "replay":
            if call < 2:
                continue
            outs = low_level(sign, pre + [lambda rep, hist: hist[-1]])
            add(sign, call, "replay", "none", -1, outs[-1], "rpc")
        elif act.startswith("flip_"):
            region = {"flip_body": "body", "flip_sig": "sig", "flip_hdr": "hdr", "flip_trailer": "trailer"}[act]
            lo, hi = reg[region]
            bits = list(range(lo * 8, hi * 8))
            if region == "body" and not ctx.thorough:
                bits = sorted(set(bits[:64] + bits[-64:] + rng.sample(bits, 300)))
            if call > 1 and not ctx.thorough:
                bits = rng.sample(bits, min(len(bits), 24))
            for bit in bits:
                outs = low_level(sign, pre + [lambda rep, hist, bit=bit: flip(rep, bit)])
                add(sign, call, "flip", region, bit - lo * 8, outs[-1] if len(outs) == call else "error", "rpc")
                ctx.distinct((sign, call, region, bit))
    # a genuine sealed reply marked "not the last fragment" followed by a cleartext fragment with the adversary's stub: whatever
    # the client makes of fragments, nothing the adversary wrote may come back
    def with_clear_fragment(rep: bytes, hist: list) -> bytes:
        evil = b"EVIL-STUB" * 8
        return rep + refdc.finish_pdu(refdc.PT_RESPONSE, refdc.PFC_LAST, struct.unpack("<I", rep[12:16])[0], refdc.response_body(evil))

    for sign in (True, False):
        for call in (1, 2):
            # the server itself marks its (sealed, genuine) reply as not being the last fragment
            outs = low_level(sign, [None] * (call - 1) + [with_clear_fragment], not_last=True)
            add(sign, call, "append_fragment", "none", -1, outs[-1] if len(outs) == call else "error", "rpc")
    # a second request on the same client object after a reply was rejected: still only sealed replies are accepted, whatever
    # the client sent (the adversary answers by itself, also when the DC would have faulted the request)
    def own_clear(rep: bytes, hist: list) -> bytes:
        return refdc.finish_pdu(refdc.PT_RESPONSE, 3, struct.unpack("<I", rep[12:16])[0], refdc.response_body(b"EVIL-STUB" * 8))

    def own_bogus(rep: bytes, hist: list) -> bytes:
        body = (b"EVIL-STUB" * 8).ljust(80, b"\x00")
        tr = refdc.sec_trailer(10, 6, 8, 0, b"\x01" + b"\x00" * 15)
        return refdc.finish_pdu(refdc.PT_RESPONSE, 3, struct.unpack("<I", rep[12:16])[0], refdc.response_body(body), tr)

    own_clear.any_reply = own_bogus.any_reply = True        # type: ignore
    for sign in (True, False):
        lo, hi = reg["sig"]
        for second, act2 in ((own_clear, "inject_clear"), (own_bogus, "inject_bogus_trailer")):
            outs = low_level(sign, [lambda rep, hist: flip(rep, lo * 8 + 3), second], keep_going=True)
            add(sign, 2, act2, "none", -1, outs[-1] if len(outs) == 2 else "error", "rpc-after-error")
    # replies without stub octets (an operation without out-parameters): the verifier still has to be checked
    for sign in (True, False):
        outs = low_level(sign, [None, None], refdc.EMPTY_REPLY_OPNUM)
        add(sign, 2, "pass", "none", -1, outs[-1] if len(outs) == 2 else "error", "rpc-empty")
        tmpl_e: list[bytes] = []
        low_level(sign, [lambda rep, hist: (tmpl_e.append(rep), rep)[1]], refdc.EMPTY_REPLY_OPNUM)
        if tmpl_e:
            reg_e = _regions(tmpl_e[0])
            for region in ("sig", "hdr", "trailer"):
                lo, hi = reg_e[region]
                for bit in rng.sample(range(lo * 8, hi * 8), min((hi - lo) * 8, 12)):
                    outs = low_level(sign, [lambda rep, hist, bit=bit: flip(rep, bit)], refdc.EMPTY_REPLY_OPNUM)
                    add(sign, 1, "flip", region, bit - lo * 8, outs[-1], "rpc-empty")
            outs = low_level(sign, [None, lambda rep, hist: hist[-1]], refdc.EMPTY_REPLY_OPNUM)
            add(sign, 2, "replay", "none", -1, outs[-1], "rpc-empty")
    # whole API: protect / unprotect must never use key material of a party without the session key
    for op in ("unprotect", "protect"):
        for sign in (True, False):
            for action in ("pass", "strip", "inject_clear_seed", "inject_clear_pub", "inject_bogus_trailer_seed", "inject_bogus_trailer_pub", "fault",
                           "downgrade_bind_seed", "downgrade_bind_pub", "epm_redirect_seed", "epm_redirect_pub"):
                for flavour in ("sync", "async"):
                    out, detail = api_level(op, sign, action, flavour)
                    LAST_CALL[0] = lambda op=op, sign=sign, action=action, flavour=flavour: api_level(op, sign, action, flavour)[0]
                    act = "pass" if action == "pass" else ("strip" if action == "strip" else ("inject_bogus_trailer" if "bogus" in action else "inject_clear"))
                    add(sign, 1, act, "none", -1, out, f"api:{op}:{flavour}:{action}", detail)
                    ctx.distinct((op, sign, action, flavour))
    ctx.count(len(rows))
    slim = [{k: r_[k] for k in ("id", "sign", "call", "act", "region", "out")} for r_ in rows]
    bad, _ = validate(ctx, "TraceSeal", "TraceSeal.cfg", slim, chunk=4000, what="seal")
    for i, clauses in bad.items():
        r_ = rows[i]
        # the exchange is scripted end to end, so the library's outcome is a function of the case: a rejected case is
        # executed twice more and reported only when the outcome reproduces (anything else is noise of the harness)
        again_ = [redo[i]() for _ in range(2)] if i in redo else [r_["out"]] * 2
        if any(o != r_["out"] for o in again_):
            ctx.note_drift("outcome_not_reproducible_on_reexecution")
            if sum(o == r_["out"] for o in again_) == 0:
                continue
        if any(c.startswith("MACHINERY") for c in clauses):
            raise MachineryError(f"authentic reply not accepted: {r_} last error={LAST_ERROR[0]}")
        ctx.violation(f"seal:{clauses[0]}:{r_['act']}:{r_['region']}:{'sign' if r_['sign'] else 'nosign'}:{r_['level'].split(':')[0]}", ",".join(clauses), r_,
                      f"header signing {r_['sign']}, call {r_['call']}, adversary {r_['act']} {r_['region']} bit {r_['bit']} ({r_['level']}): client outcome {r_['out']} {r_['detail']}")
    for r_ in rows[:2] + rows[-2:]:
        ctx.sample(r_)
    ctx.assume("real NTLM (pyspnego) security context on both ends; RC4 sealing and the NTLM MAC are trusted to be authentic-or-fail")
    return ctx.finish(
        rule="adversary classes enumerated by TLC from RpcSeal.tla (header signing x call number x action), concretised on real sealed replies: "
        "every single-bit flip of header(24 bytes), security-trailer header, signature and (quick: ~430 sampled, thorough: every) body bit; "
        "trailer stripped; cleartext / bogus-trailer replies with the adversary's own stub; replay of the previous reply; plus the whole "
        "protect/unprotect API (sync+async) with adversary-made GroupKeyEnvelopes; judged by TraceSeal (TLC) against RpcSeal!Verifies",
    )


def selftest(ctx: Ctx) -> int:
    from ..tracecheck import selftest_expect_reject

    good = [{"id": 0, "sign": True, "call": 1, "act": "flip", "region": "hdr", "out": "error"},
            {"id": 1, "sign": False, "call": 1, "act": "flip", "region": "hdr", "out": "authentic"},
            {"id": 2, "sign": True, "call": 2, "act": "replay", "region": "none", "out": "error"},
            {"id": 3, "sign": True, "call": 1, "act": "strip", "region": "none", "out": "error"}]
    bad = [{"id": 10, "sign": True, "call": 1, "act": "flip", "region": "hdr", "out": "authentic"},
           {"id": 11, "sign": False, "call": 1, "act": "flip", "region": "body", "out": "authentic"},
           {"id": 12, "sign": True, "call": 2, "act": "replay", "region": "none", "out": "different"},
           {"id": 13, "sign": False, "call": 1, "act": "inject_clear", "region": "none", "out": "different"}]
    selftest_expect_reject(ctx, "TraceSeal", "TraceSeal.cfg", good, bad, "c16")
    print("selftest C16 ok")
    return 0
