"""C06 — emitted blobs are canonical CMS in Windows' layout; encode/decode are inverse.

Spec: spec/Cms.tla over spec/Der.tla (BlobBytes, ParseBlob, CmsTemplate, WindowsTemplate),
checked on itself by MC_Cms (TLC).  Binding: real DPAPINGBlob.pack outputs (both layouts) for
generated well-formed blob values and real ncrypt_protect_secret outputs are judged by TLC with
TraceCms.tla; the 16 Windows blobs of tests/data calibrate layout + template + projection.
"""
from __future__ import annotations

import base64
import json
import random
import typing as t
import uuid

from .. import blobref
from ..core import REPO, Ctx, MachineryError, exc_class
from ..tlc import require_ok, run_tlc
from ..tracecheck import validate

JVM_ENV = {"JDK_JAVA_OPTIONS": "-XX:ParallelGCThreads=2 -Xss256m"}
OID_WRAP = "2.16.840.1.101.3.4.1.45"
OID_GCM = "2.16.840.1.101.3.4.1.46"
OTHER_OIDS = ["2.16.840.1.101.3.4.1.5", "2.16.840.1.101.3.4.1.25", "1.2.840.113549.1.9.16.3.6", "2.16.840.1.101.3.4.1.6",
              "1.2.840.113549.3.7", "1.3.6.1.4.1.311.74.1", "0.4.0.127.0.7", "1.2.840.113549.1.1.7"]


# ---------------------------------------------------------------------------------------------
# projection of real objects to the fields of Cms.tla (trusted, ~20 lines)
# ---------------------------------------------------------------------------------------------
def limbs(n: int) -> list[int]:
    return [n >> 16, n & 0xFFFF]


def d128(n: int) -> list[int]:
    out = [n & 0x7F]
    n >>= 7
    while n:
        out.append(n & 0x7F)
        n >>= 7
    return out[::-1]


def arcs(oid: str) -> list[list[int]]:
    return [d128(int(x)) for x in oid.split(".")]


def guid(u: uuid.UUID) -> dict:
    return {"d1": limbs(u.time_low), "d2": u.time_mid, "d3": u.time_hi_version, "d4": list(u.bytes[8:])}


def par(p: t.Optional[bytes]) -> dict:
    return {"p": False, "raw": []} if p is None else {"p": True, "raw": list(p)}


def cps(s: str) -> list[int]:
    return [ord(c) for c in s]


def proj(blob: t.Any) -> dict:
    k = blob.key_identifier
    return {
        "kid": {"version": limbs(k.version), "flags": limbs(k.flags), "l0": limbs(k.l0), "l1": limbs(k.l1), "l2": limbs(k.l2),
                "g": guid(k.root_key_identifier), "key_info": list(k.key_info), "domain": cps(k.domain_name), "forest": cps(k.forest_name)},
        "sid": cps(blob.protection_descriptor.value),
        "enc_cek": list(blob.enc_cek), "cek_alg": arcs(blob.enc_cek_algorithm), "cek_par": par(blob.enc_cek_parameters),
        "ct_alg": arcs(blob.enc_content_algorithm), "ct_par": par(blob.enc_content_parameters),
        "content": list(blob.enc_content),
    }


def proj_indep(p: dict) -> dict:
    """The same fields from the leaves found by the independent strict reader (Windows layout only)."""
    k = p["kid"]
    return {
        "kid": {"version": limbs(k["version"]), "flags": limbs(k["flags"]), "l0": limbs(k["l0"]), "l1": limbs(k["l1"]), "l2": limbs(k["l2"]),
                "g": guid(k["rkid"]), "key_info": list(k["key_info"]), "domain": cps(k["domain"]), "forest": cps(k["forest"])},
        "sid": cps(p["sid"]), "enc_cek": list(p["enc_cek"]), "cek_alg": arcs(OID_WRAP), "cek_par": par(None),
        "ct_alg": arcs(OID_GCM), "ct_par": par(blobref.seq(blobref.tlv(4, p["nonce"]), blobref.der_int(16))),
        "content": list(p["ct"]),
    }


# ---------------------------------------------------------------------------------------------
# generation of well-formed blob values
# ---------------------------------------------------------------------------------------------
PLANES = [(0x61, 0x7A), (0x30, 0x39), (0xA1, 0x7FF), (0x800, 0xD7FF), (0xE000, 0xFFFD), (0x10000, 0x1FFFF), (0x20000, 0x10FFFF)]


def rand_name(rng: random.Random) -> str:
    q = rng.random()
    if q < 0.1:
        return ""
    if q < 0.45:
        return ".".join("".join(rng.choice("abcdefghijklmnopqrstuvwxyz0123456789-") for _ in range(rng.randrange(1, 12))) for _ in range(rng.randrange(1, 4)))
    n = rng.choice([1, 2, 5, 20, 63, 100])
    out = []
    for _ in range(n):
        lo, hi = rng.choice(PLANES)
        out.append(chr(rng.randrange(lo, hi + 1)))
    return "".join(out)


def rand_u32(rng: random.Random, typical: t.Sequence[int]) -> int:
    q = rng.random()
    if q < 0.5:
        return rng.choice(list(typical))
    if q < 0.7:
        return rng.choice([0, 1, 0x7FFFFFFF, 0x80000000, 0xFFFFFFFF, 0xFFFF, 0x10000])
    return rng.getrandbits(32)


def rand_sid(rng: random.Random) -> str:
    if rng.random() < 0.1:
        return rand_name(rng) or "S-1-1-0"
    return "S-1-" + str(rng.choice([1, 5, 5, 5, 12, 2**32, 2**48 - 1])) + "".join("-" + str(rng.getrandbits(rng.choice([1, 8, 31, 32]))) for _ in range(rng.randrange(1, 15)))


def rand_params(rng: random.Random, gcm_ok: bool) -> t.Optional[bytes]:
    q = rng.random()
    if q < 0.35:
        return None
    if q < 0.5:
        return b"\x05\x00"
    if q < 0.8 or gcm_ok:
        return blobref.seq(blobref.tlv(4, rng.randbytes(rng.choice([12, 12, 12, 0, 8, 16, 200]))), blobref.der_int(rng.choice([16, 16, 12, 0, 128, -1, 65536])))
    return blobref.tlv(rng.choice([0x04, 0x0C, 0x30, 0xA0, 0x80]), rng.randbytes(rng.choice([0, 1, 127, 128, 300])))


KEY_INFO_SIZES = [0, 1, 2, 31, 32, 33, 127, 128, 129, 255, 256, 257, 500, 552, 799, 800]
CONTENT_SIZES = [0, 1, 16, 17, 126, 127, 128, 129, 254, 255, 256, 257, 1000]
BIG_CONTENT = [65534, 65535, 65536, 65537]


def gen_blob(rng: random.Random, content_len: int, key_info_len: int, windows: bool):
    from dpapi_ng._blob import DPAPINGBlob, KeyIdentifier, SIDDescriptor

    kid = KeyIdentifier(
        version=rand_u32(rng, [1]), flags=rand_u32(rng, [0, 1, 2, 3]), l0=rand_u32(rng, [361, 362]), l1=rand_u32(rng, range(32)),
        l2=rand_u32(rng, range(32)), root_key_identifier=uuid.UUID(bytes=rng.randbytes(16)), key_info=rng.randbytes(key_info_len),
        domain_name=rand_name(rng), forest_name=rand_name(rng),
    )
    if windows:
        cek_alg, cek_par = OID_WRAP, None
        ct_alg, ct_par = OID_GCM, blobref.seq(blobref.tlv(4, rng.randbytes(12)), blobref.der_int(16))
        enc_cek = rng.randbytes(40)
    else:
        cek_alg = rng.choice([OID_WRAP] + OTHER_OIDS)
        ct_alg = rng.choice([OID_GCM] + OTHER_OIDS)
        cek_par, ct_par = rand_params(rng, False), rand_params(rng, True)
        enc_cek = rng.randbytes(rng.choice([40, 40, 0, 1, 24, 127, 128, 300]))
    return DPAPINGBlob(
        key_identifier=kid, protection_descriptor=SIDDescriptor(rand_sid(rng)), enc_cek=enc_cek, enc_cek_algorithm=cek_alg,
        enc_cek_parameters=cek_par, enc_content=rng.randbytes(content_len), enc_content_algorithm=ct_alg, enc_content_parameters=ct_par,
    )


def is_windows_shaped(blob: t.Any) -> bool:
    p = blob.enc_content_parameters
    return (blob.enc_cek_algorithm == OID_WRAP and blob.enc_cek_parameters is None and blob.enc_content_algorithm == OID_GCM
            and p is not None and len(p) == 19 and p[:4] == b"\x30\x11\x04\x0c" and p[16:] == b"\x02\x01\x10")


# ---------------------------------------------------------------------------------------------
# executions
# ---------------------------------------------------------------------------------------------
def pack_row(cid: t.Any, blob: t.Any, in_envelope: bool) -> dict:
    from dpapi_ng._blob import DPAPINGBlob

    row: dict = {"id": cid, "k": "pack", "layout": "envelope" if in_envelope else "trailing", "x": proj(blob), "win": is_windows_shaped(blob),
                 "bytes": [], "exc": "", "ux": {}, "uexc": "", "repack": [], "py_eq": True, "indep": ""}
    try:
        b = blob.pack(blob_in_envelope=in_envelope)
        if not isinstance(b, (bytes, bytearray)):
            raise TypeError(f"pack returned {type(b).__name__}")
        b = bytes(b)
        row["bytes"] = list(b)
    except Exception as e:  # noqa
        row["exc"] = exc_class(e) + ": " + str(e)[:100]
        return row
    try:
        u = DPAPINGBlob.unpack(b)
        row["ux"] = proj(u)
        row["py_eq"] = bool(u == blob)
        row["repack"] = list(u.pack(blob_in_envelope=in_envelope))
    except Exception as e:  # noqa
        row["uexc"] = exc_class(e) + ": " + str(e)[:100]
    if row["win"]:
        try:
            p = blobref.parse_blob(b)
            if proj_indep(p) != row["x"]:
                row["indep"] = "leaves differ"
            elif (p["content"] is not None) != (in_envelope and len(blob.enc_content) > 0) and len(blob.enc_content) > 0:
                row["indep"] = "content in the other layout"
        except Exception as e:  # noqa
            row["indep"] = exc_class(e) + ": " + str(e)[:100]
    return row


def protect_row(cid: t.Any, cache: t.Any, rkid: uuid.UUID, sid: str, data: bytes, flavour: str) -> dict:
    import asyncio

    import dpapi_ng
    from dpapi_ng._blob import DPAPINGBlob

    row: dict = {"id": cid, "k": "protect", "layout": "envelope", "sid": cps(sid), "g": guid(rkid), "ptlen": len(data), "flavour": flavour,
                 "bytes": [], "exc": "", "x": {}, "ux": {}, "uexc": "", "repack": [], "indep": ""}
    try:
        if flavour == "async":
            b = asyncio.run(dpapi_ng.async_ncrypt_protect_secret(data, sid, root_key_identifier=rkid, cache=cache))
        else:
            b = dpapi_ng.ncrypt_protect_secret(data, sid, root_key_identifier=rkid, cache=cache)
        b = bytes(b)
        row["bytes"] = list(b)
    except Exception as e:  # noqa
        row["exc"] = exc_class(e) + ": " + str(e)[:100]
        return row
    try:
        row["x"] = proj_indep(blobref.parse_blob(b))
    except Exception as e:  # noqa
        row["indep"] = exc_class(e) + ": " + str(e)[:100]
        return row
    try:
        u = DPAPINGBlob.unpack(b)
        row["ux"] = proj(u)
        row["repack"] = list(u.pack())
    except Exception as e:  # noqa
        row["uexc"] = exc_class(e) + ": " + str(e)[:100]
    return row


def cal_rows() -> list[dict]:
    """The 16 Windows blobs: leaves found by the independent strict reader, re-rendered by the spec, must give the
    original bytes (calibration of layout, template and projection; nothing of dpapi_ng is involved)."""
    rows = []
    for f in sorted((REPO / "tests/data").glob("kdf_*.json")):
        b = base64.b16decode(json.load(open(f))["Data"])
        try:
            p = blobref.parse_blob(b)
        except Exception as e:  # noqa
            raise MachineryError(f"calibration: independent reader cannot read Windows blob {f.name}: {e}")
        rows.append({"id": "cal:" + f.stem, "k": "cal", "layout": "envelope", "bytes": list(b), "x": proj_indep(p), "exc": ""})
    if len(rows) != 16:
        raise MachineryError(f"calibration: expected 16 Windows blobs in tests/data, found {len(rows)}")
    return rows


def win_rows() -> list[dict]:
    """The library on the Windows blobs: unpack must find the same leaves, re-pack must give the same bytes."""
    from dpapi_ng._blob import DPAPINGBlob

    rows = []
    for c in cal_rows():
        row = {"id": "win:" + c["id"][4:], "k": "win", "layout": "envelope", "bytes": c["bytes"], "x": c["x"], "exc": "", "ux": {}, "uexc": "", "repack": []}
        try:
            u = DPAPINGBlob.unpack(bytes(c["bytes"]))
            row["ux"] = proj(u)
            row["repack"] = list(u.pack())
        except Exception as e:  # noqa
            row["uexc"] = exc_class(e) + ": " + str(e)[:100]
        rows.append(row)
    return rows


# ---------------------------------------------------------------------------------------------
def _len_class(n: int) -> str:
    return "content_empty" if n == 0 else "content_short_form" if n < 128 else f"content_long_form_{(n.bit_length() + 7) // 8}"


def _key(row: dict, clause: str) -> str:
    n = len(row["x"]["content"]) if row.get("x") else row.get("ptlen", 0) + 16
    return f"cms:{row['k']}:{clause}:{row['layout']}:{_len_class(n)}"


def judge(ctx: Ctx, rows: dict, bad: dict) -> None:
    groups: dict[str, list] = {}
    for cid, clauses in bad.items():
        row = rows[cid]
        if any(c.startswith("MACHINERY") for c in clauses):
            raise MachineryError(f"spec disagreement / malformed line {clauses}: id={cid} {json.dumps(row)[:1200]}")
        if any(c.startswith("CAL_") for c in clauses):
            raise MachineryError(f"calibration against Windows blob failed: {cid} {clauses}")
        for c in clauses:
            groups.setdefault(_key(row, c), []).append((row, c))
    for key, items in sorted(groups.items()):
        for row, c in items[:2]:
            small = {k: (v if not isinstance(v, list) or len(v) < 3000 else v[:3000] + ["..."]) for k, v in row.items() if k not in ("x", "ux")}
            small["x"] = {k: (v if not isinstance(v, list) or len(v) < 1000 else v[:1000] + ["..."]) for k, v in (row.get("x") or {}).items()}
            ctx.violation(key, c, small, f"{len(items)} failing case(s); e.g. {row['k']} layout={row['layout']} "
                          f"emitted={bytes(row['bytes'][:40]).hex()}... ({len(row['bytes'])} octets) exc={row['exc']} uexc={row.get('uexc')} indep={row.get('indep')}")


def gen_pack_cases(ctx: Ctx) -> list[tuple]:
    rng = ctx.rng
    out = []
    # systematic: every content size x key_info size on a Windows-shaped value, both layouts
    for cl in CONTENT_SIZES:
        for kl in KEY_INFO_SIZES if ctx.thorough else KEY_INFO_SIZES[::2] + [800]:
            out.append((cl, kl, True))
    for cl in BIG_CONTENT + ([70000, 2**17] if ctx.thorough else []):
        for kl in (0, 32, 800) if ctx.thorough else (0, 800):
            out.append((cl, kl, True))
        out.append((cl, 32, False))
    for _ in range(ctx.pick(450, 8000)):
        out.append((rng.choice(CONTENT_SIZES + [rng.randrange(0, 700)]), rng.choice(KEY_INFO_SIZES + [rng.randrange(0, 801)]), rng.random() < 0.35))
    return out


def run(ctx: Ctx) -> int:
    import concurrent.futures as cf

    import dpapi_ng
    from dpapi_ng._gkdi import KDFParameters

    ex = cf.ThreadPoolExecutor(max_workers=1)
    fut = ex.submit(run_tlc, "MC_Cms", ctx.pick("MC_Cms.cfg", "MC_Cms_thorough.cfg"), rundir=ctx.rundir, workers=4, heap="4g", env=JVM_ENV)

    rows: list[dict] = cal_rows()
    n_cal = len(rows)
    rows += win_rows()
    cid = 0
    for cl, kl, win in gen_pack_cases(ctx):
        blob = gen_blob(ctx.rng, cl, kl, win)
        for in_env in (True, False):
            rows.append(pack_row(f"k{cid}", blob, in_env))
            cid += 1
        k = blob.key_identifier
        ctx.distinct(("pack", cl, kl, win, len(k.domain_name.encode("utf-16-le")) > 126, max(map(ord, k.domain_name + k.forest_name + "a")) > 0xFFFF,
                      blob.enc_cek_parameters is None, blob.enc_content_parameters is None))
    n_pack = cid
    # real protect outputs (offline: root key loaded into the cache)
    sizes = [0, 1, 15, 16, 110, 111, 112, 113, 238, 239, 240, 241, 1000, 65518, 65519, 65520, 65521]
    hashes = ["SHA512", "SHA256", "SHA1", "SHA384"]
    for i in range(ctx.pick(160, 3000)):
        h = hashes[i % 4]
        rkid = uuid.UUID(bytes=ctx.rng.randbytes(16))
        cache = dpapi_ng.KeyCache()
        cache.load_key(ctx.rng.randbytes(64), rkid, kdf_parameters=KDFParameters(h).pack())
        n = sizes[i % len(sizes)] if i < ctx.pick(1, 4) * len(sizes) else ctx.rng.choice(sizes[:13] + [ctx.rng.randrange(0, 3000)])
        sid = "S-1-5-21-" + "-".join(str(ctx.rng.getrandbits(32)) for _ in range(ctx.rng.randrange(1, 6)))
        rows.append(protect_row(f"p{i}", cache, rkid, sid, ctx.rng.randbytes(n), "async" if i % 5 == 4 else "sync"))
        ctx.distinct(("protect", n, h, i % 5 == 4))
    ctx.count(len(rows) - n_cal)
    by_id = {r["id"]: r for r in rows}
    big = [r for r in rows if len(r["bytes"]) > 20000]
    small = [r for r in rows if len(r["bytes"]) <= 20000]
    nchunk = max(1, min(12, len(small) // 100))
    order = [r for k in range(nchunk) for r in small[k::nchunk]]
    bad, st = validate(ctx, "TraceCms", "TraceCms.cfg", order, chunk=-(-len(order) // nchunk), what="blobs", env=JVM_ENV)
    bad2, st2 = validate(ctx, "TraceCms", "TraceCms.cfg", big, chunk=max(1, -(-len(big) // 12)), what="bigblobs", env=JVM_ENV) if big else ({}, [])
    r = fut.result()
    require_ok(r, "MC_Cms: spec-level inverse, templates, tree route")
    ctx.add_tlc(r, "Cms.tla on itself: Inverse (ParseBlob o BlobBytes = id, both layouts), Templates, TreeRoute (DerEnc/DerDec/MinimalDer of the whole "
                "blob as one value tree), OptionalContent, KeyIdInverse over key_info 0..800 x names (incl. non-BMP) x content 0..256 (+65535, 65536"
                + (", 70000" if ctx.thorough else "") + ") x parameters present/absent x numeric extremes x 2 layouts; rejection of mutated encodings")
    judge(ctx, by_id, {**bad, **bad2})
    om = sum(s.get("omitted_empty_content", 0) for s in st + st2)
    if om:
        ctx.note_drift("in_envelope_layout_omits_empty_encryptedContent_instead_of_80_00", om)
    ctx.cov["calibration"] = f"{n_cal} Windows NCryptProtectSecret blobs: spec rendering of the parsed leaves = original bytes, WindowsTemplate holds"
    ctx.cov["rows"] = {"calibration": n_cal, "library_on_windows_blobs": n_cal, "pack": n_pack, "protect": len(rows) - 2 * n_cal - n_pack}
    for row in (rows[n_cal], rows[-1]):
        ctx.sample({k: (v if not isinstance(v, (list, dict)) or len(json.dumps(v)) < 400 else json.dumps(v)[:400] + "...") for k, v in row.items()})
    ctx.assume("projection object -> Cms.tla fields (limbs, code points, OID arcs, uuid fields) is trusted and calibrated on the Windows blobs; "
               "harness/blobref.parse_blob is the independent strict DER reader")
    ctx.assume("AES-KW / AES-GCM outputs are opaque bytes here; DER primitives are covered by C07")
    return ctx.finish(
        rule="well-formed blob values: systematic content sizes (0..257, 1000, 65534..65537; thorough 70000, 2^17) x key_info sizes 0..800 on "
        "Windows-shaped values + random values (u32 extremes, Unicode/non-BMP names, other algorithm OIDs, parameters absent/NULL/GCM/other), each "
        "packed in both layouts by the real DPAPINGBlob.pack, unpacked and re-packed; real (async_)ncrypt_protect_secret outputs from a root-key "
        "cache for 4 KDF hashes and plaintext sizes around the length boundaries; every row judged by TraceCms (TLC): bytes = BlobBytes(x, layout), "
        "templates, unpack(pack(x)) = x, pack(unpack(b)) = b, independent strict reader accepts; distinct = shape classes",
    )


def unproj(x: dict) -> t.Any:
    """Cms.tla fields -> DPAPINGBlob (inverse of proj, for --replay)."""
    from dpapi_ng._blob import DPAPINGBlob, KeyIdentifier, SIDDescriptor

    def u32(l: list[int]) -> int:
        return (l[0] << 16) | l[1]

    def oid(a: list[list[int]]) -> str:
        out = []
        for d in a:
            n = 0
            for q in d:
                n = (n << 7) | q
            out.append(str(n))
        return ".".join(out)

    def unpar(p: dict) -> t.Optional[bytes]:
        return bytes(p["raw"]) if p["p"] else None

    k = x["kid"]
    g = k["g"]
    rk = uuid.UUID(bytes=u32(g["d1"]).to_bytes(4, "big") + g["d2"].to_bytes(2, "big") + g["d3"].to_bytes(2, "big") + bytes(g["d4"]))
    kid = KeyIdentifier(version=u32(k["version"]), flags=u32(k["flags"]), l0=u32(k["l0"]), l1=u32(k["l1"]), l2=u32(k["l2"]), root_key_identifier=rk,
                        key_info=bytes(k["key_info"]), domain_name="".join(map(chr, k["domain"])), forest_name="".join(map(chr, k["forest"])))
    return DPAPINGBlob(key_identifier=kid, protection_descriptor=SIDDescriptor("".join(map(chr, x["sid"]))), enc_cek=bytes(x["enc_cek"]),
                       enc_cek_algorithm=oid(x["cek_alg"]), enc_cek_parameters=unpar(x["cek_par"]), enc_content=bytes(x["content"]),
                       enc_content_algorithm=oid(x["ct_alg"]), enc_content_parameters=unpar(x["ct_par"]))


def replay(ctx: Ctx, case: dict) -> int:
    import dpapi_ng

    row = case["case"]
    if row["k"] == "pack":
        if any(isinstance(v, list) and v and v[-1] == "..." for v in row["x"].values()):
            raise MachineryError("recorded case was truncated (large content); re-run the tier instead")
        new = pack_row(row["id"], unproj(row["x"]), row["layout"] == "envelope")
    elif row["k"] == "protect":
        rkid = uuid.UUID(bytes=ctx.rng.randbytes(16))
        cache = dpapi_ng.KeyCache()
        cache.load_key(ctx.rng.randbytes(64), rkid)
        new = protect_row(row["id"], cache, rkid, "".join(map(chr, row["sid"])), ctx.rng.randbytes(row["ptlen"]), row.get("flavour", "sync"))
    else:
        new = [r for r in win_rows() if r["id"] == row["id"]][0]
    bad, _ = validate(ctx, "TraceCms", "TraceCms.cfg", [new], what="replay", env=JVM_ENV)
    judge(ctx, {new["id"]: new}, bad)
    return ctx.finish(rule="replay of one recorded case")


def _expect_reject(ctx: Ctx, module: str, cfg: str, good: list[dict], corrupted: list[dict], what: str) -> None:
    """As tracecheck.selftest_expect_reject, with this driver's JVM options (deep recursion needs a larger stack)."""
    bad, _ = validate(ctx, module, cfg, good, what=what + "-good", count_traces=False, env=JVM_ENV)
    if bad:
        raise MachineryError(f"selftest {what}: good rows rejected: {list(bad.items())[:3]}")
    bad, _ = validate(ctx, module, cfg, corrupted, what=what + "-corrupt", count_traces=False, env=JVM_ENV)
    missing = [r["id"] for r in corrupted if r["id"] not in bad]
    if missing:
        raise MachineryError(f"selftest {what}: corrupted rows accepted: {missing[:5]}")



def selftest(ctx: Ctx) -> int:
    import dpapi_ng

    rng = ctx.rng
    good: list[dict] = []
    for i, (cl, kl, win) in enumerate([(0, 0, True), (16, 32, True), (127, 128, True), (128, 800, True), (300, 5, False), (1, 255, False)]):
        blob = gen_blob(rng, cl, kl, win)
        good.append(pack_row(f"g{i}e", blob, True))
        good.append(pack_row(f"g{i}t", blob, False))
    rkid = uuid.UUID(bytes=rng.randbytes(16))
    cache = dpapi_ng.KeyCache()
    cache.load_key(rng.randbytes(64), rkid)
    good.append(protect_row("gp", cache, rkid, "S-1-5-21-1-2-3-1104", b"secret", "sync"))
    good += cal_rows()[:2] + win_rows()[2:4]
    corrupted: list[dict] = []

    def mut(row: dict, name: str, f: t.Callable[[dict], None]) -> None:
        c = json.loads(json.dumps(row))
        c["id"] = f"{row['id']}-{name}"
        f(c)
        corrupted.append(c)

    for row in good:
        b = row["bytes"]
        mut(row, "lastbyte", lambda c: c["bytes"].__setitem__(len(c["bytes"]) - 1, (c["bytes"][-1] + 1) % 256))
        mut(row, "outerlen", lambda c: c["bytes"].__setitem__(3 if c["bytes"][1] == 130 else 1, (c["bytes"][3 if c["bytes"][1] == 130 else 1] + 1) % 256))
        mut(row, "field", lambda c: c["x"]["kid"]["l1"].__setitem__(1, (c["x"]["kid"]["l1"][1] + 1) % 65536))
        mut(row, "name", lambda c: c["x"]["kid"]["forest"].append(120))
        if row["k"] != "cal":
            mut(row, "uexc", lambda c: c.__setitem__("uexc", "builtins.ValueError: x"))
            mut(row, "ux", lambda c: c["ux"]["enc_cek"].append(0))
            mut(row, "repack", lambda c: c["repack"].append(0))
        if row["k"] == "pack":
            mut(row, "layout", lambda c: c.__setitem__("layout", "trailing" if c["layout"] == "envelope" else "envelope")
                if c["x"]["content"] else c["bytes"].append(0))
            mut(row, "pyeq", lambda c: c.__setitem__("py_eq", False))
            if not row["win"]:
                mut(row, "win", lambda c: c.__setitem__("win", True))
        if row["k"] == "protect":
            mut(row, "sid", lambda c: c["sid"].append(48))
            mut(row, "ptlen", lambda c: c.__setitem__("ptlen", c["ptlen"] + 1))
        # the EnvelopedData version octet (found structurally: first 02 01 02 after the [0] header)
        i = next(j for j in range(len(b) - 2) if b[j:j + 3] == [2, 1, 2])
        mut(row, "version", lambda c: c["bytes"].__setitem__(i + 2, 3))
    _expect_reject(ctx, "TraceCms", "TraceCms.cfg", good, corrupted, "c06")
    print(f"selftest C06 ok: {len(good)} recorded rows accepted; {len(corrupted)} corrupted rows (emitted byte, outer length, field value, name, "
          "unpacked field, re-packed bytes, layout, object equality, template flag, request fields, version octet) all rejected")
    return 0
