"""C13 — request framing: lengths, alignment, and exactly the stub region is sealed."""
from __future__ import annotations

import asyncio
import random
import struct
import typing as t
import uuid

from .. import taps
from .. import provider, refdc, sdref
from ..core import Ctx, MachineryError
from ..tlc import require_ok, run_apalache, run_tlc
from ..tracecheck import validate
from .c15 import Sock, Writer, ctok

import spnego.iov as iov

MODES = {int(iov.BufferType.sign_only): "sign_only", int(iov.BufferType.data_readonly): "data_readonly",
         int(iov.BufferType.data): "data", int(iov.BufferType.header): "header"}
VT_LEN = 52


class FramingServer:
    """Peer that accepts the bind (header signing on/off), records the exact layout of the
    request PDU it receives, and answers with a sealed reply of a chosen stub and pad length."""

    def __init__(self, seal: provider.SealKey, sign: bool, reply_stub: bytes, reply_pad: int, alloc: str = "padded") -> None:
        self.seal, self.sign, self.reply_stub, self.reply_pad = seal, sign, reply_stub, reply_pad
        self.alloc = alloc        # alloc_hint of the reply is only a hint: padded stub length, the stub length without auth padding, or 0
        self.buf = b""
        self.auth: t.Optional[dict] = None
        self.obs: t.Optional[dict] = None
        self.eof = False
        self.port = 49664
        self.request_wire = b""
        self.request_plain = b""
        self.seq = 0
        self.all_obs: list = []

    def feed(self, data: bytes) -> bytes:
        self.buf += data
        out = b""
        while len(self.buf) >= 16:
            fl = struct.unpack("<H", self.buf[8:10])[0]
            if len(self.buf) < fl or fl < 16:
                break
            pdu, self.buf = self.buf[:fl], self.buf[fl:]
            out += self.on_pdu(pdu, extra=len(self.buf))
        return out

    def on_pdu(self, pdu: bytes, extra: int) -> bytes:
        h = refdc.parse_header(pdu)
        fl = refdc.PFC_FIRST | refdc.PFC_LAST
        if h["ptype"] in (refdc.PT_BIND, refdc.PT_ALTER):
            _, body, auth = refdc.split_pdu(pdu)
            self.auth = auth
            b = refdc.parse_bind_body(body)
            res = [(0, 0, refdc.NDR64) if i == 0 else (3, 0, (uuid.UUID(int=0), 0, 0)) for i in range(len(b["contexts"]))]
            rb = refdc.bind_ack_body(res, "49664")
            rb += b"\x00" * (-len(rb) % 4)
            tr = refdc.sec_trailer(auth["type"], auth["level"], 0, auth["ctx"], b"") if auth else b""
            return refdc.finish_pdu(refdc.PT_BIND_ACK if h["ptype"] == refdc.PT_BIND else refdc.PT_ALTER_RESP,
                                    fl | (refdc.PFC_SIGN if self.sign else 0), h["call_id"], rb, tr)
        if h["ptype"] != refdc.PT_REQUEST:
            return refdc.finish_pdu(refdc.PT_FAULT, fl, h["call_id"], refdc.fault_body(5))
        # ---- independent receiver: everything from frag_len / auth_len only
        actual = len(pdu) + extra
        frag, alen = h["frag_len"], h["auth_len"]
        tr_off = frag - alen - 8
        tr8 = pdu[tr_off : tr_off + 8]
        sig = pdu[tr_off + 8 : frag]
        ct = pdu[24:tr_off]
        seq = self.seq
        self.seq += 1
        pt, used = provider.server_open(self.seal, seq, pdu[:24], ct, tr8, sig)
        self.request_wire, self.request_plain = pdu, pt
        self.obs = {"actualLen": actual, "fragLen": frag, "authLen": alen, "trailerOff": tr_off, "padField": tr8[2] if len(tr8) == 8 else -1,
                    "sealedOK": used is not None, "usedSign": {True: "true", False: "false", None: "none"}[used],
                    "vtAt": (24 + pt.find(refdc.VT_SIG)) if refdc.VT_SIG in pt else -1,
                    "trailer_type_level": [tr8[0], tr8[1]] if len(tr8) == 8 else [], "ctx": struct.unpack("<H", pdu[20:22])[0],
                    "opnum": struct.unpack("<H", pdu[22:24])[0], "alloc_hint": struct.unpack("<I", pdu[16:20])[0]}
        self.all_obs.append((dict(self.obs), pdu, pt))
        # ---- reply: stub || pad, sealed
        a = self.auth or {"type": 9, "level": 6, "ctx": 0}
        rbody = self.reply_stub + bytes((0xA5 + 7 * i) & 0xFF for i in range(self.reply_pad))  # pad octets are arbitrary
        sl = self.seal.sig_len
        hdr = refdc.pdu_header(refdc.PT_RESPONSE, fl, 16 + 8 + len(rbody) + 8 + sl, sl, h["call_id"]) + \
            struct.pack("<IHBB", {"padded": len(rbody), "unpadded": len(self.reply_stub), "zero": 0}[self.alloc], 0, 0, 0)
        rtr8 = struct.pack("<BBBBI", a["type"], a["level"], self.reply_pad, (0, 0x5A, 0xFF)[(self.reply_pad + len(self.reply_stub)) % 3], a["ctx"])   # auth_reserved: ignored on receipt
        rct, rsig = provider.server_seal(self.seal, seq, hdr, rbody, rtr8, bool(used))
        return hdr + rct + rtr8 + rsig


_LOOP: asyncio.AbstractEventLoop = None  # type: ignore


def _isd_contexts():
    from dpapi_ng._gkdi import ISD_KEY
    from dpapi_ng._rpc import NDR64, ContextElement, bind_time_feature_negotiation

    return [ContextElement(0, ISD_KEY, [NDR64]), ContextElement(1, ISD_KEY, [bind_time_feature_negotiation()])]


def _vt():
    from dpapi_ng._gkdi import ISD_KEY
    from dpapi_ng._rpc import NDR64, CommandFlags, CommandPContext, VerificationTrailer

    return VerificationTrailer([CommandPContext(flags=CommandFlags.SEC_VT_COMMAND_END, interface_id=ISD_KEY, transfer_syntax=NDR64)])


def one_request(stub: bytes, vt: bool, sig_len: int, sign: bool, flavour: str, reply_stub: bytes = b"\x00" * 16, reply_pad: int = 0,
                alloc: str = "padded") -> tuple[dict, t.Any, list]:
    from dpapi_ng._rpc import AsyncRpcClient, SyncRpcClient
    from dpapi_ng._rpc._auth import AuthenticationProvider

    log: list = []
    seal = provider.SealKey(sig_len=sig_len)
    srv = FramingServer(seal, sign, reply_stub, reply_pad, alloc)

    def factory() -> provider.ScriptedContext:
        c = provider.ScriptedContext([ctok(1)], complete_after=1, sig_len=sig_len, log=log)
        c.seal = seal
        return c

    with provider.installed(factory):
        auth = AuthenticationProvider("u", "p", "dc01", "negotiate")
    vtr = _vt() if vt else None
    resp = None
    try:
        with taps.time_limit(60):
            if flavour == "sync":
                c = SyncRpcClient(Sock(srv), auth)  # type: ignore
                c.bind(contexts=_isd_contexts())
                resp = c.request(0, 0, stub, verification_trailer=vtr)
            else:
                async def go() -> t.Any:
                    r = taps.CountingReader()
                    c = AsyncRpcClient(r, Writer(srv, r), auth)  # type: ignore
                    await c.bind(contexts=_isd_contexts())
                    return await c.request(0, 0, stub, verification_trailer=vtr)

                resp = _LOOP.run_until_complete(asyncio.wait_for(go(), 40))
    except MachineryError:
        raise
    except (Exception, taps.Hang) as e:  # noqa  (the client under test rejected the reply or failed: judged from what was observed)
        resp = e
    obs = dict(srv.obs or {})
    wraps = [e for e in log if e["ev"] == "wrap"]
    if not obs:
        if len(srv.buf) >= 16 and srv.buf[2] == refdc.PT_REQUEST:
            # the client sent a request PDU whose frag_len field is not the number of octets it sent: the peer waits for the rest
            # (or would read into the next PDU).  Recorded as what it is and judged by TraceFraming, not a failure of the machinery.
            return {"partial": True, "fragLen": struct.unpack("<H", srv.buf[8:10])[0], "actualLen": len(srv.buf),
                    "authLen": struct.unpack("<H", srv.buf[10:12])[0]}, resp, log
        raise MachineryError(f"no request reached the scripted server ({len(wraps)} wrap calls; client outcome {resp!r})")
    obs["wrapCalls"] = len(wraps)
    # a request that reached the peer without exactly one pass through the security context was not sealed as specified:
    # recorded as such (no region lengths / modes) and judged by TraceFraming, not a failure of the machinery
    w = wraps[0] if len(wraps) == 1 and len(wraps[0].get("data", [])) >= 3 and len(wraps[0].get("lens", [])) >= 3 else \
        {"types": [], "lens": [-1, -1, -1, -1], "data": [b"", None, b""]}
    if w["data"][1] is None:
        obs["wrapCalls"] = -1 if len(wraps) == 1 else len(wraps)
    lay_plain = srv.request_plain or b""
    obs["wrapModes"] = [MODES.get(x, str(x)) for x in w["types"]]
    obs["wrapLens"] = w["lens"]
    obs["bodyEq"] = w["data"][1] is not None and (w["data"][1] or b"") == lay_plain
    obs["hdrEq"] = (w["data"][0] or b"") == srv.request_wire[:24]
    obs["trEq"] = (w["data"][2] or b"") == srv.request_wire[obs["trailerOff"] : obs["trailerOff"] + 8]
    obs["stubEq"] = lay_plain[: len(stub)] == stub
    tail = lay_plain[len(stub) :]
    if vt:
        k = tail.find(refdc.VT_SIG)
        pad4 = tail[:k] if k >= 0 else b""
        after = tail[k + VT_LEN :] if k >= 0 else tail
        obs["padsZero"] = pad4 == b"\x00" * len(pad4) and after == b"\x00" * len(after)
    else:
        obs["padsZero"] = tail == b"\x00" * len(tail)
    return obs, resp, log


def request_sequence(stubs: list[bytes], vts: list[bool], sig_len: int, sign: bool) -> list[dict]:
    """Several sealed requests over ONE connection / client object (per-request state must not leak)."""
    from dpapi_ng._rpc import SyncRpcClient
    from dpapi_ng._rpc._auth import AuthenticationProvider

    log: list = []
    seal = provider.SealKey(sig_len=sig_len)
    srv = FramingServer(seal, sign, b"\x00" * 16, 0)

    def factory() -> provider.ScriptedContext:
        c = provider.ScriptedContext([ctok(1)], complete_after=1, sig_len=sig_len, log=log)
        c.seal = seal
        return c

    with provider.installed(factory):
        auth = AuthenticationProvider("u", "p", "dc01", "negotiate")
    out = []
    try:
        with taps.time_limit(30):
            c = SyncRpcClient(Sock(srv), auth)  # type: ignore
            c.bind(contexts=_isd_contexts())
            for stub, vt in zip(stubs, vts):
                c.request(0, 0, stub, verification_trailer=_vt() if vt else None)
    except MachineryError:
        raise
    except (Exception, taps.Hang):  # noqa
        pass
    wraps = [e for e in log if e["ev"] == "wrap"]
    for k, (obs, wire, plain) in enumerate(srv.all_obs):
        stub, vt = stubs[k], vts[k]
        aligned = len(wraps) == len(srv.all_obs) and len(wraps[k].get("data", [])) >= 3 and len(wraps[k].get("lens", [])) >= 3
        w = wraps[k] if aligned else {"types": [], "lens": [-1, -1, -1, -1], "data": [b"", None, b""]}
        obs["wrapCalls"] = 1 if aligned else 0
        plain = plain or b""
        obs["wrapModes"] = [MODES.get(x, str(x)) for x in w["types"]]
        obs["wrapLens"] = w["lens"]
        obs["bodyEq"] = w["data"][1] is not None and (w["data"][1] or b"") == plain
        obs["hdrEq"] = (w["data"][0] or b"") == wire[:24]
        obs["trEq"] = (w["data"][2] or b"") == wire[obs["trailerOff"] : obs["trailerOff"] + 8]
        obs["stubEq"] = plain[: len(stub)] == stub
        obs["padsZero"] = True
        out.append({"kind": "request", "stub": len(stub), "vt": VT_LEN if vt else 0, "sig": sig_len, "sign": sign, "fl": f"sync-seq{k + 1}", "obs": obs})
    return out


def run(ctx: Ctx) -> int:
    global _LOOP
    _LOOP = asyncio.new_event_loop()
    asyncio.set_event_loop(_LOOP)
    r = run_tlc("MC_RpcFraming", "MC_RpcFraming.cfg", rundir=ctx.rundir)
    require_ok(r, "RpcFraming layout invariants")
    ctx.add_tlc(r, "RpcFraming: stub 0..300 x VT {0,52} x sig {16,28,60,76} x header signing + replies 0..64 x pad 0..15: FramingOK, ReceiverAgrees, RegionsOK, ReplyOK")
    ok, out, w = run_apalache("ApaFraming", ["--length=0", "--inv=Inv"], ctx.rundir, timeout=600)
    if not ok:
        raise MachineryError(f"Apalache ApaFraming failed: {out[-500:]}")
    ctx.cov["tlc_runs"].append({"what": "Apalache ApaFraming!Inv: alignment lemmas for all stub/VT lengths in Nat", "wall_s": round(w, 1)})

    from dpapi_ng._client import _process_get_key_result

    rng = ctx.rng
    rows = []
    stubs = range(0, 301) if ctx.thorough else sorted(set(list(range(0, 70)) + [rng.randrange(70, 301) for _ in range(40)] + [127, 128, 255, 256, 299, 300]))
    for sl in stubs:
        stub = rng.randbytes(sl)
        for vt in (False, True):
            for sig in (16, 28, 60, 76):
                for sign in (False, True):
                    fls = ("sync", "async") if ctx.thorough or (sl + sig) % 5 == 0 else (("sync",) if (sl + sig // 4) % 2 else ("async",))
                    for fl in fls:
                        obs, _, _ = one_request(stub, vt, sig, sign, fl)
                        rows.append({"id": len(rows), "kind": "request_partial" if obs.get("partial") else "request", "stub": sl, "vt": VT_LEN if vt else 0,
                                     "sig": sig, "sign": sign, "fl": fl, "obs": obs})
                    ctx.distinct(("req", sl, vt, sig, sign))
    # several requests of different lengths over one connection (per-request framing state must not be reused)
    for k in range(ctx.pick(48, 400)):
        n = rng.randrange(2, 5)
        stubs = [rng.randbytes(rng.randrange(0, 120)) for _ in range(n)]
        vts = [rng.random() < 0.6 for _ in range(n)]
        for row in request_sequence(stubs, vts, (16, 28, 60, 76)[k % 4], k % 3 != 0):
            row["id"] = len(rows)
            rows.append(row)
        ctx.distinct(("seq", k))
    # reply path: the reference encoder renders GetKey replies of every length residue, any declared pad
    dc = refdc.DC()
    rkid = uuid.UUID(int=7)
    dc.add_root_key(rkid, refdc.RootKeyInfo(bytes(64), "SHA256", "DH"))
    sd = sdref.target_sd("S-1-5-21-1-2-3-1104")
    for namelen in range(0, ctx.pick(9, 33)):
        dc.domain = "d" * namelen
        dc.forest = "f" * (namelen // 2)
        for kind in ("seed", "pubkey"):
            dc.reply_kind = kind
            hres, env, _ = dc.get_key(sd, rkid, 361, 3, 4)
            rstub = refdc.get_key_response(env, 0)
            for pad in range(16):
                if kind == "seed" and namelen % 4 == 1:
                    # an error reply: HRESULT must be reported, whatever the padding
                    obs, resp, _ = one_request(b"\x00" * 32, True, 16, True, "sync", reply_stub=refdc.get_key_response(b"", 0x80070005), reply_pad=pad,
                                               alloc=("padded", "unpadded", "zero")[pad % 3])
                    try:
                        _process_get_key_result(resp)
                        res = "mismatch"
                    except ValueError as e:
                        res = "ok" if "80070005" in str(e).upper() else "error:ValueError:" + str(e)[:40]
                    except Exception as e:  # noqa
                        res = "error:" + type(e).__name__
                    rows.append({"id": len(rows), "kind": "reply", "env": 0, "pad": pad, "res": res, "fl": "sync", "reply_kind": "hresult"})
                fl = "sync" if (pad + namelen) % 2 else "async"
                obs, resp, _ = one_request(b"\x00" * 32, True, 16, True, fl, reply_stub=rstub, reply_pad=pad, alloc=("padded", "unpadded", "zero")[(pad + namelen) % 3])
                try:
                    g = _process_get_key_result(resp)
                    res = "ok" if g.pack() == env else "mismatch"
                except Exception as e:  # noqa
                    res = "error:" + type(e).__name__
                rows.append({"id": len(rows), "kind": "reply", "env": len(env), "pad": pad, "res": res, "fl": fl, "reply_kind": kind})
                ctx.distinct(("reply", len(env) % 16, pad, kind))
    ctx.count(len(rows))
    bad, _ = validate(ctx, "TraceFraming", "TraceFraming.cfg", rows, chunk=ctx.pick(1500, 6000), what="framing")
    for i, clauses in bad.items():
        r_ = rows[i]
        if any(c.startswith("MACHINERY") for c in clauses):
            ctx.note_drift("padding_bytes_not_zero")
            clauses = [c for c in clauses if not c.startswith("MACHINERY")]
            if not clauses:
                continue
        if r_["kind"] in ("request", "request_partial"):
            key = f"framing:{clauses[0]}:vt{int(r_['vt'] > 0)}:stub%16={r_['stub'] % 16}:sig{r_['sig']}"
            det = f"stub {r_['stub']} bytes, VT {r_['vt']}, signature {r_['sig']}, header signing {r_['sign']} [{r_['fl']}]: observed {r_['obs']}"
        else:
            key = f"framing:{clauses[0]}:reply:pad{r_['pad']}"
            det = f"reply envelope of {r_['env']} bytes with declared pad_length {r_['pad']} ({r_['reply_kind']}): {r_['res']}"
        ctx.violation(key, ",".join(clauses), r_, det)
    for r_ in rows[:1] + rows[len(rows) // 2 : len(rows) // 2 + 1] + rows[-1:]:
        ctx.sample(r_)
    ctx.assume("security context scripted at the spnego.client boundary with signature sizes 16/28/60/76; sealed/signed regions identified by its keyed MAC")
    return ctx.finish(
        rule="request states = stub length x verification trailer on/off x signature size x header signing (the states TLC checks on "
        "RpcFraming.tla), each replayed through SyncRpcClient.request / AsyncRpcClient.request; the wire PDU is re-parsed by an independent "
        "receiver and the buffers handed to the security context are recorded; reply states = envelope length x declared pad 0..15 x "
        "seed/public-key reply through _process_get_key_result; all rows judged by TraceFraming (TLC) against RpcFraming!Layout",
        exhaustive=ctx.thorough,
    )


def selftest(ctx: Ctx) -> int:
    global _LOOP
    _LOOP = asyncio.new_event_loop()
    asyncio.set_event_loop(_LOOP)
    from ..tracecheck import selftest_expect_reject
    import copy

    good = []
    for i, sl in enumerate((0, 5, 16, 33)):
        obs, _, _ = one_request(bytes(sl), True, 28, True, "sync")
        good.append({"id": i, "kind": "request", "stub": sl, "vt": VT_LEN, "sig": 28, "sign": True, "fl": "sync", "obs": obs})
    bad = []
    for i, g in enumerate(good):
        b = copy.deepcopy(g)
        b["id"] = 100 + i
        if i == 0:
            b["obs"]["padField"] += 1
        elif i == 1:
            b["obs"]["vtAt"] += 1
        elif i == 2:
            b["obs"]["wrapModes"][0] = "data_readonly"
        else:
            b["obs"]["fragLen"] -= 1
        bad.append(b)
    selftest_expect_reject(ctx, "TraceFraming", "TraceFraming.cfg", good, bad, "c13")
    print("selftest C13 ok")
    return 0
