"""C05 — decrypting untrusted bytes ends promptly with a deliberate error type."""
from __future__ import annotations

import typing as t

from .. import taps  # noqa: F401
from .. import blobfuzz, blobref, refdc
from ..blobfuzz import raw_key_identifier as rki
from ..core import Ctx, MachineryError
from ..tlc import require_ok, run_tlc
from ..tracecheck import validate

P_ROOT = (0,)
P_OID_ENV, P_C0, P_ENV = (0, 0), (0, 1), (0, 1, 0)
P_VER, P_SET, P_RI = P_ENV + (0,), P_ENV + (1,), P_ENV + (1, 0)
P_RI_VER, P_KEKID, P_KEA, P_ENCKEY = P_RI + (0,), P_RI + (1,), P_RI + (2,), P_RI + (3,)
P_KID, P_OTHER = P_KEKID + (0,), P_KEKID + (1,)
P_OTHER_OID, P_PD = P_OTHER + (0,), P_OTHER + (1,)
P_PD_OID, P_PD_STRS = P_PD + (0,), P_PD + (1, 0, 0)
P_PD_TYPE, P_PD_SID = P_PD_STRS + (0,), P_PD_STRS + (1,)
P_KEA_OID = P_KEA + (0,)
P_ECI = P_ENV + (2,)
P_CEA = P_ECI + (1,)
P_CEA_OID, P_GCMP = P_CEA + (0,), P_CEA + (1,)
P_NONCE, P_ICV, P_CT = P_GCMP + (0,), P_GCMP + (1,), P_ECI + (2,)
OTHER_OID = bytes.fromhex("2a0304")


def concretise(tg: blobfuzz.Target, tree: list, trailing: bytes) -> dict[tuple[str, str], list[tuple[str, bytes]]]:
    """(stage, class) of BlobParse.tla -> concrete inputs derived from the target blob."""
    R = lambda path, op, arg=None: blobfuzz.render(tree, (path, op, arg), trailing)  # noqa: E731
    kid = blobref.parse_blob(tg.blob)["kid"]
    base = dict(flags=kid["flags"], l0=kid["l0"], l1=kid["l1"], l2=kid["l2"], rkid=kid["rkid"].bytes_le, key_info=kid["key_info"],
                domain=(kid["domain"] + "\0").encode("utf-16-le"), forest=(kid["forest"] + "\0").encode("utf-16-le"))
    K = lambda **kw: R(P_KID, "replace", rki(**{**base, **kw}))  # noqa: E731
    S = lambda s: R(P_PD_SID, "replace", s if isinstance(s, bytes) else s.encode())  # noqa: E731
    import os
    out: dict[tuple[str, str], list[tuple[str, bytes]]] = {
        ("outer_header", "empty"): [("empty", b"")],
        ("outer_header", "truncated_length"): [("len-octets-cut", b"\x30\x82\x01"), ("one-byte", b"\x30")],
        ("outer_header", "indefinite_length"): [("indefinite", R(P_ROOT, "indefinite"))],
        ("outer_header", "wrong_tag"): [("set-for-seq", R(P_ROOT, "wrong_tag", 0x31)), ("octet", R(P_ROOT, "wrong_tag", 0x04))],
        ("outer_header", "overlong_length"): [("claims+100", R(P_ROOT, "overlong", 100)), ("huge", R(P_ROOT, "huge_length"))],
        ("content_info", "wrong_tag"): [("a1", R(P_C0, "wrong_tag", 0xA1)), ("oid-as-int", R(P_OID_ENV, "wrong_tag", 0x02))],
        ("content_info", "truncated"): [("short", R(P_C0, "short_content"))],
        ("content_info", "zero_length_oid"): [("oid0", R(P_OID_ENV, "zero_length"))],
        ("content_info", "unknown_oid"): [("1.2.3.4", R(P_OID_ENV, "replace", OTHER_OID))],
        ("content_info", "overlong_length"): [("oid+100", R(P_OID_ENV, "overlong", 100)), ("huge", R(P_C0, "huge_length"))],
        ("enveloped_data", "wrong_tag"): [("set", R(P_ENV, "wrong_tag", 0x31)), ("ver-as-octets", R(P_VER, "wrong_tag", 0x04))],
        ("enveloped_data", "truncated"): [("short", R(P_ENV, "short_content")), ("set-short", R(P_SET, "short_content"))],
        ("enveloped_data", "zero_length_integer"): [("ver0", R(P_VER, "zero_length"))],
        ("enveloped_data", "other_version"): [("v3", R(P_VER, "replace", b"\x03")), ("v-neg", R(P_VER, "replace", b"\xff\x00\x00"))],
        ("enveloped_data", "other_recipient_choice"): [("kari", R(P_RI, "wrong_tag", 0xA1)), ("ktri", R(P_RI, "wrong_tag", 0x30)), ("hightag", R(P_RI, "high_tag", b"\x81\x00"))],
        ("enveloped_data", "no_recipient"): [("drop", R(P_RI, "drop"))],
        ("enveloped_data", "two_recipients"): [("dup", R(P_RI, "dup"))],
        ("kek_recipient_info", "wrong_tag"): [("kekid-set", R(P_KEKID, "wrong_tag", 0x31)), ("key-as-int", R(P_ENCKEY, "wrong_tag", 0x02))],
        ("kek_recipient_info", "truncated"): [("short", R(P_RI, "short_content"))],
        ("kek_recipient_info", "zero_length_integer"): [("ver0", R(P_RI_VER, "zero_length"))],
        ("kek_recipient_info", "other_version"): [("v3", R(P_RI_VER, "replace", b"\x03"))],
        ("kek_identifier", "wrong_tag"): [("kid-null", R(P_KID, "wrong_tag", 0x05))],
        ("kek_identifier", "truncated"): [("short", R(P_KEKID, "short_content"))],
        ("kek_identifier", "attribute_missing"): [("drop", R(P_OTHER, "drop"))],
        ("kek_identifier", "attribute_other_oid"): [("1.2.3.4", R(P_OTHER_OID, "replace", OTHER_OID))],
        ("kek_identifier", "zero_length_oid"): [("oid0", R(P_OTHER_OID, "zero_length"))],
        ("key_identifier_struct", "bad_magic"): [("XXXX", K(magic=b"XXXX"))],
        ("key_identifier_struct", "short"): [("cut30", K(cut=30)), ("cut0", K(cut=0)), ("cut8", K(cut=8)), ("cut51", K(cut=51))],
        ("key_identifier_struct", "bad_utf16"): [("lone-surrogate", K(domain=b"\x00\xd8\x00\x00")), ("odd", K(forest=b"a\x00b\x00\x00"))],
        ("key_identifier_struct", "length_fields_boundary"): [(f"{f}={v}", K(**{f: v})) for f in ("ki_len", "dom_len", "for_len") for v in (0, 1, 2**32 - 1)],
        ("key_identifier_struct", "index_boundary"): [("l0=2^31-1", K(l0=2**31 - 1)), ("flags=2^32-1", K(flags=2**32 - 1)), ("version=0", K(version=0))],
        ("protection_descriptor", "wrong_tag"): [("set", R(P_PD, "wrong_tag", 0x31)), ("str-as-octets", R(P_PD_SID, "wrong_tag", 0x04))],
        ("protection_descriptor", "truncated"): [("short", R(P_PD, "short_content"))],
        ("protection_descriptor", "unsupported_type"): [("sddl-oid", R(P_PD_OID, "replace", blobref.der_oid("1.3.6.1.4.1.311.74.1.5")[2:])), ("LOCAL", R(P_PD_TYPE, "replace", b"LOCAL"))],
        ("protection_descriptor", "bad_utf8"): [("ff-fe", S(b"\xff\xfe")), ("type-bad", R(P_PD_TYPE, "replace", b"\xc3\x28"))],
        ("protection_descriptor", "zero_length_oid"): [("oid0", R(P_PD_OID, "zero_length"))],
        ("sid_to_sd", "malformed_sid"): [(s, S(s)) for s in ("S-1", "S-1-5-", "X-1-5-21", "", "S-1-5-21-" + "-".join(["1"] * 16), "S-1--5-21", "S-10-5-21")],
        ("sid_to_sd", "number_out_of_range"): [(s, S(s)) for s in ("S-1-5-4294967296", "S-1-281474976710656-1", "S-1-18446744073709551616-1", "S-1-5-21-99999999999999999999")],
        ("cache_lookup", "key_absent"): [("other-rkid", K(rkid=os.urandom(16)))],
        ("cache_lookup", "l0_beyond_signed_range"): [("l0=2^31", K(l0=2**31)), ("l0=2^32-1", K(l0=2**32 - 1))],
        ("derive", "index_above_31"): [("l1=32", K(l1=32)), ("l2=32", K(l2=32)), ("l1=2^32-1", K(l1=2**32 - 1)), ("l2=2^31", K(l2=2**31)), ("l1=l2=255", K(l1=255, l2=255))],
        ("unwrap", "unknown_algorithm"): [("1.2.3.4", R(P_KEA_OID, "replace", OTHER_OID))],
        ("unwrap", "bad_length"): [("39", R(P_ENCKEY, "replace", b"\x01" * 39)), ("8", R(P_ENCKEY, "replace", b"\x01" * 8)), ("0", R(P_ENCKEY, "zero_length")), ("4096", R(P_ENCKEY, "replace", b"\x01" * 4096))],
        ("unwrap", "wrong_key_or_modified"): [("zeros", R(P_ENCKEY, "replace", b"\x00" * 40)), ("other-l2", K(l2=(kid["l2"] + 1) % 32)), ("other-keyinfo", K(key_info=b"\x33" * len(kid["key_info"])) if not kid["flags"] & 1 else R(P_ENCKEY, "replace", b"\x07" * 40))],
        ("open", "unknown_algorithm"): [("1.2.3.4", R(P_CEA_OID, "replace", OTHER_OID))],
        ("open", "parameters_missing"): [("drop", R(P_GCMP, "drop"))],
        ("open", "parameters_malformed"): [("set", R(P_GCMP, "wrong_tag", 0x31)), ("nonce-as-int", R(P_NONCE, "wrong_tag", 0x02))],
        ("open", "parameters_truncated"): [("short", R(P_GCMP, "short_content"))],
        ("open", "bad_nonce_length"): [("7", R(P_NONCE, "replace", b"\x01" * 7)), ("0", R(P_NONCE, "zero_length")), ("200", R(P_NONCE, "replace", b"\x01" * 200))],
    }
    if tg.layout == "in_envelope":
        out[("open", "modified")] = [("ct-zero", R(P_CT, "replace", b"\x00" * 40)), ("ct-short", R(P_CT, "replace", b"\x01" * 5)), ("ct-empty-tag", R(P_CT, "replace", b"\x01" * 16))]
    else:
        out[("open", "modified")] = [("trailing-flip", blobfuzz.render(tree, None, bytes([trailing[0] ^ 1]) + trailing[1:])), ("trailing-short", blobfuzz.render(tree, None, trailing[:5]))]
    pk = dict(flags=kid["flags"] | 1)
    if tg.mode in ("nonce", "DH"):
        p_, g_ = refdc.RFC5114_P, refdc.RFC5114_G
        out[("kek", "public_key_garbage")] = [("random32", K(**pk, key_info=b"\x5a" * 32)), ("empty", K(**pk, key_info=b"")), ("magic-only", K(**pk, key_info=b"DHPB"))]
        out[("kek", "hostile_dh_parameters")] = [
            ("key_length=0", K(**pk, key_info=b"DHPB" + (0).to_bytes(4, "little"))),
            ("key_length=2^32-1", K(**pk, key_info=b"DHPB" + (2**32 - 1).to_bytes(4, "little") + b"\x01" * 64)),
            ("p=0", K(**pk, key_info=refdc.ffc_dh_key(8, 0, 2, 3))), ("p=1", K(**pk, key_info=refdc.ffc_dh_key(8, 1, 2, 3))),
            ("y>=p", K(**pk, key_info=refdc.ffc_dh_key(256, p_, g_, 0)[:-256] + b"\xff" * 256)),
            ("key_length=1,p=251", K(**pk, key_info=refdc.ffc_dh_key(1, 251, 6, 200))),
            ("truncated", K(**pk, key_info=refdc.ffc_dh_key(256, p_, g_, 5)[:300])),
        ]
    else:
        c = "P256" if tg.mode == "ECDH_P256" else "P384"
        n = 32 if c == "P256" else 48
        out[("kek", "public_key_garbage")] = [("random", K(**pk, key_info=b"\x5a" * 40)), ("empty", K(**pk, key_info=b""))]
        out[("kek", "unknown_curve")] = [("ECK9", K(**pk, key_info=b"ECK9" + n.to_bytes(4, "little") + b"\x01" * (2 * n))), ("P521-on-" + c, K(**pk, key_info=b"ECK5" + (66).to_bytes(4, "little") + b"\x01" * 132))]
        out[("kek", "point_not_on_curve")] = [("(1,1)", K(**pk, key_info=refdc.ecdh_key(c, 1, 1))), ("(0,0)", K(**pk, key_info=refdc.ecdh_key(c, 0, 0))),
                                               ("len-mismatch", K(**pk, key_info=(b"ECK1" if c == "P256" else b"ECK3") + (4).to_bytes(4, "little") + b"\x01" * 8)),
                                               ("len=2^32-1", K(**pk, key_info=(b"ECK1" if c == "P256" else b"ECK3") + (2**32 - 1).to_bytes(4, "little") + b"\x01" * 64))]
    return out


def random_der(rng: t.Any, depth: int = 0) -> bytes:
    tag = rng.choice([0x30, 0x31, 0xA0, 0xA2, 0x04, 0x02, 0x06, 0x0C, 0x80, 0x05, 0x1F, 0x3F, 0xBF])
    if tag & 0x20 and depth < 6:
        content = b"".join(random_der(rng, depth + 1) for _ in range(rng.randrange(0, 4)))
    else:
        content = rng.randbytes(rng.choice([0, 0, 1, 2, 3, 9, 40]))
    if tag & 0x1F == 0x1F:
        return bytes([tag]) + rng.choice([b"\x21", b"\x81\x00", b"\xff\xff\x7f", b"\x80"]) + blobref.der_len(len(content)) + content
    ln = rng.choice([blobref.der_len(len(content))] * 6 + [b"\x80", b"\x84\xff\xff\xff\xff", b"\x81\x00", blobref.der_len(len(content) + 3), b"\x89" + b"\x01" * 9])
    return bytes([tag]) + ln + content


def run(ctx: Ctx) -> int:
    r = run_tlc("BlobParse", "MC_BlobParse.cfg", rundir=ctx.rundir)
    require_ok(r, "BlobParse pipeline")
    ctx.add_tlc(r, "BlobParse.tla: 13 stages x abstract input classes, any number of benign defects then one fatal: OutcomeClosed, BoundedKdf, OneDefectEnds, ReturnOnlyIfClean, termination")
    cfg = ctx.rundir / "emit.cfg"
    cfg.write_text("INIT Init\nNEXT Next\nCONSTRAINT Emit\nCONSTRAINT KdfView\nCHECK_DEADLOCK FALSE\n")
    em = run_tlc("BlobParse", str(cfg), rundir=ctx.rundir, workers=2, tag="emit")
    transitions = sorted({(c[0], c[1], c[2]) for c in em.tagged("CASE")})
    if len(transitions) < 55:
        raise MachineryError(f"only {len(transitions)} transitions emitted")
    rng = ctx.rng
    rows: list[dict] = []

    def add(tg: blobfuzz.Target, data: bytes, what: str, stage: str = "", cls: str = "", predicted: str = "", meter: bool = True) -> None:
        out, exc, kdf, steps = tg.unprotect(data, kdf_budget=300, step_budget=(400 * len(data) + 20000) if meter else None, use_async=(len(rows) % 11 == 0),
                                            measure_mem=bool(stage))
        res = "return" if out in ("plain_ok", "plain_different") else out
        rows.append({"id": len(rows), "what": what, "stage": stage, "cls": cls, "predicted": predicted if predicted in ("ValueError", "NotImplementedError", "NotEnougData", "InvalidTag", "InvalidUnwrap") else "",
                     "len": len(data), "out": res, "exc": exc, "excBase": exc.split("<")[0], "kdf": kdf, "steps": steps, "memk": tg.last_peak // 1024, "mode": tg.mode, "layout": tg.layout,
                     "hex": data[:600].hex() if res in ("error", "kdf_budget", "step_budget") and not blobfuzz_is_deliberate(exc) else ""})

    targets = [blobfuzz.Target(rng, ["SHA256", "SHA512", "SHA1", "SHA384"][(ctx.seed + i) % 4], m, lay, rng.randbytes(20))
               for i, (m, lay) in enumerate([("nonce", "in_envelope"), ("DH", "trailing"), ("ECDH_P256", "in_envelope")] + ([("nonce", "trailing"), ("ECDH_P384", "in_envelope"), ("DH", "in_envelope")] if ctx.thorough else []))]
    missing = set()
    for tg in targets:
        tree = blobfuzz.parse_tree(tg.blob[: len(tg.blob) - len(blobref.parse_blob(tg.blob)["trailing"])])
        trailing = blobref.parse_blob(tg.blob)["trailing"]
        conc = concretise(tg, tree, trailing)
        # (a) one (or a few) concrete inputs per transition of the spec
        for stage, cls, outcome in transitions:
            if cls == "ok":
                continue
            items = conc.get((stage, cls))
            if not items:
                missing.add((stage, cls))
                continue
            for name, data in items:
                add(tg, data, f"{stage}/{cls}/{name}", stage, cls, outcome)
                ctx.distinct((tg.mode, stage, cls, name))
        # (b1) generic structure-aware mutations: every node x every operation
        for path in blobfuzz.all_paths(tree):
            for op, arg in (("wrong_tag", 0x05), ("wrong_tag", 0x30), ("zero_length", None), ("short_content", None), ("overlong", 7), ("huge_length", None),
                            ("indefinite", None), ("nonminimal", None), ("drop", None), ("dup", None), ("high_tag", b"\x1f")):
                add(tg, blobfuzz.render(tree, (path, op, arg), trailing), f"node{path}:{op}", meter=(len(path) % 2 == 0))
                ctx.distinct((tg.mode, path, op, arg))
            # optional members that are normally absent, and unexpected ones, in front of every node; the node as a deeply
            # nested constructed encoding
            for extra in (b"\x18\x00", b"\x18\x0f20230101000000Z", b"\x05\x00", b"\x04\x00", b"\x30\x00", b"\xa0\x00", b"\x02\x01\x00", b"\x0c\x00"):
                add(tg, blobfuzz.render(tree, (path, "insert_before", extra), trailing), f"node{path}:insert", meter=(len(extra) % 2 == 0))
                ctx.distinct((tg.mode, path, "insert", extra))
            for depth in (40, 1500):
                add(tg, blobfuzz.render(tree, (path, "deep_nest", depth), trailing), f"node{path}:deep_nest", meter=False)
                ctx.distinct((tg.mode, path, "deep_nest", depth))
            # the node under every other tag of its class: the other CHOICE alternatives of CMS ([0]..[6]: other RecipientInfo
            # kinds, optional members that are normally absent) and the other universal types
            tag0 = blobfuzz.node_at(tree, path)[0]
            alts = [(tag0 & 0xE0) | n for n in range(7)] if tag0 & 0xC0 == 0x80 else [0x02, 0x04, 0x06, 0x0C, 0x31, 0xA0]
            for alt in alts:
                if alt != tag0:
                    add(tg, blobfuzz.render(tree, (path, "wrong_tag", alt), trailing), f"node{path}:retag", meter=(alt % 2 == 0))
                    ctx.distinct((tg.mode, path, "retag", alt))
        # (b2) all truncations, sampled bit flips
        for n in range(len(tg.blob)):
            add(tg, tg.blob[:n], f"truncate {n}", meter=(n % 4 == 0))
        for bit in rng.sample(range(len(tg.blob) * 8), min(len(tg.blob) * 8, ctx.pick(1500, 12000))):
            b = bytearray(tg.blob)
            b[bit // 8] ^= 1 << (bit % 8)
            add(tg, bytes(b), f"bit {bit}", meter=(bit % 5 == 0))
    if missing - {("derive", "not_covered")}:
        ctx.cov["transitions_without_concrete_input"] = sorted(missing)
    # (b3) arbitrary bytes and DER-shaped trees
    tg = targets[0]
    for i in range(ctx.pick(3000, 60000)):
        n = rng.choice([0, 1, 2, 3, 5, 16, 64, 300, 2000])
        add(tg, rng.randbytes(n), "random bytes", meter=(i % 3 == 0))
    for i in range(ctx.pick(3000, 60000)):
        add(tg, random_der(rng), "random DER tree", meter=(i % 3 == 0))
    for n in (10000, 65536, 300000):
        add(tg, b"\x30\x84" + n.to_bytes(4, "big") + rng.randbytes(n), f"large {n}")
        add(tg, tg.blob + rng.randbytes(n), f"valid+trailing {n}")
    ctx.count(len(rows))
    slim = [{k: r_[k] for k in ("id", "predicted", "len", "out", "exc", "excBase", "kdf", "steps", "memk")} for r_ in rows]
    bad, stats = validate(ctx, "TraceParse", "TraceParse.cfg", slim, chunk=8000, what="parse")
    ctx.note_drift("deliberate_type_other_than_predicted", sum(s.get("drift", 0) for s in stats))
    ctx.note_drift("kdf_calls_above_68_within_budget", sum(s.get("kdfDrift", 0) for s in stats))
    for i, clauses in bad.items():
        r_ = rows[i]
        if any(c.startswith("MACHINERY") for c in clauses):
            raise MachineryError(f"{r_}")
        site = r_["stage"] + "/" + r_["cls"] if r_["stage"] else (("node:" + r_["what"].split(":")[-1]) if r_["what"].startswith("node") else " ".join(r_["what"].split(" ")[:2 if r_["what"].startswith("random") else 1]))
        ctx.violation(f"parse:{clauses[0]}:{r_['exc'] or r_['out']}:{site}", ",".join(clauses), r_,
                      f"{r_['what']} ({r_['mode']}/{r_['layout']}, {r_['len']} bytes): {r_['out']} {r_['exc']} kdf={r_['kdf']} steps={r_['steps']}")
    from collections import Counter
    ctx.cov["outcomes"] = dict(Counter((r_["out"], r_["excBase"]) .__str__() for r_ in rows))
    ctx.cov["transitions"] = len(transitions)
    for r_ in rows[:2] + rows[-1:]:
        ctx.sample({k: r_[k] for k in ("what", "len", "out", "exc", "kdf", "steps")})
    ctx.assume("offline key material (root key loaded); DNS/socket attempts count as 'tries to contact a DC'; work measured as KBKDF calls and line events in src/dpapi_ng")
    return ctx.finish(
        rule="inputs = one or more concrete byte strings per transition (stage, defect class) of BlobParse.tla built from valid library blobs with a DER tree "
        "mutator and a raw key-identifier builder (boundary L0/L1/L2, length fields 0/1/2^32-1, hostile DH/ECDH key_info, SID strings), every node x 11 "
        "structural operations, all truncations, sampled bit flips, random bytes, random DER-shaped trees, large inputs; each decrypted with offline "
        "key material under the KDF tap and (for a share) the line-event meter; TraceParse (TLC) checks the exception type against BlobParse!Deliberate and the budgets",
    )


def blobfuzz_is_deliberate(exc: str) -> bool:
    return exc.split("<")[0] in blobfuzz.DELIBERATE or exc == ""


def selftest(ctx: Ctx) -> int:
    from ..tracecheck import selftest_expect_reject

    base = {"predicted": "", "len": 100, "out": "error", "exc": "ValueError", "excBase": "ValueError", "kdf": 3, "steps": 500, "memk": 10}
    good = [dict(base, id=0), dict(base, id=1, exc="ValueError<UnicodeDecodeError>"), dict(base, id=2, out="needs_network", exc="")]
    bad = [dict(base, id=3, exc="IndexError", excBase="IndexError"), dict(base, id=4, out="kdf_budget", exc="BudgetExceeded", excBase="BudgetExceeded"),
           dict(base, id=5, steps=10**7), dict(base, id=6, exc="OverflowError", excBase="OverflowError"), dict(base, id=7, memk=4 * 1024 * 1024)]
    selftest_expect_reject(ctx, "TraceParse", "TraceParse.cfg", good, bad, "c05")
    print("selftest C05 ok")
    return 0
