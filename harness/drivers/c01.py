"""C01 — protect then unprotect returns the plaintext for every input, config and time."""
from __future__ import annotations

import asyncio
import time
import typing as t
import uuid

from .. import taps
from .. import blobref, refdc, sdref
from ..core import SPEC, Ctx, MachineryError
from ..gkdiref import kdf_parameters
from ..tlc import require_ok, run_tlc
from ..tracecheck import validate

EPOCH = 116444736000000000
USER = f"{refdc.DOMAIN}\\{refdc.USER}"
PT_LEN = {"len0": 0, "len1": 1, "len15": 15, "len16": 16, "len17": 17, "len64k": 65536}
EXTRA_PT = [31, 32, 33, 4095, 4096, 65535, 65537]
SIDS = {"sub1": "S-1-5-18", "sub5": "S-1-5-21-0-4294967295-1388177638-1103",
        "sub15": "S-1-5-21-1-2-3-4-5-6-7-8-9-10-11-12-4294967295-0"}
SECRET = {"DH": ("DH", 512, 2048), "ECDH_P256": ("ECDH_P256", 256, 256), "ECDH_P384": ("ECDH_P384", 384, 384)}


def limbs_to_ft(tl: list[int]) -> int:
    return tl[0] * 10**10 + tl[1] * 10**5 + tl[2]


def pos_of(ft: int) -> tuple[int, int, int]:
    idx = ft // 360000000000
    return idx // 1024, (idx // 32) % 32, idx % 32


def round_trip(ctx: Ctx, cfg: dict, pt: bytes, sid: str, ft: int) -> dict:
    import dpapi_ng
    import dpapi_ng._client as client
    from dpapi_ng._blob import DPAPINGBlob

    rng = ctx.rng
    h, mode = cfg["hash"], cfg["mode"]
    rkid = uuid.UUID(bytes=rng.randbytes(16))
    root = rng.randbytes(64)
    sec = SECRET.get(mode, SECRET["DH"])
    cache = dpapi_ng.KeyCache()
    load = dict(key=root, root_key_id=rkid, kdf_parameters=kdf_parameters(h), secret_algorithm=sec[0], private_key_length=sec[1], public_key_length=sec[2])
    if sec[0] != "DH":
        load["secret_parameters"] = b""
    unix_ns = (ft - EPOCH) * 100 + rng.randrange(100)
    row = {"kind": "rt", "hash": h, "mode": mode, "layout": cfg["layout"], "flavour": cfg["flavour"], "ptlen": len(pt), "sid": sid,
           "t": [ft // 10**10, (ft // 10**5) % 10**5, ft % 10**5], "source": "cache" if mode == "nonce" else "dc", "pos": [-1, -1, -1],
           "dcnow": list(pos_of(ft)), "contentInEnvelope": True, "flagsPub": False, "res": "?"}
    a_sync = cfg["flavour"] == "sync"
    try:
        with taps.clock(client, unix_ns), taps.KdfTap(budget=600, record=False):
            if mode == "nonce":
                cache.load_key(**load)
                blob = (dpapi_ng.ncrypt_protect_secret(pt, sid, root_key_identifier=rkid, cache=cache) if a_sync
                        else asyncio.run(dpapi_ng.async_ncrypt_protect_secret(pt, sid, root_key_identifier=rkid, cache=cache)))
            else:
                dc = refdc.DC()
                dc.add_root_key(rkid, refdc.RootKeyInfo(root, h, sec[0], sec[1], sec[2]))
                dc.reply_kind = "pubkey"
                dc.now = pos_of(ft)
                kw = dict(server="dc01", username=USER, password=refdc.PASSWORD, auth_protocol="ntlm")
                if rng.random() < 0.6:
                    kw["cache"] = cache      # the very cache that later holds the root key and decrypts (state carried between the calls)
                with refdc.Network(dc):
                    blob = (dpapi_ng.ncrypt_protect_secret(pt, sid, **kw) if a_sync else asyncio.run(dpapi_ng.async_ncrypt_protect_secret(pt, sid, **kw)))
                cache.load_key(**load)
            if cfg["layout"] == "trailing":
                blob = DPAPINGBlob.unpack(blob).pack(blob_in_envelope=False)
            p = blobref.parse_blob(blob)
            row["pos"] = [p["kid"]["l0"], p["kid"]["l1"], p["kid"]["l2"]]
            row["contentInEnvelope"] = bool(p["content"])
            row["flagsPub"] = bool(p["kid"]["flags"] & 1)
            # the decrypting call happens at some other time: the clock must not matter
        with taps.clock(client, unix_ns + rng.randrange(10**9, 10**18)), taps.KdfTap(budget=600, record=False):
            out = (dpapi_ng.ncrypt_unprotect_secret(blob, cache=cache) if (a_sync or rng.random() < 0.5)
                   else asyncio.run(dpapi_ng.async_ncrypt_unprotect_secret(blob, cache=cache)))
        row["res"] = "plain_ok" if out == pt else "plain_different"
    except MachineryError:
        raise
    except taps.BudgetExceeded:
        row["res"] = "budget"
    except Exception as e:  # noqa
        row["res"] = f"error:{type(e).__name__}:{str(e)[:50]}"
    return row


def run(ctx: Ctx) -> int:
    refdc.ensure_ntlm_users()
    r = run_tlc("MC_Blob", "MC_Blob_rt.cfg", rundir=ctx.rundir)
    require_ok(r, "Blob round trip over the configuration product")
    ctx.add_tlc(r, "Blob.tla: 4 hashes x 4 modes x 2 layouts x 2 flavours x 6 plaintext classes x 3 SID shapes x 7 clock classes: RoundTrip, NamesInterval, NoForgery")
    cfg = ctx.rundir / "emit.cfg"
    cfg.write_text(open(SPEC / "MC_Blob_rt.cfg").read().replace("INVARIANT RoundTrip", "CONSTRAINT EmitRT\nINVARIANT RoundTrip"))
    em = run_tlc("MC_Blob", str(cfg), rundir=ctx.rundir, workers=4, tag="emit")
    hists = em.cases("CASE")
    cfgs = [h[0][1] for h in hists if h and h[0][0] == "protect"]
    if len(cfgs) < 5000:
        raise MachineryError(f"only {len(cfgs)} configurations emitted")
    rng = ctx.rng
    if not ctx.thorough:
        # every (hash, mode, layout, flavour) keeps all clock classes; the rest is sampled
        keep = []
        by: dict = {}
        for c in cfgs:
            by.setdefault((c["hash"], c["mode"], c["layout"], c["flavour"]), []).append(c)
        for k, lst in sorted(by.items()):
            n = 40 if k[1] in ("nonce",) else (6 if k[1] == "ECDH_P256" else 5)
            keep += rng.sample(lst, n)
            seen_t = {tuple(c["t"]) for c in keep if (c["hash"], c["mode"], c["layout"], c["flavour"]) == k}
            if k[1] == "nonce":
                keep += [next(c for c in lst if tuple(c["t"]) == tt) for tt in {tuple(c["t"]) for c in lst} - seen_t]
        cfgs = keep
    rows = []
    t0 = time.time()
    for i, c in enumerate(cfgs):
        n = PT_LEN[c["pt"]]
        if c["pt"] == "len17" and i % 3 == 0:
            n = EXTRA_PT[(i // 3) % len(EXTRA_PT)]
        pt = rng.randbytes(n)
        ft = limbs_to_ft(c["t"])
        if c["mode"] == "nonce" and i % 4 == 1:
            ft += rng.choice([-1, 0, 1]) * 360000000000 * rng.randrange(0, 40000)   # other epochs, same boundary class
        row = round_trip(ctx, c, pt, SIDS[c["sid"]], ft)
        row["id"] = len(rows)
        rows.append(row)
        ctx.distinct((c["hash"], c["mode"], c["layout"], c["flavour"], n, c["sid"], tuple(c["t"])))
    # one run at the real clock
    import dpapi_ng
    rk = uuid.uuid4()
    cch = dpapi_ng.KeyCache()
    cch.load_key(rng.randbytes(64), rk)
    try:
        real = dpapi_ng.ncrypt_unprotect_secret(dpapi_ng.ncrypt_protect_secret(b"real-clock", SIDS["sub5"], root_key_identifier=rk, cache=cch), cache=cch)
    except Exception as e:  # noqa
        real = f"error:{type(e).__name__}: {e}".encode()
    if real != b"real-clock":
        ctx.violation("rt:real_clock", "protect_then_unprotect_returns_plaintext", {"clock": "real", "sid": SIDS["sub5"], "result": real.decode(errors="replace")[:300]},
                      f"round trip at the real clock for SID {SIDS['sub5']}: {real[:200]!r}")
    ctx.count(len(rows) + 1)
    bad, _ = validate(ctx, "TraceBlob", "TraceBlob.cfg", rows, chunk=4000, what="rt")
    for i, clauses in bad.items():
        r_ = rows[i]
        if any(c.startswith("MACHINERY") for c in clauses):
            if r_["res"] == "plain_ok" and len(clauses) == 1:
                raise MachineryError(f"{clauses} {r_}")
            ctx.note_drift("blob_layout_or_mode_flag_not_as_requested")
            clauses = [c for c in clauses if not c.startswith("MACHINERY")]
            if not clauses:
                continue
        ctx.violation(f"rt:{clauses[0]}:{r_['mode']}:{r_['layout']}:{r_['flavour']}:{r_['res'].split(':')[1] if ':' in r_['res'] else r_['res']}", ",".join(clauses), r_,
                      f"{r_['hash']} {r_['mode']} {r_['layout']} {r_['flavour']} plaintext {r_['ptlen']} bytes sid {r_['sid']} t={limbs_to_ft(r_['t'])}: named {r_['pos']} -> {r_['res']}")
    for r_ in rows[:2] + rows[-1:]:
        ctx.sample(r_)
    ctx.assume("AES-KW / AES-GCM executed by `cryptography`; public-key modes protect via the reference DC (group public key reply) and unprotect offline from the root key")
    return ctx.finish(
        rule="configurations emitted by TLC from Blob.tla (hash x mode x layout x flavour x plaintext class x SID shape x clock class); each executed through "
        "the public API with the clock tap at the configuration's instant (real magnitudes, first/last tick of L0/L1/L2 intervals, other epochs), "
        "plaintext lengths 0,1,15,16,17,31,32,33,4095,4096,65535,65536,65537; TraceBlob (TLC) checks RoundTrip and the interval named; "
        "quick samples the product keeping every (hash, mode, layout, flavour) and every clock class",
        exhaustive=ctx.thorough,
    )


def selftest(ctx: Ctx) -> int:
    from ..tracecheck import selftest_expect_reject

    base = {"kind": "rt", "hash": "SHA1", "mode": "nonce", "layout": "in_envelope", "flavour": "sync", "ptlen": 3, "sid": "s",
            "t": [372 * 1024 * 36, 0, 0], "source": "cache", "pos": [372, 0, 0], "dcnow": [372, 0, 0], "contentInEnvelope": True, "flagsPub": False, "res": "plain_ok"}
    good = [dict(base, id=0)]
    bad = [dict(base, id=1, res="plain_different"), dict(base, id=2, pos=[371, 31, 31]), dict(base, id=3, res="error:ValueError:x")]
    selftest_expect_reject(ctx, "TraceBlob", "TraceBlob.cfg", good, bad, "c01")
    print("selftest C01 ok")
    return 0
