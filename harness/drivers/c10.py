"""C10 — KeyCache is transparent under any history/interleaving and avoids repeat RPCs."""
from __future__ import annotations

import asyncio
import json
import time
import typing as t
import uuid

from .. import taps
from .. import blobref, refdc, sdref
from ..core import Ctx, MachineryError
from ..tlc import require_ok, run_tlc
from ..tracecheck import validate

BASE = 360000000000
EPOCH = 116444736000000000
SIDS = {"sdA": "S-1-5-21-2185496602-3367037166-1388177638-1103", "sdB": "S-1-5-21-2185496602-3367037166-1388177638-1104"}
USER = f"{refdc.DOMAIN}\\{refdc.USER}"
NORK = "norootkey"


class World:
    """Concrete interpretation of one abstract behaviour: DC, root keys, clock, blobs, shared cache."""

    def __init__(self, seed: int, now: tuple[int, int], h: str = "SHA512") -> None:
        import random

        import dpapi_ng

        self.rng = random.Random(seed)
        self.h = h
        self.l0c = 361 + self.rng.randrange(40)
        self.now = now
        self.dc = refdc.DC()
        self.rk = {}
        for name in ("rk1", "rk2"):
            rid = uuid.UUID(bytes=self.rng.randbytes(16))
            self.rk[name] = (rid, self.rng.randbytes(64))
            self.dc.add_root_key(rid, refdc.RootKeyInfo(self.rk[name][1], h, "DH"), default=(name == "rk1"))
        self.dc.default_rkid = self.rk["rk1"][0]
        self.rk_label = {v[0]: k for k, v in self.rk.items()}
        self.sd_label = {sdref.target_sd(s): k for k, s in SIDS.items()}
        self.sid_label = {s: k for k, s in SIDS.items()}
        self.cache = dpapi_ng.KeyCache()
        self.unix_ns = 0
        self.now_l0 = 2
        self.set_now(2, now)
        self.events: list[dict] = []
        self.plain: dict[str, bytes] = {}
        self.forced: dict[str, tuple] = {}

    def set_now(self, l0_abs: int, pos: tuple[int, int]) -> None:
        """Move the clock (client tap and DC) into the interval (l0_abs, pos)."""
        self.now_l0, self.now = l0_abs, tuple(pos)
        l0c = self.l0_conc(l0_abs)
        ft = ((l0c * 32 + pos[0]) * 32 + pos[1]) * BASE + self.rng.randrange(BASE)
        self.unix_ns = (ft - EPOCH) * 100
        self.dc.now = (l0c, pos[0], pos[1])

    def l0_conc(self, l0: int) -> int:
        return self.l0c - (2 - l0)

    def l0_abs(self, l0c: int) -> int:
        return 2 - (self.l0c - l0c)

    def make_blob(self, o: str, rk: str, sd: str, l0: int, pos: tuple[int, int]) -> bytes:
        rid = self.rk[rk][0]
        l0c = self.l0_conc(l0)
        ks = self.dc.keyset(rid, sdref.target_sd(SIDS[sd]), l0c)
        self.plain[o] = f"secret-{o}-{rk}-{sd}-{l0}-{pos}".encode() * (1 + self.rng.randrange(3))
        return blobref.make_blob(self.h, ks.l2(pos[0], pos[1]), rid, l0c, pos[0], pos[1], SIDS[sd], self.plain[o], self.rng.randbytes)

    # DC-side observation: GetKey decoded for the call tagged on the connection
    def on_get_key(self, conn: t.Any, g: dict) -> t.Optional[tuple]:
        o = conn.tag or "?"
        self.events.append({
            "ev": "rpc", "o": o, "rk": self.rk_label.get(g["rkid"], "rk?") if g["rkid"] else NORK,
            "sd": self.sd_label.get(g["sd"], "sd?"),
            "l0": -1 if g["l0"] == -1 else self.l0_abs(g["l0"]), "pos": [g["l1"], g["l2"]],
        })
        force = self.forced.get(o)
        return force

    def note_reply(self, o: str, desc: dict) -> None:
        self.events.append({"ev": "reply", "o": o, "k": "rpc" if desc["kind"] == "seed" else ("pub" if desc["kind"] == "pubkey" else "err"),
                            "pos": desc.get("pos", [-1, -1])})

    def judge_blob(self, o: str, sd: str, blob: bytes) -> dict:
        try:
            def l2_of(kid: dict) -> bytes:
                info = self.dc.root_keys[kid["rkid"]]
                return self.dc.keyset(kid["rkid"], sdref.target_sd(p_sid[0]), kid["l0"]).l2(kid["l1"], kid["l2"])

            p = blobref.parse_blob(blob)
            p_sid = [p["sid"]]
            pt, _ = blobref.open_blob(blob, self.h, l2_of)
            kid = p["kid"]
            named = [self.rk_label.get(kid["rkid"], "rk?"), self.sid_label.get(p["sid"], "sd?"), self.l0_abs(kid["l0"]), kid["l1"], kid["l2"]]
            return {"res": "blob_ok" if pt == self.plain[o] else "blob_bad", "named": named}
        except Exception as e:  # noqa
            return {"res": "blob_bad", "named": ["?", "?", -1, -1, -1], "why": type(e).__name__}


async def _play(w: World, hist: list, timeout: float = 90.0) -> None:
    import dpapi_ng

    tasks: dict[str, asyncio.Task] = {}
    at_gate: dict[str, str] = {}
    gates: dict[tuple, asyncio.Event] = {}
    desc: dict[str, dict] = {}
    net = refdc.Network(w.dc)
    w.dc.force_reply = w.on_get_key

    async def gate_reply(conn: t.Any, reply: bytes) -> None:
        o = conn.tag
        if conn.port == 135 or o is None or desc[o]["sync"] or reply[2] not in (2, 3):
            return
        at_gate[o] = "reply"
        await gates.setdefault((o, "reply"), asyncio.Event()).wait()

    async def gate_close(conn: t.Any) -> None:
        o = conn.tag
        if conn.port == 135 or o is None or desc[o]["sync"]:
            await asyncio.sleep(0)
            return
        at_gate[o] = "close"
        await gates.setdefault((o, "close"), asyncio.Event()).wait()

    net.gate = gate_reply
    net.close_gate = gate_close
    orig_get_key = w.dc.get_key

    def get_key_logged(sd, rkid, l0, l1, l2, force=None):  # noqa
        r = orig_get_key(sd, rkid, l0, l1, l2, force)
        w.note_reply(refdc.CURRENT_OP.get() or "?", r[2])
        return r

    w.dc.get_key = get_key_logged  # type: ignore

    def finish_event(o: str, d: dict, fn: t.Callable[[], t.Any], exc: t.Optional[BaseException], val: t.Any) -> None:
        if exc is not None:
            res = {"res": "budget" if isinstance(exc, taps.BudgetExceeded) else "error:" + type(exc).__name__}
        elif d["kind"] == "unprotect":
            res = {"res": "plain_ok" if val == w.plain[o] else "plain_wrong"}
        else:
            res = w.judge_blob(o, d["sd"], val)
        w.events.append({"ev": "end", "o": o, "named": res.get("named", ["-", "-", -1, -1, -1]), "res": res["res"]})

    async def wait_until(o: str, what: t.Optional[str]) -> None:
        t0 = time.time()
        while True:
            if tasks[o].done() or (what and at_gate.get(o) == what):
                return
            if time.time() - t0 > timeout:
                raise TimeoutError(o)
            await asyncio.sleep(0.0005)

    def api_kwargs(d: dict) -> dict:
        return dict(server="dc01", username=USER, password=refdc.PASSWORD, auth_protocol="ntlm", cache=w.cache)

    ended: set[str] = set()

    def collect(o: str) -> None:
        if o in ended or o not in tasks or not tasks[o].done():
            return
        ended.add(o)
        tk = tasks[o]
        exc = tk.exception() if not tk.cancelled() else asyncio.CancelledError()
        finish_event(o, desc[o], lambda: None, exc, None if exc else tk.result())

    with net, taps.clock(__import__("dpapi_ng._client", fromlist=["x"]), lambda: w.unix_ns), taps.KdfTap(budget=1500, record=False):
        try:
            for i, ev in enumerate(hist):
                kind = ev[0]
                if kind == "tick":
                    w.set_now(ev[1], tuple(ev[2]))
                    w.events.append({"ev": "tick", "l0": ev[1], "pos": list(ev[2])})
                elif kind == "load":
                    rid, key = w.rk[ev[1]]
                    w.cache.load_key(key, rid, kdf_parameters=refdc.kdf_parameters(w.h))
                    w.events.append({"ev": "load", "rk": ev[1]})
                elif kind == "begin":
                    _, o, k, rk, sd, l0, pos, sync = ev
                    d = {"kind": k, "rk": rk, "sd": sd, "l0": l0, "pos": list(pos), "sync": bool(sync)}
                    desc[o] = d
                    for later in hist[i + 1 :]:
                        if later[0] == "reply" and later[1] == o:
                            w.forced[o] = (later[2], tuple(later[3]) if (k == "unprotect" and later[2] != "err") else None)
                            break
                    w.events.append({"ev": "begin", "o": o, "kind": k, "rk": rk, "sd": sd, "l0": l0, "pos": list(pos)})
                    if k == "unprotect":
                        blob = w.make_blob(o, rk, sd, l0, tuple(pos))
                    else:
                        w.plain[o] = f"protect-{o}".encode()
                    tok = refdc.CURRENT_OP.set(o)
                    try:
                        if sync:
                            exc, val = None, None
                            try:
                                if k == "unprotect":
                                    val = dpapi_ng.ncrypt_unprotect_secret(blob, **api_kwargs(d))
                                else:
                                    val = dpapi_ng.ncrypt_protect_secret(w.plain[o], SIDS[sd], root_key_identifier=(w.rk[rk][0] if rk != NORK else None), **api_kwargs(d))
                            except BaseException as e:  # noqa
                                if isinstance(e, (KeyboardInterrupt, SystemExit, MachineryError)):
                                    raise
                                exc = e
                            finish_event(o, d, lambda: None, exc, val)
                            ended.add(o)
                        else:
                            if k == "unprotect":
                                coro = dpapi_ng.async_ncrypt_unprotect_secret(blob, **api_kwargs(d))
                            else:
                                coro = dpapi_ng.async_ncrypt_protect_secret(w.plain[o], SIDS[sd], root_key_identifier=(w.rk[rk][0] if rk != NORK else None), **api_kwargs(d))
                            tasks[o] = asyncio.ensure_future(coro)
                            await wait_until(o, "reply")
                            collect(o)
                    finally:
                        refdc.CURRENT_OP.reset(tok)
                elif kind == "reply":
                    o = ev[1]
                    if o in tasks and not tasks[o].done():
                        gates.setdefault((o, "reply"), asyncio.Event()).set()
                        await wait_until(o, "close")
                        collect(o)
                elif kind == "cancel":
                    o = ev[1]
                    if o in tasks and not tasks[o].done():
                        tasks[o].cancel()
                        for g in ("reply", "close"):
                            gates.setdefault((o, g), asyncio.Event())
                        try:
                            await asyncio.wait_for(asyncio.shield(tasks[o]), 10)
                        except BaseException:  # noqa
                            pass
                    if o not in ended:
                        ended.add(o)
                        done_ok = o in tasks and tasks[o].done() and not tasks[o].cancelled() and tasks[o].exception() is None
                        w.events.append({"ev": "end", "o": o, "named": ["-", "-", -1, -1, -1], "res": "cancelled" if not done_ok else "cancel_ignored"})
                elif kind == "finish":
                    o = ev[1]
                    if o in tasks and not tasks[o].done():
                        gates.setdefault((o, "reply"), asyncio.Event()).set()
                        gates.setdefault((o, "close"), asyncio.Event()).set()
                        await wait_until(o, None)
                    collect(o)
        except TimeoutError as e:
            o = str(e)
            w.events.append({"ev": "end", "o": o, "named": ["-", "-", -1, -1, -1], "res": "hang"})
            ended.add(o)
        finally:
            for o, tk in tasks.items():
                if not tk.done():
                    tk.cancel()
                    for g in gates.values():
                        g.set()
            for o, tk in tasks.items():
                try:
                    await asyncio.wait_for(asyncio.shield(tk), 1)
                except BaseException:  # noqa
                    pass


def play(seed: int, now: tuple[int, int], hist: list, h: str = "SHA512", now_l0: int = 2) -> list[dict]:
    w = World(seed, now, h)
    if now_l0 != 2:
        w.set_now(now_l0, now)
    try:
        with taps.time_limit(400):
            asyncio.run(_play(w, hist))
    except taps.Hang:
        begun = [e["o"] for e in w.events if e["ev"] == "begin"]
        ended = {e["o"] for e in w.events if e["ev"] == "end"}
        for o in begun:
            if o not in ended:
                w.events.append({"ev": "end", "o": o, "named": ["-", "-", -1, -1, -1], "res": "hang"})
    return w.events


def play_threads(seed: int, now: tuple[int, int], plans: list[list], h: str = "SHA512") -> list[dict]:
    """Thread-level sharing of one KeyCache: each inner list is the sequence of sync calls one thread makes.  The
    interleaving is whatever the scheduler does; every observed history must still be accepted (events are appended
    atomically, a call's 'begin' is logged before it starts and its 'end' after it returned, so 'later call' is sound)."""
    import threading

    import dpapi_ng

    w = World(seed, now, h)
    w.dc.force_reply = w.on_get_key
    orig_get_key = w.dc.get_key
    lock = threading.Lock()

    def get_key_logged(sd, rkid, l0, l1, l2, force=None):  # noqa
        with lock:
            r = orig_get_key(sd, rkid, l0, l1, l2, force)
        w.note_reply(refdc.CURRENT_OP.get() or "?", r[2])
        return r

    w.dc.get_key = get_key_logged  # type: ignore
    kw = dict(server="dc01", username=USER, password=refdc.PASSWORD, auth_protocol="ntlm", cache=w.cache)
    blobs = {}
    for plan in plans:      # inputs are prepared before the threads start (the harness itself must not race)
        for (o, kind, rk, sd, l0, pos) in plan:
            if kind == "unprotect":
                blobs[o] = w.make_blob(o, rk, sd, l0, tuple(pos))
            elif kind == "protect":
                w.plain[o] = f"protect-{o}".encode()
                for r_ in ("rk1", "rk2"):
                    w.dc.keyset(w.rk[r_][0], sdref.target_sd(SIDS[sd]), w.l0_conc(2))

    def worker(plan: list) -> None:
        for (o, kind, rk, sd, l0, pos) in plan:
            if kind == "load":
                rid, key = w.rk[rk]
                w.cache.load_key(key, rid, kdf_parameters=refdc.kdf_parameters(w.h))
                w.events.append({"ev": "load", "rk": rk})
                continue
            blob = blobs.get(o)
            refdc.CURRENT_OP.set(o)
            w.events.append({"ev": "begin", "o": o, "kind": kind, "rk": rk, "sd": sd, "l0": l0, "pos": list(pos)})
            exc, val = None, None
            try:
                if kind == "unprotect":
                    val = dpapi_ng.ncrypt_unprotect_secret(blob, **kw)
                else:
                    val = dpapi_ng.ncrypt_protect_secret(w.plain[o], SIDS[sd], root_key_identifier=(w.rk[rk][0] if rk != NORK else None), **kw)
            except BaseException as e:  # noqa
                exc = e
            if exc is not None:
                res = {"res": "budget" if isinstance(exc, taps.BudgetExceeded) else "error:" + type(exc).__name__}
            elif kind == "unprotect":
                res = {"res": "plain_ok" if val == w.plain[o] else "plain_wrong"}
            else:
                res = w.judge_blob(o, sd, val)
            w.events.append({"ev": "end", "o": o, "named": res.get("named", ["-", "-", -1, -1, -1]), "res": res["res"]})

    with refdc.Network(w.dc), taps.clock(__import__("dpapi_ng._client", fromlist=["x"]), lambda: w.unix_ns), taps.KdfTap(budget=5000, record=False):
        ths = [threading.Thread(target=worker, args=(p,), daemon=True) for p in plans]
        for t_ in ths:
            t_.start()
        for t_ in ths:
            t_.join(120)
        begun = [e["o"] for e in list(w.events) if e["ev"] == "begin"]
        ended = {e["o"] for e in list(w.events) if e["ev"] == "end"}
        for o in begun:
            if o not in ended:
                w.events.append({"ev": "end", "o": o, "named": ["-", "-", -1, -1, -1], "res": "hang"})
    return list(w.events)


def _thread_histories(ctx: Ctx, n: int, base_id: int) -> list[dict]:
    rows = []
    rng = ctx.rng
    for i in range(n):
        now = (rng.randrange(32), rng.randrange(32))
        rk, sd = rng.choice(["rk1", "rk2"]), rng.choice(["sdA", "sdB"])
        pool = [p for p in [(rng.randrange(32), rng.randrange(32)) for _ in range(4)] + [(0, 0), now] if p <= now] or [now]
        plans, k = [], 0
        for th in range(rng.randrange(2, 5)):
            plan = []
            for _ in range(rng.randrange(1, 4)):
                k += 1
                if rng.random() < 0.1:
                    plan.append((f"o{k}", "load", rk, "-", -1, [-1, -1]))
                elif rng.random() < 0.8:
                    l0 = rng.choice([1, 2, 2])
                    plan.append((f"o{k}", "unprotect", rk, sd, l0, list(rng.choice(pool) if l0 == 2 else (rng.randrange(32), rng.randrange(32)))))
                else:
                    plan.append((f"o{k}", "protect", rng.choice([rk, NORK]), sd, -1, [-1, -1]))
            plans.append(plan)
        evs = play_threads(ctx.seed * 7919 + i, now, plans)
        rows.append({"id": base_id + i, "now": list(now), "nowl0": 2, "defrk": "rk1", "events": evs, "source": "threads", "hist": plans})
        ctx.distinct(("threads", i))
    return rows


# ---- behaviour sources ------------------------------------------------------------------------
def _write_mc_cfg(ctx: Ctx, name: str, **kw: str) -> str:
    base = {
        "RootKeys": "MC_Rk1", "SDs": "MC_SD2", "L0s": "MC_L0s", "Positions": "MC_Pos3", "Ops": "MC_Ops3",
        "Clock": "MC_ClockFixed", "ReplyKinds": "MC_Seed", "SyncFlavours": "MC_Async",
    }
    lit = {"DefaultRk": '"rk1"', "LaterReplies": "FALSE", "Cancels": "FALSE"}
    for k, v in kw.items():
        if k in base:
            base[k] = v
        elif k in lit:
            lit[k] = v
    emit = kw.get("emit", "")
    text = "".join(f"CONSTANT {k} <- {v}\n" for k, v in base.items()) + "".join(f"CONSTANT {k} = {v}\n" for k, v in lit.items())
    text += "INIT Init\nNEXT Next\nCHECK_DEADLOCK FALSE\n"
    if emit:
        text += "CONSTRAINT Emit\n"
    else:
        text += ("VIEW view\nINVARIANT TypeOK\nINVARIANT EnvCovers\nINVARIANT Transparent\nINVARIANT RootKeyDecrypts\nINVARIANT CacheWellFormed\n"
                 "INVARIANT ObtainedIsCached\nPROPERTY NoRepeatRpc\nPROPERTY RootKeyIsOffline\nPROPERTY CacheMonotone\nPROPERTY FailedCallsLeaveCacheUnchanged\n")
    p = ctx.rundir / name
    p.write_text(text)
    return str(p)


def _model_check(ctx: Ctx) -> None:
    runs = [("async, seed replies at requested position, 3 ops x 2 SDs x 2 L0 x 3 positions", {}),
            ("sync+async, seed or public-key replies, later positions, 2 ops, 2 root keys",
             dict(Ops="MC_Ops2", RootKeys="MC_Rk2", ReplyKinds="MC_Both", LaterReplies="TRUE", SyncFlavours="MC_SyncAsync", Positions="MC_Pos5",
                  **({} if ctx.thorough else {"SDs": "MC_SD1"})))]
    runs.append(("moving clock across an L0 boundary, sync+async, 2 ops, seed or public-key replies",
                 dict(Ops="MC_Ops2", SDs="MC_SD1", Clock="MC_ClockMoving", ReplyKinds="MC_Both", SyncFlavours="MC_SyncAsync", Positions="MC_Pos5")))
    runs.append(("GetKey failures and cancellation of suspended async calls, 2 ops", dict(Ops="MC_Ops2", SDs="MC_SD1", ReplyKinds="MC_Faulty", Cancels="TRUE")))
    if ctx.thorough:
        runs.append(("GetKey failures and cancellation, 3 ops", dict(SDs="MC_SD1", ReplyKinds="MC_Faulty", Cancels="TRUE")))
        runs.append(("async, later replies, 3 ops, 5 positions, 1 SD", dict(SDs="MC_SD1", LaterReplies="TRUE", Positions="MC_Pos5")))
        runs.append(("moving clock, async, 3 ops, 1 SD", dict(SDs="MC_SD1", Clock="MC_ClockMoving", Positions="MC_Pos3")))
    for k, (what, kw) in enumerate(runs):
        cfg = _write_mc_cfg(ctx, f"mc{k}.cfg", **kw)
        r = run_tlc("MC_KeyCache", cfg, rundir=ctx.rundir, heap=ctx.pick("6g", "16g"), timeout=3400, tag=f"mc{k}")
        require_ok(r, f"KeyCache model check: {what}")
        ctx.add_tlc(r, f"KeyCache all interleavings: {what}; EnvCovers, Transparent, NoRepeatRpc, RootKeyIsOffline, CacheMonotone, CacheWellFormed")
    live = ctx.rundir / "live.cfg"
    live.write_text(
        "CONSTANT RootKeys <- MC_Rk1\nCONSTANT SDs <- MC_SD1\nCONSTANT L0s <- MC_L0s\nCONSTANT Positions <- MC_Pos3\nCONSTANT Ops <- MC_Ops2\n"
        "CONSTANT Clock <- MC_ClockMoving\nCONSTANT ReplyKinds <- MC_Both\nCONSTANT SyncFlavours <- MC_SyncAsync\n"
        "CONSTANT DefaultRk = \"rk1\"\nCONSTANT LaterReplies = FALSE\nCONSTANT Cancels = FALSE\nSPECIFICATION Spec\nVIEW view\nPROPERTY EventuallyDone\nCHECK_DEADLOCK FALSE\n")
    r = run_tlc("MC_KeyCache", str(live), rundir=ctx.rundir, heap="3g", tag="live")
    require_ok(r, "KeyCache liveness: every begun call completes (WF on DcReply/Finish)")
    ctx.add_tlc(r, "KeyCache liveness []<>AllDone, 2 ops")


def _emit_behaviours(ctx: Ctx, n: int) -> list[tuple[tuple[int, int], list]]:
    out = []
    variants = [dict(emit="1", SyncFlavours="MC_SyncAsync", ReplyKinds="MC_Both", LaterReplies="TRUE", RootKeys="MC_Rk2", Positions="MC_Pos5"),
                dict(emit="1", SyncFlavours="MC_Async", ReplyKinds="MC_Seed", LaterReplies="FALSE", RootKeys="MC_Rk1", Positions="MC_Pos3"),
                dict(emit="1", SyncFlavours="MC_SyncAsync", ReplyKinds="MC_Both", LaterReplies="FALSE", RootKeys="MC_Rk1", SDs="MC_SD1", Positions="MC_Pos5",
                     Clock="MC_ClockMoving"),
                dict(emit="1", SyncFlavours="MC_SyncAsync", ReplyKinds="MC_Faulty", Cancels="TRUE", RootKeys="MC_Rk1", SDs="MC_SD1", Positions="MC_Pos3")]
    for k, kw in enumerate(variants):
        cfg = _write_mc_cfg(ctx, f"emit{k}.cfg", **kw)
        r = run_tlc("MC_KeyCache", cfg, rundir=ctx.rundir, workers=4, simulate=f"num={n // len(variants)}", depth=14,
                    seed=ctx.seed * 7 + k + 1, timeout=900, tag=f"emit{k}")
        if r.errors:
            raise MachineryError(f"behaviour emission failed: {r.errors[:3]} {r.out[-800:]}")
        for h in r.cases("CASE"):
            out.append(((10, 0), h) if kw.get("Clock") != "MC_ClockMoving" else ((1, (31, 31)), h))
        ctx.cov["tlc_runs"].append({"what": f"behaviour emission (simulate) variant {k}", "module": "MC_KeyCache", "behaviours": len(out), "wall_s": round(r.wall, 1)})
    # every interleaving of 3 concurrent unprotects on ONE (root key, SD, L0) triple over cross-ordered positions
    # ((5,31) vs (10,0): smaller L1, larger L2), reduced to begin/finish order (reply delivered right before finish)
    cfg = _write_mc_cfg(ctx, "emit-conc.cfg", emit="1", SDs="MC_SD1", L0s="MC_L0now", Positions="MC_Pos3")
    with open(cfg, "a") as f:
        f.write("CONSTRAINT OnlyConcurrentUnprotects\n")
    r = run_tlc("MC_KeyCache", cfg, rundir=ctx.rundir, workers=8, timeout=1800, tag="emitconc", heap="6g")
    if r.errors:
        raise MachineryError(f"behaviour emission (concurrent) failed: {r.errors[:3]} {r.out[-800:]}")
    classes: dict = {}
    for h in r.cases("CASE"):
        if sum(1 for e in h if e[0] == "begin") < 3:
            continue
        key = tuple((e[0], e[1], tuple(e[6]) if e[0] == "begin" else None) for e in h if e[0] in ("begin", "finish"))
        if key in classes:
            continue
        replies = {e[1]: e for e in h if e[0] == "reply"}
        canon = []
        for e in h:
            if e[0] == "begin":
                canon.append(e)
            elif e[0] == "finish":
                if e[1] in replies:
                    canon.append(replies[e[1]])
                canon.append(e)
        classes[key] = canon
    conc = sorted(classes.values(), key=lambda x: json.dumps(x))
    ctx.cov["tlc_runs"].append({"what": "all interleavings of 3 concurrent unprotects on one triple (begin/finish order classes)", "module": "MC_KeyCache",
                                "classes": len(conc), "wall_s": round(r.wall, 1)})
    ctx.cov["states"] += r.distinct
    ctx.cov["transitions"] += r.generated
    if not ctx.thorough:
        # quick: exhaustive up to renaming of the (interchangeable) calls, restricted to classes in which two calls overlap
        # in time and at least two positions occur; sequential / single-position classes are covered by the simulated behaviours
        def canon(h: list) -> tuple:
            m: dict = {}
            k = []
            for e in h:
                if e[0] in ("begin", "finish"):
                    m.setdefault(e[1], len(m))
                    k.append((e[0], m[e[1]], tuple(e[6]) if e[0] == "begin" else None))
            return tuple(k)

        def interesting(k: tuple) -> bool:
            open_, ov = set(), False
            for e in k:
                if e[0] == "begin":
                    ov = ov or bool(open_)
                    open_.add(e[1])
                else:
                    open_.discard(e[1])
            return ov and len({e[2] for e in k if e[0] == "begin"}) >= 2

        reps: dict = {}
        for h in conc:
            k = canon(h)
            if interesting(k):
                reps.setdefault(k, h)
        conc = [reps[k] for k in sorted(reps)]
        ctx.cov["concurrency_classes_up_to_symmetry"] = len(conc)
    out = [((10, 0), h) for h in conc] + out
    seen = set()
    uniq = []
    for now, h in out:
        k = json.dumps(h)
        if k not in seen:
            seen.add(k)
            uniq.append((now, h))
    return uniq


def _random_histories(ctx: Ctx, n: int) -> list[tuple[tuple[int, int], list]]:
    """code -> spec direction: randomized drivers over the whole lattice of positions."""
    out = []
    rng = ctx.rng
    for _ in range(n):
        now = (rng.randrange(32), rng.randrange(32)) if rng.random() < 0.7 else rng.choice([(31, 31), (0, 0), (31, 0), (0, 31), (30, 31)])
        focus = (rng.choice(["rk1", "rk2"]), rng.choice(["sdA", "sdB"]), rng.choice([1, 2])) if rng.random() < 0.7 else None
        ops = [f"o{i+1}" for i in range(rng.randrange(2, 6))]
        pool = [(rng.randrange(32), rng.randrange(32)) for _ in range(3)] + [(31, 31), (0, 0), now]
        hist: list = []
        cur_now_l0 = [2]
        now0 = now
        pending: dict[str, str] = {}
        todo = list(ops)
        loads = [rk for rk in ("rk1", "rk2") if rng.random() < 0.5]
        while todo or pending:
            choices = []
            if rng.random() < 0.15 and len([e for e in hist if e[0] == "tick"]) < 4:
                # time passes: later position in the same L0, or the first/any interval of the next L0
                cur_l0 = next((e[1] for e in reversed(hist) if e[0] == "tick"), 2)
                cur = next((tuple(e[2]) for e in reversed(hist) if e[0] == "tick"), now)
                if cur_l0 < 3 and rng.random() < 0.4:
                    nxt = (cur_l0 + 1, rng.choice([(0, 0), (0, 1), (rng.randrange(32), rng.randrange(32))]))
                else:
                    later = [(a, b) for a in range(cur[0], 32) for b in range(32) if (a, b) > cur]
                    nxt = (cur_l0, later[0] if rng.random() < 0.5 else rng.choice(later)) if later else None   # often the adjacent interval
                if nxt and not any(k.endswith("#") for k in pending) and not any(v == "sync" for v in pending.values()):
                    hist.append(["tick", nxt[0], list(nxt[1])])
                    now = nxt[1]
                    cur_now_l0[0] = nxt[0]
                    continue
            if todo:
                choices.append("begin")
            if pending:
                choices.append("step")
            if loads:
                choices.append("load")
            c = rng.choice(choices)
            if c == "load":
                hist.append(["load", loads.pop()])
            elif c == "begin":
                o = todo.pop(0)
                sync = rng.random() < 0.25
                if rng.random() < 0.75:
                    l0 = focus[2] if focus else rng.choice([1, 2])
                    l0 = min(l0, cur_now_l0[0])
                    cand = [p for p in pool if l0 < cur_now_l0[0] or p <= now]
                    pos = rng.choice(cand) if cand else (0, 0)
                    if l0 == cur_now_l0[0] and pos > now:
                        pos = now
                    hist.append(["begin", o, "unprotect", focus[0] if focus else rng.choice(["rk1", "rk2"]), focus[1] if focus else rng.choice(["sdA", "sdB"]), l0, list(pos), sync])
                    later_ok = [q for q in pool + [(31, 31)] if q >= pos and (l0 < cur_now_l0[0] or q <= now)]
                    q = rng.choice(later_ok) if later_ok and rng.random() < 0.5 else pos
                else:
                    hist.append(["begin", o, "protect", (focus[0] if focus and rng.random() < 0.7 else rng.choice(["rk1", "rk2", NORK])), (focus[1] if focus else rng.choice(["sdA", "sdB"])), -1, [-1, -1], sync])
                    q = now
                kind = "pub" if rng.random() < 0.15 else ("err" if rng.random() < 0.08 else "rpc")
                if sync:
                    hist.append(["reply", o, kind, list(q)])
                    hist.append(["finish", o])
                else:
                    pending[o] = "await"
                    desc_q = (kind, list(q))
                    pending[o + "#"] = desc_q  # type: ignore
            else:
                o = rng.choice([k for k in pending if not k.endswith("#")])
                if rng.random() < 0.06:
                    hist.append(["cancel", o])
                    del pending[o]
                    del pending[o + "#"]
                    continue
                if pending[o] == "await":
                    kind, q = pending[o + "#"]  # type: ignore
                    hist.append(["reply", o, kind, q])
                    pending[o] = "replied"
                else:
                    hist.append(["finish", o])
                    del pending[o]
                    del pending[o + "#"]
        out.append((now0, hist))
    return out


def _play_job(job: tuple) -> list[dict]:
    return play(*job)


def _run_histories(ctx: Ctx, hs: list[tuple[tuple[int, int], list]], base_id: int, source: str) -> list[dict]:
    """Each history is played against its own World (own KeyCache, own reference DC): histories are independent, so
    they are played in forked worker processes (the derivation graph is exported before forking)."""
    import concurrent.futures as cf
    import multiprocessing as mp
    import os

    hashes = ["SHA512", "SHA256", "SHA1", "SHA384"]
    jobs, metas = [], []
    for i, (now, hist) in enumerate(hs):
        now_l0 = 2
        if isinstance(now[1], (tuple, list)):
            now_l0, now = now[0], tuple(now[1])
        jobs.append((ctx.seed * 100003 + base_id + i, now, hist, hashes[(i + ctx.seed) % 4], now_l0))
        metas.append((now, now_l0, hist))
    from .. import gkdiref
    gkdiref.graph(ctx)
    nproc = max(1, min(12, (os.cpu_count() or 2) - 2, int(os.environ.get("VERIF_PLAY_PROCS", "12"))))
    if nproc == 1 or len(jobs) < 8:
        results = [_play_job(j) for j in jobs]
    else:
        with cf.ProcessPoolExecutor(max_workers=nproc, mp_context=mp.get_context("fork")) as ex:
            results = list(ex.map(_play_job, jobs, chunksize=8))
    rows = []
    for i, (evs, (now, now_l0, hist)) in enumerate(zip(results, metas)):
        rows.append({"id": base_id + i, "now": list(now), "nowl0": now_l0, "defrk": "rk1", "events": evs, "source": source, "hist": hist})
        ctx.distinct(json.dumps(hist))
    return rows


def _judge(ctx: Ctx, rows: list[dict], bad: dict) -> None:
    by = {r["id"]: r for r in rows}
    for i, clauses in list(bad.items()):
        r = by[i]
        ext = [c for c in clauses if c.startswith("EXT_")]
        for c in ext:
            ctx.note_drift("extended_behaviour:" + c)
        clauses = [c for c in clauses if not c.startswith("EXT_")]
        if r.get("source") == "threads":
            # thread-level sharing of a KeyCache is outside the property's quantifier (sequences and asyncio interleavings):
            # explored and reported, never a VIOLATION (a lost update between two threads would be timing dependent)
            for c in clauses:
                if not c.startswith("MACHINERY"):
                    ctx.note_drift("extended_behaviour:EXT_threads_" + c)
            continue
        if not clauses:
            continue
        if any(c.startswith("MACHINERY") for c in clauses):
            raise MachineryError(f"trace rejected for a machinery reason {clauses}: {json.dumps(r)[:1500]}")
        ends = [e["res"] for e in r["events"] if e["ev"] == "end" and e["res"] not in ("plain_ok", "blob_ok")]
        key = f"cache:{clauses[0]}:{ends[0] if ends else '-'}"
        ctx.violation(key, ",".join(clauses), {"now": r["now"], "nowl0": r["nowl0"], "hist": r["hist"], "events": r["events"]},
                      f"history ({r['source']}): {json.dumps(r['hist'])[:700]}")


def run(ctx: Ctx) -> int:
    _model_check(ctx)
    refdc.ensure_ntlm_users()
    emitted = _emit_behaviours(ctx, ctx.pick(1200, 12000))
    emitted = emitted[: ctx.pick(820, 9000)]
    rows = _run_histories(ctx, emitted, 0, "tlc-behaviour")
    rnd = _random_histories(ctx, ctx.pick(280, 6000))
    rows += _run_histories(ctx, rnd, 1_000_000, "random-driver")
    rows += _thread_histories(ctx, ctx.pick(24, 600), 2_000_000)
    ctx.count(len(rows))
    slim = [{k: r[k] for k in ("id", "now", "nowl0", "defrk", "events")} for r in rows]
    bad, stats = validate(ctx, "TraceCache", "TraceCache.cfg", slim, chunk=ctx.pick(150, 600), what="hist")
    _judge(ctx, rows, bad)
    ctx.note_drift("rpc_choice_differs_from_design_model_but_not_forbidden", sum(s.get("drift", 0) for s in stats))
    ctx.cov["events_validated"] = sum(s.get("events", 0) for s in stats)
    for r in rows[:2] + rows[-1:]:
        ctx.sample({"hist": r["hist"], "events": r["events"][:12]})
    ctx.assume("GetKey requests are observed at the reference DC (own codec), results judged with the reference KEK (evaluator)")
    ctx.assume("asyncio interleaving points: delivery of the GetKey response and tear-down of the ISD_KEY connection (the only awaits between lookup and store)")
    from .. import faultsim
    faultsim.check(ctx, "C10")   # the same statement through the public API: peer faults at every step of the online conversation (OnlineFaults.tla)
    return ctx.finish(
        rule="histories = TLC-simulated behaviours of KeyCache.tla (replayed step by step into the real sync/async API with one shared "
        "KeyCache, reference DC behind the scripted transport) + randomized histories over the full position lattice; every "
        "history's recorded events are folded through KeyCache's operators by TraceCache (TLC); distinct = distinct histories",
    )


def selftest(ctx: Ctx) -> int:
    refdc.ensure_ntlm_users()
    hs = _random_histories(ctx, 25)
    rows = _run_histories(ctx, hs, 0, "selftest")
    good = [{k: r[k] for k in ("id", "now", "nowl0", "defrk", "events")} for r in rows if any(e["ev"] == "rpc" for e in r["events"])][:12]
    bad = []
    for k, r in enumerate(good):
        c = json.loads(json.dumps(r))
        if k % 2 == 0:
            for e in c["events"]:
                if e["ev"] == "rpc":
                    e["pos"] = [(e["pos"][0] + 1) % 32, e["pos"][1]] if e["pos"][0] >= 0 else [3, 3]
                    break
        else:
            for e in c["events"]:
                if e["ev"] == "end" and e["res"] in ("plain_ok", "blob_ok"):
                    e["res"] = "plain_wrong" if e["res"] == "plain_ok" else "blob_bad"
                    break
        bad.append(c)
    from ..tracecheck import selftest_expect_reject

    selftest_expect_reject(ctx, "TraceCache", "TraceCache.cfg", good, bad, "c10")
    print("selftest C10 ok: corrupted GetKey argument / corrupted result are rejected")
    return 0


def replay(ctx: Ctx, rec: dict) -> int:
    """Re-execute a recorded history on the current tree and re-judge it with TraceCache."""
    refdc.ensure_ntlm_users()
    case = rec["case"]
    evs = play(12345, tuple(case["now"]), case["hist"])
    row = {"id": 0, "now": case["now"], "nowl0": case.get("nowl0", 2), "defrk": "rk1", "events": evs}
    bad, _ = validate(ctx, "TraceCache", "TraceCache.cfg", [row], what="replay")
    for e in evs:
        print(json.dumps(e))
    if bad:
        print(f"VIOLATION property=C10 replay={REPLAY_PATH or '-'}")
        print("  clause:", ",".join(bad[0]))
        return 1
    print("[C10] replayed history accepted on the current tree")
    return 0


REPLAY_PATH = ""
