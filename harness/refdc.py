"""Reference domain controller: an in-process MS-RPCE / endpoint mapper / MS-GKDI server.

Independent of dpapi_ng: its own struct-based codec written from C706 / MS-RPCE / MS-GKDI,
a real pyspnego acceptor (NTLM, or SPNEGO-wrapped NTLM) for the security context, GetKey
implemented from the TLC-exported derivation graph (gkdiref.KeySet).

It decodes everything the client sends into an abstract transcript (list of dict events) that
the Trace*.tla modules validate, and it is the peer for replay drivers.
"""
from __future__ import annotations

import asyncio
import os
import struct
import tempfile
import typing as t
import uuid

from . import evaluator as ev
from .gkdiref import KeySet, kdf_parameters

# ---- constants (from the protocol documents) -------------------------------------------------
EMPTY_REPLY_OPNUM = 77       # reference DC: an extra operation whose reply has an empty stub
PT_REQUEST, PT_RESPONSE, PT_FAULT, PT_BIND, PT_BIND_ACK, PT_BIND_NAK, PT_ALTER, PT_ALTER_RESP = 0, 2, 3, 11, 12, 13, 14, 15
PFC_FIRST, PFC_LAST, PFC_SIGN, PFC_OBJECT = 0x01, 0x02, 0x04, 0x80
NDR = (uuid.UUID("8a885d04-1ceb-11c9-9fe8-08002b104860"), 2, 0)
NDR64 = (uuid.UUID("71710533-beba-4937-8319-b5dbef9ccc36"), 1, 0)
EPM_IF = (uuid.UUID("e1af8308-5d1f-11c9-91a4-08002b14a0fa"), 3, 0)
ISD_KEY = (uuid.UUID("b9785960-524f-11df-8b6d-83dcded72085"), 1, 0)
BTFN_PREFIX = uuid.UUID("6cb71c2c-9812-4540-0000-000000000000").bytes_le[:8]
VT_SIG = bytes.fromhex("8ae3137102f43671")
RFC5114_P = int(
    "87A8E61DB4B6663CFFBBD19C651959998CEEF608660DD0F25D2CEED4435E3B00E00DF8F1D61957D4FAF7DF4561B2AA30"
    "16C3D91134096FAA3BF4296D830E9A7C209E0C6497517ABD5A8A9D306BCF67ED91F9E6725B4758C022E0B1EF4275BF7B"
    "6C5BFC11D45F9088B941F54EB1E59BB8BC39A0BF12307F5C4FDB70C581B23F76B63ACAE1CAA6B7902D52526735488A0E"
    "F13C6D9A51BFA4AB3AD8347796524D8EF6A167B5A41825D967E144E5140564251CCACB83E6B486F6B3CA3F7971506026"
    "C0B857F689962856DED4010ABD0BE621C3A3960A54E710C375F26375D7014103A4B54330C198AF126116D2276E11715F"
    "693877FAD7EF09CADB094AE91E1A1597", 16)
RFC5114_G = int(
    "3FB32C9B73134D0B2E77506660EDBD484CA7B18F21EF205407F4793A1A0BA12510DBC15077BE463FFF4FED4AAC0BB555"
    "BE3A6C1B0C6B47B1BC3773BF7E8C6F62901228F8C28CBB18A55AE31341000A650196F931C77A57F2DDF463E5E9EC144B"
    "777DE62AAAB8A8628AC376D282D6ED3864E67982428EBC831D14348F6F2F9193B5045AF2767164E1DFC967C1FB3F2E55"
    "A4BD1BFFE83B9C80D052B985D182EA0ADB2A3B7313D3FE14C8484B1E052588B9B7D2BBD2DF016199ECD06E1557CD0915"
    "B3353BBB64E0EC377FD028370DF92B52C7891428CDC67EB6184B523D1DB246C32F63078490F00EF8D647D148D4795451"
    "5E2327CFEF98C582664B4C0F6CC41659", 16)

DOMAIN, USER, PASSWORD = "VERIF", "alice", "Passw0rd!"
import contextvars

CURRENT_OP: contextvars.ContextVar = contextvars.ContextVar("verif_current_op", default=None)
_NTLM_READY = False


def ensure_ntlm_users() -> None:
    """pyspnego's NTLM acceptor reads credentials from the file named by NTLM_USER_FILE."""
    global _NTLM_READY
    if _NTLM_READY:
        return
    d = tempfile.mkdtemp(prefix="verif-ntlm-")
    import atexit
    import shutil
    atexit.register(shutil.rmtree, d, True)
    p = os.path.join(d, "users")
    with open(p, "w") as f:
        f.write(f"{DOMAIN}:{USER}:{PASSWORD}\n")
    os.environ["NTLM_USER_FILE"] = p
    _NTLM_READY = True


def syntax_bytes(s: tuple) -> bytes:
    return s[0].bytes_le + struct.pack("<HH", s[1], s[2])


def parse_syntax(b: bytes) -> tuple:
    return (uuid.UUID(bytes_le=bytes(b[:16])), *struct.unpack("<HH", b[16:20]))


# ---- PDU codec ---------------------------------------------------------------------------------
def pdu_header(ptype: int, flags: int, frag_len: int, auth_len: int, call_id: int) -> bytes:
    return struct.pack("<BBBB4sHHI", 5, 0, ptype, flags, b"\x10\x00\x00\x00", frag_len, auth_len, call_id)


def parse_header(b: bytes) -> dict:
    v, vm, pt, fl, drep, frag, alen, call = struct.unpack("<BBBB4sHHI", b[:16])
    return {"ver": v, "minor": vm, "ptype": pt, "flags": fl, "drep": drep, "frag_len": frag, "auth_len": alen, "call_id": call}


def sec_trailer(auth_type: int, level: int, pad: int, ctx_id: int, value: bytes) -> bytes:
    return struct.pack("<BBBBI", auth_type, level, pad, 0, ctx_id) + value


def finish_pdu(ptype: int, flags: int, call_id: int, body: bytes, trailer: bytes = b"") -> bytes:
    auth_len = len(trailer) - 8 if trailer else 0
    total = 16 + len(body) + len(trailer)
    return pdu_header(ptype, flags, total, auth_len, call_id) + body + trailer


def split_pdu(pdu: bytes) -> tuple[dict, bytes, t.Optional[dict]]:
    """-> header, body (between header and auth verifier), auth verifier or None."""
    h = parse_header(pdu)
    body = pdu[16 : h["frag_len"]]
    auth = None
    if h["auth_len"]:
        tr = body[-(h["auth_len"] + 8) :]
        body = body[: -(h["auth_len"] + 8)]
        at, lvl, pad, rsv, cid = struct.unpack("<BBBBI", tr[:8])
        auth = {"type": at, "level": lvl, "pad": pad, "reserved": rsv, "ctx": cid, "value": tr[8:], "raw8": tr[:8]}
    return h, body, auth


def parse_bind_body(body: bytes) -> dict:
    mx, mr, ag = struct.unpack("<HHI", body[:8])
    n = body[8]
    off = 12
    ctxs = []
    for _ in range(n):
        cid, nts = struct.unpack("<HB", body[off : off + 3])
        abstract = parse_syntax(body[off + 4 : off + 24])
        off += 24
        ts = []
        for _ in range(nts):
            ts.append(parse_syntax(body[off : off + 20]))
            off += 20
        ctxs.append({"id": cid, "abstract": abstract, "transfer": ts})
    return {"max_xmit": mx, "max_recv": mr, "assoc": ag, "contexts": ctxs, "consumed": off, "trailing": len(body) - off}


def bind_ack_body(results: list[tuple[int, int, tuple]], sec_addr: str = "", assoc: int = 0x1234) -> bytes:
    sa = (sec_addr.encode() + b"\x00") if sec_addr else b""
    v = len(sa) + 3 * len(results) + sum(r[0] for r in results)
    frag = (5840, 4280, 0xFFFF, 1432)[v % 4]          # max_xmit_frag / max_recv_frag and the association group are the server's choice
    b = struct.pack("<HHI", frag, frag, assoc if assoc != 0x1234 else (0x1234 + 977 * v) & 0xFFFFFFFF) + struct.pack("<H", len(sa)) + sa
    b += b"\x00" * (-(2 + len(sa)) % 4)
    b += struct.pack("<BBH", len(results), 0, 0)
    for res, reason, syn in results:
        b += struct.pack("<HH", res, reason) + syntax_bytes(syn)
    return b


def parse_request_body(h: dict, body: bytes) -> dict:
    alloc, cid, opnum = struct.unpack("<IHH", body[:8])
    off = 8
    obj = None
    if h["flags"] & PFC_OBJECT:
        obj = uuid.UUID(bytes_le=body[8:24])
        off = 24
    return {"alloc_hint": alloc, "ctx": cid, "opnum": opnum, "obj": obj, "stub": body[off:], "stub_off": 16 + off}


def response_body(stub: bytes, ctx: int = 0, alloc: t.Optional[int] = None) -> bytes:
    return struct.pack("<IHBB", len(stub) if alloc is None else alloc, ctx, 0, 0) + stub


def fault_body(status: int, ctx: int = 0) -> bytes:
    return struct.pack("<IHBBII", 0, ctx, 0, 0, status, 0)


def bind_nak_body(reason: int = 0) -> bytes:
    return struct.pack("<HBBB", reason, 1, 5, 0) + b"\x00" * 3


# ---- endpoint mapper ---------------------------------------------------------------------------
def floor(proto: int, lhs: bytes, rhs: bytes) -> bytes:
    return struct.pack("<HB", len(lhs) + 1, proto) + lhs + struct.pack("<H", len(rhs)) + rhs


def uuid_floor(s: tuple) -> bytes:
    return floor(0x0D, s[0].bytes_le + struct.pack("<H", s[1]), struct.pack("<H", s[2]))


def tcp_tower(iface: tuple, port: int, addr: bytes = b"\x00\x00\x00\x00") -> list[bytes]:
    return [uuid_floor(iface), uuid_floor(NDR), floor(0x0B, b"", b"\x00\x00"), floor(0x07, b"", struct.pack(">H", port)), floor(0x09, b"", addr)]


def tower_octets(floors: list[bytes]) -> bytes:
    return struct.pack("<H", len(floors)) + b"".join(floors)


def parse_tower_octets(b: bytes) -> list[dict]:
    n = struct.unpack("<H", b[:2])[0]
    off = 2
    out = []
    for _ in range(n):
        ll = struct.unpack("<H", b[off : off + 2])[0]
        proto = b[off + 2]
        lhs = b[off + 3 : off + 2 + ll]
        off += 2 + ll
        rl = struct.unpack("<H", b[off : off + 2])[0]
        rhs = b[off + 2 : off + 2 + rl]
        off += 2 + rl
        out.append({"proto": proto, "lhs": bytes(lhs), "rhs": bytes(rhs)})
    return out


def parse_ept_map_request(stub: bytes) -> dict:
    """NDR64: [ptr] UUID* obj; [ptr] twr_p_t map_tower; ept_lookup_handle_t (20); ULONG max_towers."""
    ref_obj = struct.unpack("<Q", stub[:8])[0]
    off = 8
    obj = None
    if ref_obj:
        obj = bytes(stub[8:24])
        off = 24
    ref_tw = struct.unpack("<Q", stub[off : off + 8])[0]
    off += 8
    floors = []
    tl = 0
    if ref_tw:
        maxc = struct.unpack("<Q", stub[off : off + 8])[0]
        tl = struct.unpack("<I", stub[off + 8 : off + 12])[0]
        floors = parse_tower_octets(stub[off + 12 : off + 12 + tl])
        off += 12 + tl
        off += -off % 8 if False else (-(tl + 4) % 8)
        tower_ok = maxc == tl
    else:
        tower_ok = False
    handle = bytes(stub[off : off + 20])
    max_towers = struct.unpack("<I", stub[off + 20 : off + 24])[0]
    return {"obj": obj, "obj_ref": ref_obj, "tower_ref": ref_tw, "floors": floors, "tower_len_ok": tower_ok,
            "handle": handle, "max_towers": max_towers, "consumed": off + 24, "total": len(stub)}


def ept_map_response(towers: list[bytes], status: int = 0, announced: t.Optional[int] = None) -> bytes:
    """towers: list of tower octet strings.  NDR64 layout (MS-RPCE 2.2.1.2.5)."""
    n = len(towers) if announced is None else announced
    v = len(towers) + sum(len(x) for x in towers) + status
    # entry_handle (ept_lookup_handle_t: attributes + uuid) is null or an arbitrary context handle; referent ids are arbitrary non-zero values
    handle = b"\x00" * 20 if v % 2 == 0 else struct.pack("<I", 0) + bytes((17 * v + 3 * i + 1) & 0xFF for i in range(16))
    b = handle + struct.pack("<I", len(towers))
    b += struct.pack("<QQQ", _referent(v) if towers or v % 3 else 4, 0, n)
    for i in range(len(towers)):
        b += struct.pack("<Q", (3 + i) if v % 4 < 2 else (0x20000 + 4 * i))
    for tw in towers:
        b += struct.pack("<QI", len(tw), len(tw)) + tw + b"\x00" * (-(len(tw) + 4) % 8)
    return b + struct.pack("<I", status)


# ---- MS-GKDI structures -------------------------------------------------------------------------
def group_key_envelope(flags: int, l0: int, l1: int, l2: int, rkid: uuid.UUID, kdf_alg: str, kdf_params: bytes,
                       sec_alg: str, sec_params: bytes, priv_len: int, pub_len: int, domain: str, forest: str,
                       l1_key: bytes, l2_key: bytes, version: int = 1) -> bytes:
    ka, sa, dn, fn = ev.utf16z(kdf_alg), ev.utf16z(sec_alg), ev.utf16z(domain), ev.utf16z(forest)
    return b"".join([
        struct.pack("<I", version), b"KDSK", struct.pack("<IIII", flags, l0, l1, l2), rkid.bytes_le,
        struct.pack("<IIIIIIIIII", len(ka), len(kdf_params), len(sa), len(sec_params), priv_len, pub_len,
                    len(l1_key), len(l2_key), len(dn), len(fn)),
        ka, kdf_params, sa, sec_params, dn, fn, l1_key, l2_key])


def ffc_dh_parameters(key_len: int, p: int, g: int) -> bytes:
    return struct.pack("<I", 12 + 2 * key_len) + b"DHPM" + struct.pack("<I", key_len) + p.to_bytes(key_len, "big") + g.to_bytes(key_len, "big")


def ffc_dh_key(key_len: int, p: int, g: int, y: int) -> bytes:
    return b"DHPB" + struct.pack("<I", key_len) + p.to_bytes(key_len, "big") + g.to_bytes(key_len, "big") + y.to_bytes(key_len, "big")


def ecdh_key(curve: str, x: int, y: int) -> bytes:
    c = ev.CURVES[curve]
    magic = {"P256": b"ECK1", "P384": b"ECK3"}[curve]
    return magic + struct.pack("<I", c.size) + x.to_bytes(c.size, "big") + y.to_bytes(c.size, "big")


def parse_get_key_request(stub: bytes) -> dict:
    cb = struct.unpack("<I", stub[:4])[0]
    pad1 = bytes(stub[4:8])
    maxc = struct.unpack("<Q", stub[8:16])[0]
    sd = bytes(stub[16 : 16 + cb])
    off = 16 + cb
    pad2 = bytes(stub[off : off + (-cb % 8)])
    off += -cb % 8
    ref = struct.unpack("<Q", stub[off : off + 8])[0]
    off += 8
    rkid = None
    if ref:
        rkid = uuid.UUID(bytes_le=bytes(stub[off : off + 16]))
        off += 16
    l0, l1, l2 = struct.unpack("<iii", stub[off : off + 12])
    off += 12
    return {"cb": cb, "maxc": maxc, "sd": sd, "rkid": rkid, "ref": ref, "l0": l0, "l1": l1, "l2": l2, "consumed": off,
            "pads_zero": pad1 == b"\x00" * 4 and pad2 == b"\x00" * len(pad2)}


_REFERENTS = (0x20000, 0x20004, 1, 0xFFFFFFFFFFFFFFFF, 0x123456789ABCDEF0, 0x00020000_00000000)


def _referent(v: int) -> int:
    """Referent id of a non-null NDR64 unique pointer: any non-zero value.  The choice is a function of the message's own
    content (v), so the same message is always encoded the same way (replays and baselines stay comparable)."""
    return _REFERENTS[v % len(_REFERENTS)]


def get_key_response(envelope: bytes, hresult: int = 0) -> bytes:
    b = struct.pack("<I", len(envelope)) + b"\x00" * 4
    if envelope:
        b += struct.pack("<QQ", _referent(len(envelope) // 2 + envelope[-1]), len(envelope)) + envelope + b"\x00" * (-len(envelope) % 4)
    else:
        b += struct.pack("<Q", 0)
    return b + struct.pack("<I", hresult)


def parse_verification_trailer(stub: bytes, consumed: int) -> dict:
    off = consumed + (-consumed % 4)
    pad_zero = stub[consumed:off] == b"\x00" * (off - consumed)
    if stub[off : off + 8] != VT_SIG:
        return {"present": False, "offset": off, "pad_zero": pad_zero, "commands": [], "end": off}
    off2 = off + 8
    cmds = []
    while off2 + 4 <= len(stub):
        c, ln = struct.unpack("<HH", stub[off2 : off2 + 4])
        val = bytes(stub[off2 + 4 : off2 + 4 + ln])
        off2 += 4 + ln
        cmd = {"type": c & 0x3FFF, "end": bool(c & 0x4000), "must": bool(c & 0x8000), "len": ln}
        if cmd["type"] == 2 and ln == 40:
            cmd["iface"] = parse_syntax(val[:20])
            cmd["transfer"] = parse_syntax(val[20:40])
        cmds.append(cmd)
        if c & 0x4000:
            break
    return {"present": True, "offset": off, "pad_zero": pad_zero, "commands": cmds, "end": off2}


# ---- the domain controller model -------------------------------------------------------------------
class RootKeyInfo(t.NamedTuple):
    key: bytes
    hash: str = "SHA512"
    secret_alg: str = "DH"          # DH | ECDH_P256 | ECDH_P384
    priv_len_bits: int = 512
    pub_len_bits: int = 2048


class DC:
    """Key service state + configuration shared by all connections of one scenario."""

    def __init__(self) -> None:
        self.root_keys: dict[uuid.UUID, RootKeyInfo] = {}
        self.default_rkid: t.Optional[uuid.UUID] = None
        self.now: tuple[int, int, int] = (361, 10, 10)   # DC clock as (L0, L1, L2)
        self.reply_kind = "seed"      # seed | pubkey
        self.reply_policy = "requested"  # requested | later  (position of the returned seed envelope)
        self.l2_at_31 = "present"     # present | absent
        self.domain = "verif.test"
        self.forest = "verif.test"
        self.isd_port = 49664
        self.header_sign = True
        self.auth = "ntlm"            # ntlm | negotiate
        self.transcript: list[dict] = []
        self.reply_not_last = False     # sealed replies are marked "not the last fragment" (a server that fragments its replies)
        self.alloc_hint = "padded"      # alloc_hint policy of RESPONSE PDUs: "padded" | "unpadded" | "zero" (it is only a hint)
        self.getkey_log: list[dict] = []
        self._tables: dict[tuple, KeySet] = {}
        self.epm_extra_towers: list[bytes] = []
        self.epm_towers_before: list[bytes] = []   # towers without a TCP floor placed first
        self.rng_later = None
        self.name_pad = 0
        self.force_reply: t.Optional[t.Callable[[t.Any, dict], t.Optional[tuple]]] = None

    def add_root_key(self, rkid: uuid.UUID, info: RootKeyInfo, default: bool = True) -> None:
        self.root_keys[rkid] = info
        if default or self.default_rkid is None:
            self.default_rkid = rkid

    def keyset(self, rkid: uuid.UUID, sd: bytes, l0: int) -> KeySet:
        k = (rkid, sd, l0)
        if k not in self._tables:
            info = self.root_keys[rkid]
            self._tables[k] = KeySet(info.hash, info.key, rkid, sd, l0)
        return self._tables[k]

    def secret_params(self, info: RootKeyInfo) -> bytes:
        if info.secret_alg == "DH":
            return ffc_dh_parameters(256, RFC5114_P, RFC5114_G)
        return b""

    def public_key_for(self, info: RootKeyInfo, l2_key: bytes) -> bytes:
        priv = ev.priv_from_seed(info.hash, l2_key, info.secret_alg, -(-info.priv_len_bits // 8))
        x = int.from_bytes(priv, "big")
        if info.secret_alg == "DH":
            return ffc_dh_key(256, RFC5114_P, RFC5114_G, pow(RFC5114_G, x, RFC5114_P))
        curve = info.secret_alg.split("_")[1]
        c = ev.CURVES[curve]
        P = ev.ec_mul(c, x, (c.gx, c.gy))
        return ecdh_key(curve, P[0], P[1])

    def get_key(self, sd: bytes, rkid: t.Optional[uuid.UUID], l0: int, l1: int, l2: int,
                force: t.Optional[tuple] = None) -> tuple[int, bytes, dict]:
        """-> (hresult, envelope bytes, abstract description of the reply).
        force = (kind, (a, b)) lets a replay driver pick the reply a behaviour prescribes."""
        rk = rkid or self.default_rkid
        if rk not in self.root_keys:
            return 0x80070002, b"", {"kind": "error"}
        info = self.root_keys[rk]
        cur = self.now
        if (l0, l1, l2) == (-1, -1, -1):
            pl0, p1, p2 = cur
        else:
            if l0 < 0 or not (0 <= l1 <= 31 and 0 <= l2 <= 31) or (l0, l1, l2) > cur:
                return 0x80070057, b"", {"kind": "error"}
            pl0, p1, p2 = l0, l1, l2
        kind = force[0] if force else self.reply_kind
        if kind == "err":
            return 0x80070005, b"", {"kind": "error"}
        ks = self.keyset(rk, sd, pl0)
        if force and force[1] is not None and (l0, l1, l2) != (-1, -1, -1):
            if tuple(force[1]) < (p1, p2) or (pl0 == cur[0] and tuple(force[1]) > (cur[1], cur[2])):
                raise RuntimeError(f"MACHINERY: forced reply position {force[1]} not conforming for request {(p1, p2)}")
        if kind in ("pubkey", "pub"):
            pub = self.public_key_for(info, ks.l2(p1, p2))
            env = group_key_envelope(1, pl0, p1, p2, rk, "SP800_108_CTR_HMAC", kdf_parameters(info.hash), info.secret_alg,
                                     self.secret_params(info), info.priv_len_bits, info.pub_len_bits,
                                     self.domain, self.forest, b"", pub)
            return 0, env, {"kind": "pubkey", "pos": [p1, p2], "l0": pl0}
        a, b = p1, p2
        if force and force[1] is not None and (l0, l1, l2) != (-1, -1, -1):
            a, b = force[1]
        elif self.reply_policy == "later" and (l0, l1, l2) != (-1, -1, -1):
            hi = (31, 31) if pl0 < cur[0] else (cur[1], cur[2])
            cand = [(x, y) for x in range(a, hi[0] + 1) for y in range(32) if (x, y) >= (a, b) and (x, y) <= hi]
            a, b = cand[(len(self.getkey_log) * 7 + 3) % len(cand)]
        l1k = ks.l1(a) if b == 31 else (ks.l1(a - 1) if a > 0 else b"")
        l2k = ks.l2(a, b)
        if b == 31 and self.l2_at_31 == "absent" and (l0, l1, l2) != (-1, -1, -1):
            l2k = b""
        env = group_key_envelope(0, pl0, a, b, rk, "SP800_108_CTR_HMAC", kdf_parameters(info.hash), info.secret_alg,
                                 self.secret_params(info), info.priv_len_bits, info.pub_len_bits,
                                 self.domain, self.forest, l1k, l2k)
        return 0, env, {"kind": "seed", "pos": [a, b], "l0": pl0, "l1_present": bool(l1k), "l2_present": bool(l2k)}


class Connection:
    """One accepted TCP connection; feed() client bytes, collect reply bytes."""

    def __init__(self, dc: DC, port: int, conn_id: int) -> None:
        self.dc = dc
        self.port = port
        self.id = conn_id
        self.buf = b""
        self.ctx = None            # spnego acceptor
        self.sign_header = False
        self.accepted: dict[int, tuple] = {}
        self.closed = False
        self.auth_type = 0
        self.auth_level = 0
        self.mangle: t.Optional[t.Callable[[str, bytes, "Connection"], bytes]] = None  # adversary hook
        self.tag: t.Any = None
        self.last_sealed_reply: t.Optional[bytes] = None
        self.last_plain_body: t.Optional[bytes] = None

    def log(self, **ev_: t.Any) -> None:
        ev_["conn"] = self.id
        ev_["port"] = self.port
        self.dc.transcript.append(ev_)

    # -- framing
    def feed(self, data: bytes) -> bytes:
        self.buf += data
        out = b""
        while len(self.buf) >= 16:
            fl = struct.unpack("<H", self.buf[8:10])[0]
            if fl < 16 or len(self.buf) < fl:
                break
            pdu, self.buf = self.buf[:fl], self.buf[fl:]
            out += self.on_pdu(pdu)
        return out

    def on_pdu(self, pdu: bytes) -> bytes:
        h, body, auth = split_pdu(pdu)
        if h["ptype"] in (PT_BIND, PT_ALTER):
            reply = self.on_bind(h, body, auth, pdu)
            kind = "bind_ack" if h["ptype"] == PT_BIND else "alter_resp"
        elif h["ptype"] == PT_REQUEST:
            reply = self.on_request(h, body, auth, pdu)
            kind = "response"
        else:
            self.log(ev="unexpected_pdu", ptype=h["ptype"])
            reply = finish_pdu(PT_FAULT, PFC_FIRST | PFC_LAST, h["call_id"], fault_body(0x1C010003))
            kind = "fault"
        if self.mangle:
            reply = self.mangle(kind, reply, self)
        return reply

    # -- bind / alter_context
    def on_bind(self, h: dict, body: bytes, auth: t.Optional[dict], pdu: bytes) -> bytes:
        b = parse_bind_body(body)
        is_bind = h["ptype"] == PT_BIND
        want_iface = EPM_IF if self.port == 135 else ISD_KEY
        results = []
        for c in b["contexts"]:
            ts = c["transfer"]
            if len(ts) == 1 and ts[0][0].bytes_le[:8] == BTFN_PREFIX:
                results.append((3, 0, (uuid.UUID(int=0), 0, 0)))  # negotiate_ack, no features
            elif c["abstract"] == want_iface and NDR64 in ts:
                results.append((0, 0, NDR64))
                self.accepted[c["id"]] = NDR64
            else:
                results.append((2, 2, (uuid.UUID(int=0), 0, 0)))
        client_sign = bool(h["flags"] & PFC_SIGN)
        token_out = b""
        ev_ = {"ev": "bind" if is_bind else "alter_context", "flags": h["flags"], "call_id": h["call_id"],
               "contexts": [{"id": c["id"], "abstract": [str(c["abstract"][0]), c["abstract"][1], c["abstract"][2]],
                             "transfer": [[str(x[0]), x[1], x[2]] for x in c["transfer"]]} for c in b["contexts"]],
               "max_xmit": b["max_xmit"], "max_recv": b["max_recv"], "assoc": b["assoc"], "trailing": b["trailing"],
               "frag_ok": h["frag_len"] == len(pdu), "auth": None, "client_sign": client_sign}
        if auth:
            ev_["auth"] = {"type": auth["type"], "level": auth["level"], "pad": auth["pad"], "ctx": auth["ctx"],
                           "token_len": len(auth["value"]), "auth_len_ok": h["auth_len"] == len(auth["value"])}
            self.auth_type, self.auth_level = auth["type"], auth["level"]
            if self.ctx is None:
                import spnego

                ensure_ntlm_users()
                proto = {9: "negotiate", 10: "ntlm"}.get(auth["type"], "ntlm")
                self.ctx = spnego.server(hostname="dc01", service="host", protocol=proto,
                                         context_req=spnego.ContextReq.default | spnego.ContextReq.dce_style)
            try:
                token_out = self.ctx.step(auth["value"]) or b""
                ev_["auth"]["accepted"] = True
            except Exception as e:  # noqa
                ev_["auth"]["accepted"] = False
                ev_["auth"]["error"] = type(e).__name__
                self.log(**ev_)
                return finish_pdu(PT_FAULT, PFC_FIRST | PFC_LAST, h["call_id"], fault_body(5))
            ev_["auth"]["complete_after"] = bool(self.ctx.complete)
        if is_bind:
            self.sign_header = client_sign and self.dc.header_sign and auth is not None
        self.log(**ev_)
        flags = PFC_FIRST | PFC_LAST | (PFC_SIGN if (self.dc.header_sign and auth is not None) else 0)
        rb = bind_ack_body(results, str(self.port) if is_bind else "")
        tr = b""
        if auth is not None:
            rb += b"\x00" * (-len(rb) % 4)
            tr = sec_trailer(auth["type"], auth["level"], 0, auth["ctx"], token_out)
        return finish_pdu(PT_BIND_ACK if is_bind else PT_ALTER_RESP, flags, h["call_id"], rb, tr)

    # -- requests
    def on_request(self, h: dict, body: bytes, auth: t.Optional[dict], pdu: bytes) -> bytes:
        rq = parse_request_body(h, body)
        ev_ = {"ev": "request", "ctx": rq["ctx"], "opnum": rq["opnum"], "call_id": h["call_id"], "flags": h["flags"],
               "obj": rq["obj"] is not None, "alloc_hint": rq["alloc_hint"], "frag_ok": h["frag_len"] == len(pdu),
               "accepted_ctx": rq["ctx"] in self.accepted, "sealed": False, "auth": None, "stub_len": len(rq["stub"])}
        stub = rq["stub"]
        if auth:
            ev_["auth"] = {"type": auth["type"], "level": auth["level"], "pad": auth["pad"], "ctx": auth["ctx"],
                           "sig_len": len(auth["value"]), "auth_len_ok": h["auth_len"] == len(auth["value"]),
                           "reserved": auth["reserved"]}
            ev_["trailer_aligned16"] = len(stub) % 16 == 0
            if self.ctx is None or not self.ctx.complete:
                ev_["unseal"] = "no_context"
                self.log(**ev_)
                return finish_pdu(PT_FAULT, PFC_FIRST | PFC_LAST, h["call_id"], fault_body(5))
            import spnego.iov as iov

            so = iov.BufferType.sign_only if self.sign_header else iov.BufferType.data_readonly
            hdr = pdu[: rq["stub_off"]]
            try:
                res = self.ctx.unwrap_iov([(so, hdr), stub, (so, auth["raw8"]), (iov.BufferType.header, auth["value"])])
                stub_pt = res.buffers[1].data or b""
                ev_["unseal"] = "ok"
                ev_["sealed"] = stub_pt != stub or len(stub) == 0
            except Exception as e:  # noqa
                ev_["unseal"] = "failed:" + type(e).__name__
                self.log(**ev_)
                return finish_pdu(PT_FAULT, PFC_FIRST | PFC_LAST, h["call_id"], fault_body(5))
            ev_["pad_zero"] = stub_pt[len(stub_pt) - auth["pad"] :] == b"\x00" * auth["pad"] if auth["pad"] else True
            stub = stub_pt[: len(stub_pt) - auth["pad"]] if auth["pad"] else stub_pt
            ev_["alloc_hint_ok"] = rq["alloc_hint"] in (len(stub_pt), len(stub), 0)
        if rq["ctx"] not in self.accepted:
            self.log(**ev_)
            return finish_pdu(PT_FAULT, PFC_FIRST | PFC_LAST, h["call_id"], fault_body(0x1C00001A, rq["ctx"]))
        if self.port == 135:
            return self.ept_map(h, rq, stub, ev_)
        if rq["opnum"] == EMPTY_REPLY_OPNUM and auth is not None and auth["level"] == 6:
            # an operation without out-parameters: the (sealed, signed) reply carries no stub octets at all
            self.log(**ev_)
            return self.sealed_response(h, rq["ctx"], b"", auth)
        return self.get_key(h, rq, stub, ev_, auth)

    def ept_map(self, h: dict, rq: dict, stub: bytes, ev_: dict) -> bytes:
        try:
            m = parse_ept_map_request(stub)
            fl = m["floors"]
            ev_["ept_map"] = {
                "obj_null": m["obj"] in (None, b"\x00" * 16), "tower_ref": m["tower_ref"] != 0, "tower_len_ok": m["tower_len_ok"],
                "max_towers": m["max_towers"], "handle_null": m["handle"] == b"\x00" * 20, "consumed_all": m["consumed"] == m["total"],
                "floors": [{"proto": f["proto"], "lhs": f["lhs"].hex(), "rhs": f["rhs"].hex()} for f in fl],
            }
        except Exception as e:  # noqa
            ev_["ept_map"] = {"error": type(e).__name__}
            self.log(**ev_)
            return finish_pdu(PT_FAULT, PFC_FIRST | PFC_LAST, h["call_id"], fault_body(0x6F7))
        self.log(**ev_)
        towers = self.dc.epm_towers_before + [tower_octets(tcp_tower(ISD_KEY, self.dc.isd_port))] + self.dc.epm_extra_towers
        return finish_pdu(PT_RESPONSE, PFC_FIRST | PFC_LAST, h["call_id"], response_body(ept_map_response(towers), rq["ctx"], 0 if self.dc.alloc_hint == "zero" else None))

    def get_key(self, h: dict, rq: dict, stub: bytes, ev_: dict, auth: t.Optional[dict]) -> bytes:
        if rq["opnum"] != 0:
            self.log(**ev_)
            return finish_pdu(PT_FAULT, PFC_FIRST | PFC_LAST, h["call_id"], fault_body(0x1C010002, rq["ctx"]))
        if auth is None or auth["level"] != 6:
            ev_["get_key"] = {"error": "not_privacy"}
            self.log(**ev_)
            return finish_pdu(PT_FAULT, PFC_FIRST | PFC_LAST, h["call_id"], fault_body(5, rq["ctx"]))
        try:
            g = parse_get_key_request(stub)
            vt = parse_verification_trailer(stub, g["consumed"])
        except Exception as e:  # noqa
            ev_["get_key"] = {"error": "decode:" + type(e).__name__}
            self.log(**ev_)
            return finish_pdu(PT_FAULT, PFC_FIRST | PFC_LAST, h["call_id"], fault_body(0x6F7, rq["ctx"]))
        ev_["get_key"] = {"sd": g["sd"].hex(), "rkid": str(g["rkid"]) if g["rkid"] else None, "l0": g["l0"], "l1": g["l1"], "l2": g["l2"],
                          "cb_eq_maxc": g["cb"] == g["maxc"], "pads_zero": g["pads_zero"], "consumed": g["consumed"]}
        ev_["vt"] = {"present": vt["present"], "offset_ok": vt["offset"] % 4 == 0, "pad_zero": vt["pad_zero"],
                     "commands": [{"type": c["type"], "end": c["end"], "must": c["must"],
                                   "iface": [str(c["iface"][0]), c["iface"][1], c["iface"][2]] if "iface" in c else None,
                                   "transfer": [str(c["transfer"][0]), c["transfer"][1], c["transfer"][2]] if "transfer" in c else None}
                                  for c in vt["commands"]],
                     "ends_at_stub_end": vt["end"] == len(stub)}
        force = self.dc.force_reply(self, g) if self.dc.force_reply else None
        hres, env, desc = self.dc.get_key(g["sd"], g["rkid"], g["l0"], g["l1"], g["l2"], force)
        ev_["reply"] = desc
        self.dc.getkey_log.append({"tag": self.tag, "sd": g["sd"], "rkid": g["rkid"], "l0": g["l0"], "l1": g["l1"], "l2": g["l2"], "reply": desc})
        self.log(**ev_)
        return self.sealed_response(h, rq["ctx"], get_key_response(env, hres), auth)

    def sealed_response(self, h: dict, ctx_id: int, stub: bytes, auth: dict, pad: t.Optional[int] = None) -> bytes:
        import spnego.iov as iov

        if pad is None:
            pad = (-len(stub) % 16 + 16 * self.dc.name_pad) % 16 if False else (-len(stub) % 16)
        # authentication padding octets and the auth_reserved octet of the trailer carry no meaning (the receiver strips by
        # pad_length and ignores auth_reserved): arbitrary values, chosen by the content so that a message is always encoded alike
        v = len(stub) + (stub[-1] if stub else 0)
        body = stub + bytes((0xA5 + 7 * i + v) & 0xFF or 1 for i in range(pad))
        reserved = (0, 0x5A, 0, 0xFF)[v % 4]
        sig_len = len(auth["value"])
        hdr = pdu_header(PT_RESPONSE, PFC_FIRST | (0 if self.dc.reply_not_last else PFC_LAST), 16 + 8 + len(body) + 8 + sig_len, sig_len, h["call_id"])
        hdr += struct.pack("<IHBB", {"padded": len(body), "unpadded": len(stub), "zero": 0}[self.dc.alloc_hint], ctx_id, 0, 0)   # only a hint
        tr8 = struct.pack("<BBBBI", auth["type"], auth["level"], pad, reserved, auth["ctx"])
        so = iov.BufferType.sign_only if self.sign_header else iov.BufferType.data_readonly
        res = self.ctx.wrap_iov([(so, hdr), body, (so, tr8), iov.BufferType.header], encrypt=True, qop=None)
        out = hdr + (res.buffers[1].data or b"") + tr8 + (res.buffers[3].data or b"")
        self.last_sealed_reply = out
        self.last_plain_body = body
        return out


class Network:
    """Replaces socket.create_connection / asyncio.open_connection in the driver process."""

    def __init__(self, dc: DC) -> None:
        self.dc = dc
        self.nconn = 0
        self.connects: list[tuple] = []
        self.schedule: t.Optional[t.Callable[[int], int]] = None  # recv size chooser
        self.on_connection: t.Optional[t.Callable[[Connection], None]] = None
        self.gate: t.Optional[t.Callable[[Connection, bytes], t.Awaitable[None]]] = None  # async reply gate
        self.close_gate: t.Optional[t.Callable[[Connection], t.Awaitable[None]]] = None
        # virtual time: this many seconds pass between two segments of a reply when a schedule splits it (a slow link).
        # A blocking socket waits; one that still carries a shorter timeout raises TimeoutError, as a real one would.
        self.read_gap = 30.0

    def accept(self, host: str, port: int) -> Connection:
        self.nconn += 1
        self.connects.append((host, port))
        self.dc.transcript.append({"ev": "connect", "host": host, "port": port, "conn": self.nconn})
        c = Connection(self.dc, port, self.nconn)
        c.tag = CURRENT_OP.get()
        if self.on_connection:
            self.on_connection(c)
        return c

    # sync
    def create_connection(self, address: tuple, timeout: t.Any = None, *a: t.Any, **k: t.Any) -> "FakeSocket":
        sock = FakeSocket(self.accept(address[0], address[1]), self)
        sock.timeout = timeout if isinstance(timeout, (int, float)) else None       # socket.create_connection(timeout=...) leaves it set
        return sock

    # async
    async def open_connection(self, host: str, port: int = 0, **k: t.Any):
        conn = self.accept(host, port)
        from .taps import CountingReader

        reader = CountingReader()
        return reader, FakeWriter(conn, reader, self)

    def __enter__(self) -> "Network":
        import socket

        self._orig = (socket.create_connection, asyncio.open_connection)
        socket.create_connection = self.create_connection  # type: ignore
        asyncio.open_connection = self.open_connection  # type: ignore
        return self

    def __exit__(self, *a: t.Any) -> None:
        import socket

        socket.create_connection, asyncio.open_connection = self._orig  # type: ignore


class FakeSocket:
    def __init__(self, conn: Connection, net: Network) -> None:
        self.conn = conn
        self.net = net
        self.rx = b""
        self.reads = 0
        self.eof = False
        self.closed = False
        self.timeout: t.Optional[float] = None
        self.short_read = False

    def settimeout(self, t_: t.Any) -> None:
        self.timeout = t_

    def gettimeout(self) -> t.Optional[float]:
        return self.timeout

    def setblocking(self, flag: bool) -> None:
        self.timeout = None if flag else 0.0

    def sendall(self, data: bytes) -> None:
        if self.closed:
            raise OSError("closed")
        self.rx += self.conn.feed(bytes(data))

    send = sendall

    def _take(self, n: int, flags: int = 0) -> bytes:
        import socket as _socket

        self.reads += 1
        if self.reads > 100000:
            raise RuntimeError("MACHINERY: runaway reads")
        if not self.rx:
            return b""
        if flags & _socket.MSG_PEEK:
            return self.rx[:n]
        gap = getattr(self.net, "read_gap", 0) or 0
        if self.short_read and self.timeout is not None and gap > self.timeout:
            raise TimeoutError("timed out")           # socket.timeout: the next segment is `gap` seconds away
        k = n
        if self.net.schedule:
            k = max(1, min(n, self.net.schedule(n)))
        out, self.rx = self.rx[:k], self.rx[k:]
        self.short_read = k < n and bool(self.rx)
        return out

    def recv(self, n: int, flags: int = 0) -> bytes:
        return self._take(n, flags)

    def recv_into(self, buf: t.Any, nbytes: int = 0, flags: int = 0) -> int:
        mv = memoryview(buf)
        d = self._take(nbytes or len(mv), flags)
        mv[: len(d)] = d
        return len(d)

    def shutdown(self, how: int) -> None:
        self.conn.log(ev="shutdown")

    def close(self) -> None:
        self.closed = True
        self.conn.closed = True
        self.conn.log(ev="close")


class FakeWriter:
    def __init__(self, conn: Connection, reader: asyncio.StreamReader, net: Network) -> None:
        self.conn, self.reader, self.net = conn, reader, net
        self._pending: list = []

    def write(self, data: bytes) -> None:
        reply = self.conn.feed(bytes(data))
        if not reply:
            return
        if self.net.gate is None:
            self.reader.feed_data(reply)
        else:
            self._pending.append(asyncio.ensure_future(self._gated(reply)))

    async def _gated(self, reply: bytes) -> None:
        await self.net.gate(self.conn, reply)  # type: ignore
        self.reader.feed_data(reply)

    async def drain(self) -> None:
        return None

    def close(self) -> None:
        self.conn.closed = True
        self.conn.log(ev="close")

    async def wait_closed(self) -> None:
        if self.net.close_gate is not None:
            await self.net.close_gate(self.conn)
        else:
            await asyncio.sleep(0)

    def get_extra_info(self, *a: t.Any, **k: t.Any) -> None:
        return None
