from __future__ import annotations

import argparse
import importlib
import json
import os
import sys

from .core import Ctx, main_wrapper, MachineryError


def main() -> int:
    ap = argparse.ArgumentParser()
    ap.add_argument("pid")
    ap.add_argument("--tier", default=os.environ.get("VERIF_TIER", "quick"))
    ap.add_argument("--seed", type=int, default=int(os.environ.get("VERIF_SEED", "0") or 0))
    ap.add_argument("--selftest", action="store_true")
    ap.add_argument("--replay")
    a = ap.parse_args()
    tier = "thorough" if a.tier.startswith("t") else "quick"
    pid = a.pid.upper()
    try:
        mod = importlib.import_module(f"harness.drivers.{pid.lower()}")
    except ModuleNotFoundError as e:
        raise MachineryError(f"no driver for {pid}: {e}")
    ctx = Ctx(pid, tier, a.seed)
    if a.replay:
        case = json.load(open(a.replay))
        if hasattr(mod, "replay"):
            return mod.replay(ctx, case)
        # generic replay: show the recorded failing case (input / schedule / history) and how it was judged
        print(json.dumps(case, indent=1)[:6000])
        print(f"[{pid}] recorded case shown above; clause(s): {case.get('clause')}; re-run `./check {pid}` to re-judge on the current tree")
        return 0
    if a.selftest:
        return mod.selftest(ctx)
    try:
        return mod.run(ctx)
    except MachineryError:
        raise
    except Exception as e:  # noqa
        where = _library_frame(e)
        if where is None:
            raise
        # The drivers feed the library inputs inside the property's quantifier and were validated against the pinned
        # tree, where none of these calls raises.  An exception that comes out of library code at a call the driver does
        # not expect to fail is therefore the library failing on such an input: reported as a violation (with the
        # traceback as the failing case), not as a failure of the machinery.  Exceptions raised by harness code
        # (innermost frame in /verif) stay machinery failures.
        import traceback

        tb = "".join(traceback.format_exception(e))[-6000:]
        ctx.violation(f"escaped:{type(e).__name__}:{where}", "library_raises_on_input_within_the_property_quantifier",
                      {"exception": f"{type(e).__name__}: {e}"[:500], "raised_in": where, "traceback": tb},
                      f"{type(e).__name__}: {str(e)[:300]} raised in {where}; the check stopped at this point (remaining cases not explored)")
        ctx.note_drift("run_aborted_by_unexpected_library_exception")
        return ctx.finish(rule="ABORTED by an exception out of library code on a harness input; coverage figures are partial", exhaustive=False)


def _library_frame(e: BaseException) -> "str | None":
    """'<file>:<function>' of the innermost frame if the exception was raised by (or below) library code reached from the
    harness and not by harness code itself; None otherwise.  Works through process pools (remote traceback text)."""
    import re
    import traceback

    src = os.path.realpath(os.path.join(os.environ.get("VERIF_REPO", "/repo"), "src")) + os.sep
    verif = os.path.realpath(os.path.join(os.path.dirname(__file__), "..")) + os.sep
    frames: list[tuple[str, str]] = []
    cause = e.__cause__
    if cause is not None and "RemoteTraceback" in type(cause).__name__:
        frames = [(m.group(1), m.group(2)) for m in re.finditer(r'File "([^"]+)", line \d+, in (\S+)', str(cause))]
    else:
        frames = [(os.path.realpath(f.filename), f.name) for f in traceback.extract_tb(e.__traceback__)]
    if not frames:
        return None
    frames = [(os.path.realpath(f), n) for f, n in frames]
    if frames[-1][0].startswith(verif):
        return None                       # raised by harness code (possibly a callback the library invoked)
    last_harness = max((i for i, (f, _) in enumerate(frames) if f.startswith(verif)), default=-1)
    lib = [(f, n) for f, n in frames[last_harness + 1:] if f.startswith(src)]
    if not lib:
        return None
    f, n = lib[-1]
    return f"{f[len(src):]}:{n}"


if __name__ == "__main__":
    main_wrapper(main)
