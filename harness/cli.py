from __future__ import annotations

import argparse
import importlib
import json
import os
import sys

from .core import Ctx, main_wrapper, MachineryError


def main() -> int:
    ap = argparse.ArgumentParser()
    ap.add_argument("pid")
    ap.add_argument("--tier", default=os.environ.get("VERIF_TIER", "quick"))
    ap.add_argument("--seed", type=int, default=int(os.environ.get("VERIF_SEED", "0") or 0))
    ap.add_argument("--selftest", action="store_true")
    ap.add_argument("--replay")
    a = ap.parse_args()
    tier = "thorough" if a.tier.startswith("t") else "quick"
    pid = a.pid.upper()
    try:
        mod = importlib.import_module(f"harness.drivers.{pid.lower()}")
    except ModuleNotFoundError as e:
        raise MachineryError(f"no driver for {pid}: {e}")
    ctx = Ctx(pid, tier, a.seed)
    if a.replay:
        case = json.load(open(a.replay))
        if hasattr(mod, "replay"):
            return mod.replay(ctx, case)
        # generic replay: show the recorded failing case (input / schedule / history) and how it was judged
        print(json.dumps(case, indent=1)[:6000])
        print(f"[{pid}] recorded case shown above; clause(s): {case.get('clause')}; re-run `./check {pid}` to re-judge on the current tree")
        return 0
    if a.selftest:
        return mod.selftest(ctx)
    return mod.run(ctx)


if __name__ == "__main__":
    main_wrapper(main)
