"""Independent construction / opening of DPAPI-NG blobs (own DER writer+reader, evaluator KEK).

Used to make input blobs at arbitrary key positions and to judge blobs emitted by the library
without using the library's own key derivation.  AES-KW / AES-GCM come from `cryptography`.
"""
from __future__ import annotations

import struct
import typing as t
import uuid

from cryptography.hazmat.primitives import keywrap
from cryptography.hazmat.primitives.ciphers.aead import AESGCM

from . import evaluator as ev

OID_ENVELOPED = "1.2.840.113549.1.7.3"
OID_DATA = "1.2.840.113549.1.7.1"
OID_MS = "1.3.6.1.4.1.311.74.1"
OID_SID = "1.3.6.1.4.1.311.74.1.1"
OID_AESWRAP = "2.16.840.1.101.3.4.1.45"
OID_AESGCM = "2.16.840.1.101.3.4.1.46"


# ---- minimal DER ----------------------------------------------------------------------------
def der_len(n: int) -> bytes:
    if n < 128:
        return bytes([n])
    b = n.to_bytes((n.bit_length() + 7) // 8, "big")
    return bytes([0x80 | len(b)]) + b


def tlv(tag: int, content: bytes) -> bytes:
    return bytes([tag]) + der_len(len(content)) + content


def der_oid(s: str) -> bytes:
    a = [int(x) for x in s.split(".")]
    arcs = [a[0] * 40 + a[1]] + a[2:]
    out = b""
    for v in arcs:
        chunk = [v & 0x7F]
        v >>= 7
        while v:
            chunk.append(0x80 | (v & 0x7F))
            v >>= 7
        out += bytes(reversed(chunk))
    return tlv(6, out)


def der_int(v: int) -> bytes:
    n = max(1, (v.bit_length() + 8) // 8) if v >= 0 else ((v + 1).bit_length() + 8) // 8
    return tlv(2, v.to_bytes(n, "big", signed=True))


def seq(*parts: bytes) -> bytes:
    return tlv(0x30, b"".join(parts))


def read_tlv(b: bytes, off: int = 0) -> tuple[int, bytes, int]:
    """strict DER: -> (tag byte, content, next offset); raises ValueError on non-minimal lengths."""
    tag = b[off]
    if tag & 0x1F == 0x1F:
        raise ValueError("high tag numbers not expected")
    l0 = b[off + 1]
    off += 2
    if l0 < 128:
        n = l0
    else:
        k = l0 & 0x7F
        if k == 0 or b[off] == 0:
            raise ValueError("non-minimal/indefinite length")
        n = int.from_bytes(b[off : off + k], "big")
        if n < 128:
            raise ValueError("non-minimal length")
        off += k
    if off + n > len(b):
        raise ValueError("truncated")
    return tag, b[off : off + n], off + n


def read_all(b: bytes) -> list[tuple[int, bytes]]:
    out = []
    off = 0
    while off < len(b):
        tag, c, off = read_tlv(b, off)
        out.append((tag, c))
    return out


def oid_str(c: bytes) -> str:
    vals = []
    v = 0
    for x in c:
        v = (v << 7) | (x & 0x7F)
        if not x & 0x80:
            vals.append(v)
            v = 0
    f = vals[0]
    a0 = 2 if f >= 80 else f // 40
    return ".".join(str(x) for x in [a0, f - 40 * a0] + vals[1:])


# ---- key identifier --------------------------------------------------------------------------
def key_identifier(flags: int, l0: int, l1: int, l2: int, rkid: uuid.UUID, key_info: bytes, domain: str, forest: str) -> bytes:
    dn, fn = ev.utf16z(domain), ev.utf16z(forest)
    return (struct.pack("<I", 1) + b"KDSK" + struct.pack("<IIII", flags, l0 & 0xFFFFFFFF, l1 & 0xFFFFFFFF, l2 & 0xFFFFFFFF) + rkid.bytes_le
            + struct.pack("<III", len(key_info), len(dn), len(fn)) + key_info + dn + fn)


def parse_key_identifier(b: bytes) -> dict:
    ver, magic, flags, l0, l1, l2 = struct.unpack("<I4sIIII", b[:24])
    rkid = uuid.UUID(bytes_le=b[24:40])
    kil, dl, fl = struct.unpack("<III", b[40:52])
    ki = b[52 : 52 + kil]
    dn = b[52 + kil : 52 + kil + dl]
    fn = b[52 + kil + dl : 52 + kil + dl + fl]
    return {"version": ver, "magic": magic, "flags": flags, "l0": l0, "l1": l1, "l2": l2, "rkid": rkid, "key_info": ki,
            "domain": dn[:-2].decode("utf-16-le"), "forest": fn[:-2].decode("utf-16-le"),
            "total": 52 + kil + dl + fl}


def protection_descriptor(sid: str) -> bytes:
    return seq(der_oid(OID_SID), seq(seq(seq(tlv(0x0C, b"SID"), tlv(0x0C, sid.encode())))))


def pack_blob(kid: bytes, sid: str, enc_cek: bytes, nonce: bytes, ct: bytes, in_envelope: bool = True) -> bytes:
    kekid = seq(tlv(4, kid), seq(der_oid(OID_MS), protection_descriptor(sid)))
    kekri = tlv(0xA2, der_int(4) + kekid + seq(der_oid(OID_AESWRAP)) + tlv(4, enc_cek))
    eci = seq(der_oid(OID_DATA), seq(der_oid(OID_AESGCM), seq(tlv(4, nonce), der_int(16))), tlv(0x80, ct) if in_envelope else b"")
    env = seq(der_int(2), tlv(0x31, kekri), eci)
    ci = seq(der_oid(OID_ENVELOPED), tlv(0xA0, env))
    return ci + (b"" if in_envelope else ct)


def parse_blob(b: bytes) -> dict:
    """Strict reader for the Windows layout; raises ValueError if the template does not match."""
    tag, ci, end = read_tlv(b, 0)
    trailing = b[end:]
    if tag != 0x30:
        raise ValueError("ContentInfo")
    (t1, oid), (t2, c0) = read_all(ci)
    if t1 != 6 or oid_str(oid) != OID_ENVELOPED or t2 != 0xA0:
        raise ValueError("ContentInfo content")
    ((t3, envd),) = read_all(c0)
    parts = read_all(envd)
    if t3 != 0x30 or len(parts) != 3 or parts[0] != (2, b"\x02") or parts[1][0] != 0x31 or parts[2][0] != 0x30:
        raise ValueError("EnvelopedData")
    ris = read_all(parts[1][1])
    if len(ris) != 1 or ris[0][0] != 0xA2:
        raise ValueError("RecipientInfos")
    k = read_all(ris[0][1])
    if len(k) != 4 or k[0] != (2, b"\x04") or k[1][0] != 0x30 or k[2][0] != 0x30 or k[3][0] != 4:
        raise ValueError("KEKRecipientInfo")
    kk = read_all(k[1][1])
    if len(kk) != 2 or kk[0][0] != 4 or kk[1][0] != 0x30:
        raise ValueError("KEKIdentifier")
    oka = read_all(kk[1][1])
    if len(oka) != 2 or oka[0][0] != 6 or oid_str(oka[0][1]) != OID_MS or oka[1][0] != 0x30:
        raise ValueError("OtherKeyAttribute")
    pd = read_all(oka[1][1])
    if len(pd) != 2 or pd[0][0] != 6 or pd[1][0] != 0x30:
        raise ValueError("protection descriptor")
    inner = read_all(read_all(read_all(pd[1][1])[0][1])[0][1])
    if [x[0] for x in inner] != [0x0C, 0x0C]:
        raise ValueError("protection descriptor strings")
    kea = read_all(k[2][1])
    if len(kea) != 1 or kea[0][0] != 6 or oid_str(kea[0][1]) != OID_AESWRAP:
        raise ValueError("keyEncryptionAlgorithm")
    e = read_all(parts[2][1])
    if len(e) not in (2, 3) or e[0][0] != 6 or oid_str(e[0][1]) != OID_DATA or e[1][0] != 0x30:
        raise ValueError("EncryptedContentInfo")
    alg = read_all(e[1][1])
    if len(alg) != 2 or alg[0][0] != 6 or oid_str(alg[0][1]) != OID_AESGCM or alg[1][0] != 0x30:
        raise ValueError("contentEncryptionAlgorithm")
    gp = read_all(alg[1][1])
    if len(gp) != 2 or gp[0][0] != 4 or len(gp[0][1]) != 12 or gp[1] != (2, b"\x10"):
        raise ValueError("GCM parameters")
    content = None
    if len(e) == 3:
        if e[2][0] != 0x80:
            raise ValueError("encryptedContent tag")
        content = e[2][1]
    return {"kid_raw": kk[0][1], "kid": parse_key_identifier(kk[0][1]), "pd_oid": oid_str(pd[0][1]), "pd_type": inner[0][1].decode(),
            "sid": inner[1][1].decode(), "enc_cek": k[3][1], "nonce": gp[0][1], "content": content, "trailing": trailing,
            "ct": content if content is not None else trailing}


# ---- reference KEK for a parsed key identifier -------------------------------------------------
def reference_kek(h: str, l2_key: bytes, kid: dict, secret_alg: str, priv_len_bits: int) -> bytes:
    """KEK on the decrypting side, from the L2 seed key and the key identifier in the blob."""
    if not kid["flags"] & 1:
        return ev.kek_nonce(h, l2_key, kid["key_info"])
    priv = int.from_bytes(ev.priv_from_seed(h, l2_key, secret_alg, -(-priv_len_bits // 8)), "big")
    ki = kid["key_info"]
    if secret_alg == "DH":
        if ki[:4] != b"DHPB":
            raise ValueError("key_info is not an FFC DH key")
        n = struct.unpack("<I", ki[4:8])[0]
        p = int.from_bytes(ki[8 : 8 + n], "big")
        y = int.from_bytes(ki[8 + 2 * n : 8 + 3 * n], "big")
        shared = pow(y, priv, p).to_bytes(n, "big")
        return ev.kek_from_shared(h, shared, "SHA256")
    curve = {"ECDH_P256": "P256", "ECDH_P384": "P384"}[secret_alg]
    c = ev.CURVES[curve]
    n = struct.unpack("<I", ki[4:8])[0]
    x = int.from_bytes(ki[8 : 8 + n], "big")
    y = int.from_bytes(ki[8 + n : 8 + 2 * n], "big")
    if not ev.on_curve(c, (x, y)):
        raise ValueError("ephemeral point not on curve")
    sx = ev.ec_mul(c, priv, (x, y))[0]
    return ev.kek_from_shared(h, sx.to_bytes(c.size, "big"), c.hash)


def make_blob(h: str, l2_key: bytes, rkid: uuid.UUID, l0: int, l1: int, l2: int, sid: str, plaintext: bytes,
              rnd: t.Callable[[int], bytes], domain: str = "verif.test", forest: str = "verif.test", in_envelope: bool = True) -> bytes:
    """A nonce-mode blob encrypted to Key(.., l0, l1, l2) -- what Windows would have produced."""
    key_info = rnd(32)
    kek = ev.kek_nonce(h, l2_key, key_info)
    cek = rnd(32)
    nonce = rnd(12)
    ct = AESGCM(cek).encrypt(nonce, plaintext, None)
    kid = key_identifier(0, l0, l1, l2, rkid, key_info, domain, forest)
    return pack_blob(kid, sid, keywrap.aes_key_wrap(kek, cek), nonce, ct, in_envelope)


def open_blob(blob: bytes, h: str, l2_key_of: t.Callable[[dict], bytes], secret_alg: str = "DH", priv_len_bits: int = 512) -> tuple[bytes, dict]:
    """Decrypt with the reference KEK; l2_key_of(kid) supplies the L2 seed key for the named position."""
    p = parse_blob(blob)
    kek = reference_kek(h, l2_key_of(p["kid"]), p["kid"], secret_alg, priv_len_bits)
    cek = keywrap.aes_key_unwrap(kek, p["enc_cek"])
    return AESGCM(cek).decrypt(p["nonce"], p["ct"], None), p
