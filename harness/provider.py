"""Scripted security context installed at the `spnego.client` boundary.

A duck-typed stand-in for a pyspnego context (step / complete / wrap_iov / unwrap_iov /
query_message_sizes) whose handshake follows a script, used to enumerate handshakes (C15) and
signature sizes NTLM does not have (C13).  The "cipher" is a keyed XOR stream and the signature
is a SHA-256 MAC over exactly the buffers marked for signing, so the peer (ScriptedSeal on the
server side) can tell which regions were sealed / signed.
"""
from __future__ import annotations

import contextlib
import hashlib
import typing as t

import spnego
import spnego.iov as iov


class SealKey:
    def __init__(self, key: bytes = b"scripted-session-key", sig_len: int = 16) -> None:
        self.key, self.sig_len = key, sig_len

    def stream(self, n: int, seq: int) -> bytes:
        out = b""
        i = 0
        while len(out) < n:
            out += hashlib.sha256(self.key + seq.to_bytes(4, "big") + i.to_bytes(4, "big")).digest()
            i += 1
        return out[:n]

    def crypt(self, data: bytes, seq: int) -> bytes:
        return bytes(a ^ b for a, b in zip(data, self.stream(len(data), seq)))

    def sign(self, parts: list[bytes], seq: int, direction: bytes) -> bytes:
        h = hashlib.sha256(self.key + direction + seq.to_bytes(4, "big"))
        for p in parts:
            h.update(len(p).to_bytes(4, "big") + p)
        d = h.digest()
        return (d * 4)[: self.sig_len]


class _Buf:
    def __init__(self, type_: t.Any, data: t.Optional[bytes]) -> None:
        self.type, self.data = type_, data


class _Res:
    def __init__(self, buffers: list[_Buf]) -> None:
        self.buffers = tuple(buffers)
        self.encrypted = True
        self.qop = 0


def _norm(items: t.Sequence[t.Any]) -> list[_Buf]:
    out = []
    for it in items:
        if isinstance(it, tuple):
            out.append(_Buf(it[0], bytes(it[1]) if it[1] is not None and not isinstance(it[1], (int, bool)) else None))
        elif isinstance(it, (bytes, bytearray, memoryview)):
            out.append(_Buf(iov.BufferType.data, bytes(it)))
        else:
            out.append(_Buf(it, None))
    return out


class ScriptedContext:
    """legs: list of client tokens (bytes; b'' = empty token); complete after `complete_after` steps
    (defaults to len(legs))."""

    def __init__(self, legs: list[bytes], complete_after: t.Optional[int] = None, sig_len: int = 16, log: t.Optional[list] = None) -> None:
        self.legs = list(legs)
        self.complete_after = len(legs) if complete_after is None else complete_after
        self.n = 0
        self.seal = SealKey(sig_len=sig_len)
        self.log = log if log is not None else []
        self.send_seq = 0
        self.recv_seq = 0

    @property
    def complete(self) -> bool:
        return self.n >= self.complete_after

    def step(self, in_token: t.Optional[bytes] = None) -> t.Optional[bytes]:
        self.n += 1
        out = self.legs[self.n - 1] if self.n <= len(self.legs) else b""
        self.log.append({"ev": "step", "n": self.n, "in": None if in_token is None else bytes(in_token), "out": out,
                         "complete_after": self.n >= self.complete_after, "was_complete": self.n - 1 >= self.complete_after})
        return out or None

    def query_message_sizes(self) -> t.Any:
        class S:
            header = self.seal.sig_len

        return S()

    def wrap_iov(self, buffers: t.Sequence[t.Any], encrypt: bool = True, qop: t.Any = None) -> _Res:
        b = _norm(buffers)
        seq = self.send_seq
        self.send_seq += 1
        signed = [x.data or b"" for x in b if x.type in (iov.BufferType.sign_only, iov.BufferType.data)]
        out = []
        for x in b:
            if x.type == iov.BufferType.data:
                out.append(_Buf(x.type, self.seal.crypt(x.data or b"", seq) if encrypt else x.data))
            elif x.type == iov.BufferType.header:
                out.append(_Buf(x.type, self.seal.sign(signed, seq, b"C")))
            else:
                out.append(_Buf(x.type, x.data))
        self.log.append({"ev": "wrap", "types": [int(x.type) for x in b], "lens": [len(x.data or b"") for x in b],
                         "data": [x.data for x in b], "encrypt": encrypt,
                         "sign_header": any(x.type == iov.BufferType.sign_only for x in b)})
        return _Res(out)

    def unwrap_iov(self, buffers: t.Sequence[t.Any]) -> _Res:
        b = _norm(buffers)
        seq = self.recv_seq
        self.recv_seq += 1
        body = [x for x in b if x.type == iov.BufferType.data]
        sig = [x for x in b if x.type == iov.BufferType.header]
        pt = self.seal.crypt(body[0].data or b"", seq)
        signed = [(x.data or b"") if x.type == iov.BufferType.sign_only else pt for x in b if x.type in (iov.BufferType.sign_only, iov.BufferType.data)]
        self.log.append({"ev": "unwrap", "types": [int(x.type) for x in b], "lens": [len(x.data or b"") for x in b],
                         "sign_header": any(x.type == iov.BufferType.sign_only for x in b)})
        if not sig or sig[0].data != self.seal.sign(signed, seq, b"S"):
            raise spnego.exceptions.BadMICError(context_msg="scripted context: signature mismatch")
        out = [_Buf(x.type, pt if x.type == iov.BufferType.data else x.data) for x in b]
        return _Res(out)


def server_seal(seal: SealKey, seq: int, header: bytes, body: bytes, trailer8: bytes, sign_header: bool) -> tuple[bytes, bytes]:
    """What a peer holding the same key produces: (ciphertext, signature)."""
    signed = [header, body, trailer8] if sign_header else [body]
    return seal.crypt(body, seq), seal.sign(signed, seq, b"S")


def server_open(seal: SealKey, seq: int, header: bytes, ct: bytes, trailer8: bytes, sig: bytes) -> tuple[bytes, t.Optional[bool]]:
    """-> (plaintext, sign_header used by the client or None if the signature matches neither form)."""
    pt = seal.crypt(ct, seq)
    if sig == seal.sign([header, pt, trailer8], seq, b"C"):
        return pt, True
    if sig == seal.sign([pt], seq, b"C"):
        return pt, False
    return pt, None


@contextlib.contextmanager
def installed(factory: t.Callable[..., ScriptedContext]):
    """Replace spnego.client for the duration (the library calls spnego.client(...) by attribute)."""
    orig = spnego.client
    calls: list[dict] = []

    def client(username: t.Any = None, password: t.Any = None, hostname: str = "unspecified", service: str = "host",
               protocol: str = "negotiate", context_req: t.Any = None, **kw: t.Any) -> ScriptedContext:
        calls.append({"username": username, "hostname": hostname, "service": service, "protocol": protocol, "context_req": int(context_req or 0)})
        return factory()

    spnego.client = client  # type: ignore
    try:
        yield calls
    finally:
        spnego.client = orig  # type: ignore
