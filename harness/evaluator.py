"""Interpreter of specification terms in bytes (DESIGN 4.4).

Standard library only: hmac, hashlib, pow and a short-Weierstrass scalar multiplication.
It never imports `cryptography` or `dpapi_ng`.  Protocol knowledge (which node derives
from which, with which context; how a KEK term is built) comes from TLC exports.
"""
from __future__ import annotations

import hashlib
import hmac
import struct
import typing as t
import uuid

HASHES = {"SHA1": hashlib.sha1, "SHA256": hashlib.sha256, "SHA384": hashlib.sha384, "SHA512": hashlib.sha512}


def utf16z(s: str) -> bytes:
    return (s + "\0").encode("utf-16-le")


KDS_SERVICE = utf16z("KDS service")
KDS_PUBLIC_KEY = utf16z("KDS public key")


def kdf108(h: str, key: bytes, label: bytes, context: bytes, length: int) -> bytes:
    """SP800-108 KDF in counter mode, HMAC PRF, 32-bit counter before fixed data,
    fixed = label || 0x00 || context || [L in bits]_32."""
    hf = HASHES[h]
    out = b""
    i = 1
    fixed = label + b"\x00" + context + struct.pack(">I", length * 8)
    while len(out) < length:
        out += hmac.new(key, struct.pack(">I", i) + fixed, hf).digest()
        i += 1
    return out[:length]


def concat_kdf(h: str, z: bytes, otherinfo: bytes, length: int) -> bytes:
    hf = HASHES[h]
    out = b""
    i = 1
    while len(out) < length:
        out += hf(struct.pack(">I", i) + z + otherinfo).digest()
        i += 1
    return out[:length]


def ctx_bytes(rkid: uuid.UUID, l0: int, l1: int, l2: int) -> bytes:
    return rkid.bytes_le + struct.pack("<iii", l0, l1, l2)


# ---- elliptic curves (short Weierstrass, a = -3) --------------------------------------
class Curve(t.NamedTuple):
    p: int
    b: int
    gx: int
    gy: int
    n: int
    size: int
    hash: str


P256 = Curve(
    p=0xFFFFFFFF00000001000000000000000000000000FFFFFFFFFFFFFFFFFFFFFFFF,
    b=0x5AC635D8AA3A93E7B3EBBD55769886BC651D06B0CC53B0F63BCE3C3E27D2604B,
    gx=0x6B17D1F2E12C4247F8BCE6E563A440F277037D812DEB33A0F4A13945D898C296,
    gy=0x4FE342E2FE1A7F9B8EE7EB4A7C0F9E162BCE33576B315ECECBB6406837BF51F5,
    n=0xFFFFFFFF00000000FFFFFFFFFFFFFFFFBCE6FAADA7179E84F3B9CAC2FC632551,
    size=32,
    hash="SHA256",
)
P384 = Curve(
    p=0xFFFFFFFFFFFFFFFFFFFFFFFFFFFFFFFFFFFFFFFFFFFFFFFFFFFFFFFFFFFFFFFEFFFFFFFF0000000000000000FFFFFFFF,
    b=0xB3312FA7E23EE7E4988E056BE3F82D19181D9C6EFE8141120314088F5013875AC656398D8A2ED19D2A85C8EDD3EC2AEF,
    gx=0xAA87CA22BE8B05378EB1C71EF320AD746E1D3B628BA79B9859F741E082542A385502F25DBF55296C3A545E3872760AB7,
    gy=0x3617DE4A96262C6F5D9E98BF9292DC29F8F41DBD289A147CE9DA3113B5F0B8C00A60B1CE1D7E819D7A431D7C90EA0E5F,
    n=0xFFFFFFFFFFFFFFFFFFFFFFFFFFFFFFFFFFFFFFFFFFFFFFFFC7634D81F4372DDF581A0DB248B0A77AECEC196ACCC52973,
    size=48,
    hash="SHA384",
)
CURVES = {"P256": P256, "P384": P384}


def _inv(x: int, p: int) -> int:
    return pow(x, -1, p)


def ec_add(c: Curve, P, Q):
    if P is None:
        return Q
    if Q is None:
        return P
    x1, y1 = P
    x2, y2 = Q
    if x1 == x2:
        if (y1 + y2) % c.p == 0:
            return None
        lam = (3 * x1 * x1 - 3) * _inv(2 * y1, c.p) % c.p
    else:
        lam = (y2 - y1) * _inv(x2 - x1, c.p) % c.p
    x3 = (lam * lam - x1 - x2) % c.p
    return x3, (lam * (x1 - x3) - y1) % c.p


def ec_mul(c: Curve, k: int, P):
    R = None
    while k:
        if k & 1:
            R = ec_add(c, R, P)
        P = ec_add(c, P, P)
        k >>= 1
    return R


def on_curve(c: Curve, P) -> bool:
    x, y = P
    return (y * y - (x * x * x - 3 * x + c.b)) % c.p == 0


# ---- key table for the derivation graph -----------------------------------------------
def node_key(n: t.Sequence) -> tuple:
    return tuple(n)


def key_table(graph: list[dict], h: str, root_key: bytes, rkid: uuid.UUID, sd: bytes, l0: int) -> dict[tuple, bytes]:
    """graph: records {node, parent, l1, l2, sd} exported by TLC from GkdiGraph
    (Parent and KdfContext); returns node -> 64-byte key."""
    tbl: dict[tuple, bytes] = {("R",): root_key}
    pending = list(graph)
    while pending:
        rest = []
        for g in pending:
            par = node_key(g["parent"])
            if par in tbl:
                ctx = ctx_bytes(rkid, l0, g["l1"], g["l2"]) + (sd if g["sd"] else b"")
                tbl[node_key(g["node"])] = kdf108(h, tbl[par], KDS_SERVICE, ctx, 64)
            else:
                rest.append(g)
        if len(rest) == len(pending):
            raise RuntimeError("derivation graph is not rooted")
        pending = rest
    return tbl


# ---- KEK terms (constructors exported by Kek.tla) ---------------------------------------
def fixed_width(x: int, n: int) -> bytes:
    return x.to_bytes(n, "big")


def kek_nonce(h: str, l2: bytes, nonce: bytes) -> bytes:
    return kdf108(h, l2, KDS_SERVICE, nonce, 32)


def priv_from_seed(h: str, l2: bytes, alg: str, priv_len_bytes: int) -> bytes:
    return kdf108(h, l2, KDS_SERVICE, utf16z(alg), priv_len_bytes)


def kek_from_shared(h: str, shared: bytes, secret_hash: str) -> bytes:
    other = utf16z("SHA512") + KDS_PUBLIC_KEY + KDS_SERVICE
    secret = concat_kdf(secret_hash, shared, other, HASHES[secret_hash]().digest_size)
    return kdf108(h, secret, KDS_SERVICE, KDS_PUBLIC_KEY, 32)


def eval_term(term: t.Any, env: dict) -> t.Any:
    """Evaluate a spec term (nested lists, head = constructor name) to bytes / ints."""
    if isinstance(term, (bytes, int)):
        return term
    if isinstance(term, str):
        return env[term]
    head, *args = term
    a = [eval_term(x, env) for x in args] if head not in ("Str", "Lit") else args
    if head == "Kdf108":
        return kdf108(a[0], a[1], a[2], a[3], a[4])
    if head == "ConcatKdf":
        return concat_kdf(a[0], a[1], a[2], a[3])
    if head == "Utf16z" or head == "Str":
        return utf16z(args[0] if head == "Str" else a[0])
    if head == "Lit":
        return args[0]
    if head == "Concat":
        return b"".join(a)
    if head == "DhPow":  # base, exponent(bytes or int), modulus
        e = int.from_bytes(a[1], "big") if isinstance(a[1], bytes) else a[1]
        return pow(a[0], e, a[2])
    if head == "FixedWidth":
        return fixed_width(a[0], a[1])
    if head == "OsInt":
        return int.from_bytes(a[0], "big")
    if head == "EcMulX":  # curve name, scalar, point -> x coordinate int
        c = CURVES[a[0]]
        k = int.from_bytes(a[1], "big") if isinstance(a[1], bytes) else a[1]
        return ec_mul(c, k, a[2])[0]
    if head == "EcMul":
        c = CURVES[a[0]]
        k = int.from_bytes(a[1], "big") if isinstance(a[1], bytes) else a[1]
        return ec_mul(c, k, a[2])
    if head == "EcG":
        c = CURVES[a[0]]
        return (c.gx, c.gy)
    if head == "HashLen":
        return HASHES[a[0]]().digest_size
    if head == "Ceil8":
        return -(-a[0] // 8)
    raise ValueError(f"unknown term constructor {head}")
