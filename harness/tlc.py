"""TLC / Apalache runner and output parsing."""
from __future__ import annotations

import dataclasses
import json
import os
import pathlib
import re
import shutil
import subprocess
import time
import typing as t

from .core import RUN, SPEC, MachineryError

JAR = "/opt/veriftools/tla/tla2tools.jar"
CM = "/opt/veriftools/tla/CommunityModules-deps.jar"


# ---------------------------------------------------------------------------------------
# TLA+ value text -> Python
# ---------------------------------------------------------------------------------------
_ID = re.compile(r"[A-Za-z_][A-Za-z0-9_]*")
_NUM = re.compile(r"-?\d+")


class _P:
    def __init__(self, s: str) -> None:
        self.s = s
        self.i = 0

    def ws(self) -> None:
        while self.i < len(self.s) and self.s[self.i] in " \t\r\n":
            self.i += 1

    def peek(self, k: str) -> bool:
        self.ws()
        return self.s.startswith(k, self.i)

    def eat(self, k: str) -> None:
        self.ws()
        if not self.s.startswith(k, self.i):
            raise ValueError(f"expected {k!r} at {self.i}: {self.s[self.i:self.i+40]!r}")
        self.i += len(k)

    def value(self) -> t.Any:
        self.ws()
        s = self.s
        c = s[self.i]
        if s.startswith("<<", self.i):
            self.i += 2
            out = []
            if self.peek(">>"):
                self.eat(">>")
                return out
            while True:
                out.append(self.value())
                if self.peek(","):
                    self.eat(",")
                    continue
                self.eat(">>")
                return out
        if c == "{":
            self.i += 1
            out = []
            if self.peek("}"):
                self.eat("}")
                return out
            while True:
                out.append(self.value())
                if self.peek(","):
                    self.eat(",")
                    continue
                self.eat("}")
                return out
        if c == "[":
            self.i += 1
            d = {}
            if self.peek("]"):
                self.eat("]")
                return d
            while True:
                self.ws()
                m = _ID.match(s, self.i)
                if not m:
                    raise ValueError(f"record field expected at {self.i}")
                self.i = m.end()
                self.eat("|->")
                d[m.group(0)] = self.value()
                if self.peek(","):
                    self.eat(",")
                    continue
                self.eat("]")
                return d
        if c == "(":
            # function  (k :> v @@ k :> v)
            self.i += 1
            d = {}
            while True:
                k = self.value()
                self.eat(":>")
                v = self.value()
                d[json.dumps(k) if not isinstance(k, (str, int)) else k] = v
                if self.peek("@@"):
                    self.eat("@@")
                    continue
                self.eat(")")
                return d
        if c == '"':
            j = self.i + 1
            buf = []
            while s[j] != '"':
                if s[j] == "\\":
                    j += 1
                    buf.append({"n": "\n", "t": "\t", "r": "\r", "f": "\f"}.get(s[j], s[j]))
                else:
                    buf.append(s[j])
                j += 1
            self.i = j + 1
            return "".join(buf)
        m = _NUM.match(s, self.i)
        if m:
            self.i = m.end()
            # ranges a..b are printed for interval sets
            if s.startswith("..", self.i):
                self.i += 2
                m2 = _NUM.match(s, self.i)
                self.i = m2.end()
                return list(range(int(m.group(0)), int(m2.group(0)) + 1))
            return int(m.group(0))
        m = _ID.match(s, self.i)
        if m:
            self.i = m.end()
            w = m.group(0)
            if w == "TRUE":
                return True
            if w == "FALSE":
                return False
            return w  # model value
        raise ValueError(f"cannot parse at {self.i}: {s[self.i:self.i+40]!r}")


def parse_value(text: str) -> t.Any:
    p = _P(text)
    v = p.value()
    p.ws()
    if p.i != len(p.s):
        raise ValueError(f"trailing text at {p.i}: {p.s[p.i:p.i+40]!r}")
    return v


def _depth_delta(text: str) -> int:
    depth = 0
    i = 0
    n = len(text)
    while i < n:
        c = text[i]
        if c == '"':
            i += 1
            while i < n and text[i] != '"':
                if text[i] == "\\":
                    i += 1
                i += 1
        elif text.startswith("<<", i):
            depth += 1
            i += 1
        elif text.startswith(">>", i):
            depth -= 1
            i += 1
        elif c in "[{(":
            depth += 1
        elif c in "]})":
            depth -= 1
        i += 1
    return depth


@dataclasses.dataclass
class TlcResult:
    module: str
    cfg: str
    mode: str
    rc: int
    wall: float
    out: str
    generated: int = 0
    distinct: int = 0
    depth: int = 0
    ok: bool = False
    errors: list = dataclasses.field(default_factory=list)
    prints: list = dataclasses.field(default_factory=list)  # parsed PrintT values
    action_counts: dict = dataclasses.field(default_factory=dict)
    violated: t.Optional[str] = None
    trace_text: str = ""

    def tagged(self, tag: str) -> list:
        return [p[1:] for p in self.prints if isinstance(p, list) and p and p[0] == tag]

    def cases(self, tag: str = "CASE") -> list:
        """PrintT(<<tag, ToJson(v)>>) lines decoded from JSON."""
        out = []
        for p in self.tagged(tag):
            out.append(json.loads(p[0]))
        return out


def _parse(res: TlcResult) -> None:
    out = res.out
    lines = out.splitlines()
    i = 0
    started = False
    while i < len(lines):
        ln = lines[i]
        if ln.startswith("Starting...") or ln.startswith("Running Random Simulation") or ln.startswith("Running breadth"):
            started = True
        if ln.startswith("<<") or (ln.startswith('"') and started):
            parts = [ln]
            d = _depth_delta(ln)
            j = i
            while d > 0 and j + 1 < len(lines):
                j += 1
                parts.append(lines[j])
                d += _depth_delta(lines[j])
            try:
                res.prints.append(parse_value("\n".join(parts)))
                i = j + 1
                continue
            except Exception:
                pass
        i += 1
    m = None
    for m in re.finditer(r"(\d+) states generated, (\d+) distinct states found", out):
        pass
    if m:
        res.generated = int(m.group(1))
        res.distinct = int(m.group(2))
    m = re.search(r"depth of the complete state graph search is (\d+)", out)
    if m:
        res.depth = int(m.group(1))
    # simulation mode statistics
    m = None
    for m in re.finditer(r"Progress: (\d+) states checked, (\d+) traces generated", out):
        pass
    if m and not res.generated:
        res.generated = int(m.group(1))
        res.distinct = int(m.group(1))
    for m in re.finditer(r"^<(\w+) line \d+, col \d+ to line \d+, col \d+ of module (\w+)>: (\d+):(\d+)", out, re.M):
        res.action_counts[m.group(1)] = res.action_counts.get(m.group(1), 0) + int(m.group(4))
    errs = re.findall(r"^Error: (.*)$", out, re.M)
    res.errors = errs
    m = re.search(r"Invariant (\w+) is violated", out)
    if m:
        res.violated = m.group(1)
    m = re.search(r"Action property (\w+) is violated", out) or re.search(r"property (\w+) (?:is|was) violated", out)
    if m and not res.violated:
        res.violated = m.group(1)
    if "Temporal properties were violated" in out and not res.violated:
        res.violated = "temporal"
    if "Assumption" in out and "is false" in out and not res.violated:
        res.violated = "ASSUME"
    if errs or res.violated:
        k = out.find("Error:")
        res.trace_text = out[k : k + 6000]
    res.ok = (not errs) and (res.violated is None) and (
        "Model checking completed. No error has been found." in out or res.mode == "simulate" and res.rc in (0,)
    )


def run_tlc(
    module: str,
    cfg: str,
    *,
    rundir: pathlib.Path,
    workers: int = 16,
    simulate: t.Optional[str] = None,  # e.g. "num=1000" (adds -simulate)
    depth: t.Optional[int] = None,
    seed: t.Optional[int] = None,
    env: t.Optional[dict] = None,
    timeout: int = 3600,
    coverage: bool = False,
    deadlock: bool = True,
    dfs_queue: bool = False,
    heap: str = "4g",
    extra: t.Sequence[str] = (),
    spec_dir: pathlib.Path = SPEC,
    tag: str = "",
) -> TlcResult:
    """Run TLC on spec_dir/module.tla with configuration file spec_dir/cfg (or absolute path)."""
    rundir.mkdir(parents=True, exist_ok=True)
    meta = rundir / f"meta-{module}-{tag or 'x'}-{os.getpid()}-{int(time.time()*1000)%100000}"
    cfgp = pathlib.Path(cfg)
    if not cfgp.is_absolute():
        cfgp = spec_dir / cfg
    modp = pathlib.Path(module)
    if not modp.is_absolute():
        modp = spec_dir / (module + ".tla")
    if not modp.exists():
        raise MachineryError(f"spec module missing: {modp}")
    if not cfgp.exists():
        raise MachineryError(f"cfg missing: {cfgp}")
    cmd = [
        "java",
        f"-Xmx{heap}",
        "-Xss256m",            # deep RECURSIVE folds over long traces are evaluated on the main thread
        "-XX:+UseParallelGC",
        f"-DTLA-Library={spec_dir}",
        f"-Djava.io.tmpdir={meta}",   # SANY's scratch files go with the metadir, not into /tmp
    ]
    meta.mkdir(parents=True, exist_ok=True)
    if dfs_queue:
        cmd.append("-Dtlc2.tool.queue.IStateQueue=StateDeque")
    cmd += ["-cp", f"{JAR}:{CM}", "tlc2.TLC", "-workers", str(workers), "-metadir", str(meta), "-noGenerateSpecTE",
            "-config", str(cfgp)]
    if not deadlock:
        cmd.append("-deadlock")
    if coverage:
        cmd += ["-coverage", "1"]
    mode = "bfs"
    if simulate is not None:
        cmd += ["-simulate", simulate] if simulate else ["-simulate"]
        mode = "simulate"
    if depth is not None:
        cmd += ["-depth", str(depth)]
    if seed is not None:
        cmd += ["-seed", str(seed)]
    cmd += list(extra)
    cmd.append(str(modp))
    e = dict(os.environ)
    e.pop("JAVA_TOOL_OPTIONS", None)
    if env:
        e.update({k: str(v) for k, v in env.items()})
    t0 = time.time()
    try:
        pr = subprocess.run(cmd, cwd=str(modp.parent), env=e, capture_output=True, text=True, timeout=timeout)
        out = pr.stdout + pr.stderr
        rc = pr.returncode
    except subprocess.TimeoutExpired as ex:
        out = (ex.stdout or b"").decode(errors="replace") if isinstance(ex.stdout, bytes) else (ex.stdout or "")
        out += "\nError: TLC timed out (machinery)"
        rc = 124
    finally:
        shutil.rmtree(meta, ignore_errors=True)
    res = TlcResult(module=modp.stem, cfg=cfgp.name, mode=mode, rc=rc, wall=time.time() - t0, out=out)
    _parse(res)
    (rundir / f"tlc-{modp.stem}-{tag or cfgp.stem}.log").write_text(out[-400000:])
    return res


def require_ok(res: TlcResult, what: str) -> None:
    """A spec-level check that must pass on the unchanged spec; failure = machinery/spec bug."""
    if not res.ok:
        raise MachineryError(
            f"TLC run '{what}' ({res.module}/{res.cfg}) did not complete cleanly: violated={res.violated} "
            f"errors={res.errors[:3]}\n{res.trace_text[:3000]}\n--- tail ---\n{res.out[-1500:]}"
        )


def require_actions(res: TlcResult, actions: t.Sequence[str], what: str) -> None:
    """Vacuity guard: every named action must have been taken at least once."""
    missing = [a for a in actions if res.action_counts.get(a, 0) == 0]
    if missing:
        raise MachineryError(f"vacuity: actions never taken in '{what}': {missing}")


def write_cfg(rundir: pathlib.Path, name: str, text: str) -> pathlib.Path:
    rundir.mkdir(parents=True, exist_ok=True)
    p = rundir / name
    p.write_text(text)
    return p


def run_apalache(module: str, args: list[str], rundir: pathlib.Path, timeout: int = 900) -> tuple[bool, str, float]:
    out_dir = rundir / f"apa-{module}-{os.getpid()}"
    cmd = ["apalache-mc", "check", f"--out-dir={out_dir}", *args, str(SPEC / (module + ".tla"))]
    t0 = time.time()
    tmp = rundir / f"apa-tmp-{module}-{os.getpid()}"
    tmp.mkdir(parents=True, exist_ok=True)
    e = dict(os.environ)
    e["JVM_ARGS"] = (e.get("JVM_ARGS", "") + f" -Djava.io.tmpdir={tmp}").strip()      # SANY's scratch directories stay out of /tmp
    e["TMPDIR"] = str(tmp)
    try:
        pr = subprocess.run(cmd, cwd=str(SPEC), capture_output=True, text=True, timeout=timeout, env=e)
        out = pr.stdout + pr.stderr
        ok = pr.returncode == 0 and "The outcome is: NoError" in out
    except subprocess.TimeoutExpired:
        out, ok = "apalache timeout", False
    finally:
        shutil.rmtree(out_dir, ignore_errors=True)
        shutil.rmtree(tmp, ignore_errors=True)
    return ok, out, time.time() - t0
