"""Observation points installed in the *driver* process (no change to /repo needed)."""
from __future__ import annotations

import asyncio
import contextlib
import sys
import threading
import types
import typing as t

from cryptography.hazmat.primitives.kdf import kbkdf as _kbkdf


class BudgetExceeded(BaseException):
    """Raised by a tap when a work budget is blown.  BaseException so that no library
    `except Exception` can swallow it."""


_REAL_KBKDFHMAC = _kbkdf.KBKDFHMAC
_ACTIVE: list = []


class _TappedKBKDFHMAC:
    """Python stand-in for the (native) KBKDFHMAC class: same constructor, remembers the
    arguments so that an active KdfTap can log label/context of every derivation."""

    def __init__(self, *args: t.Any, **kw: t.Any) -> None:
        self._kw = kw
        self._real = _REAL_KBKDFHMAC(*args, **kw)

    def derive(self, key_material: bytes) -> bytes:
        for tap in _ACTIVE:
            tap.n += 1
            if tap.n > tap.budget:
                raise BudgetExceeded(f"KDF budget {tap.budget} exceeded")
        out = self._real.derive(key_material)
        for tap in _ACTIVE:
            if tap.record:
                kw = self._kw
                tap.calls.append(
                    {
                        "hash": kw["algorithm"].name.upper().replace("-", ""),
                        "key": bytes(key_material),
                        "label": kw.get("label"),
                        "context": kw.get("context"),
                        "length": kw.get("length"),
                        "out": out,
                    }
                )
        return out

    def verify(self, key_material: bytes, expected_key: bytes) -> None:
        return self._real.verify(key_material, expected_key)


from cryptography.hazmat.primitives.kdf import concatkdf as _concatkdf

_REAL_CONCATKDF = _concatkdf.ConcatKDFHash
CONCAT_LOG: list = []


class _TappedConcatKDFHash:
    """Python stand-in for the native ConcatKDFHash: logs (hash, length, otherinfo, Z, out)."""

    def __init__(self, algorithm: t.Any, length: int, otherinfo: t.Optional[bytes], *a: t.Any, **kw: t.Any) -> None:
        self._args = (algorithm.name.upper().replace("-", ""), length, otherinfo)
        self._real = _REAL_CONCATKDF(algorithm, length, otherinfo, *a, **kw)

    def derive(self, key_material: bytes) -> bytes:
        out = self._real.derive(key_material)
        if len(CONCAT_LOG) < 100000:
            CONCAT_LOG.append({"hash": self._args[0], "length": self._args[1], "otherinfo": self._args[2], "z": bytes(key_material), "out": out})
        return out

    def verify(self, key_material: bytes, expected_key: bytes) -> None:
        return self._real.verify(key_material, expected_key)


def install() -> None:
    """Must run before dpapi_ng is imported (harness.taps is imported first by every driver);
    also repairs the binding if dpapi_ng._crypto was imported earlier."""
    _kbkdf.KBKDFHMAC = _TappedKBKDFHMAC  # type: ignore
    _concatkdf.ConcatKDFHash = _TappedConcatKDFHash  # type: ignore
    m = sys.modules.get("dpapi_ng._crypto")
    if m is not None and getattr(m, "KBKDFHMAC", None) is _REAL_KBKDFHMAC:
        m.KBKDFHMAC = _TappedKBKDFHMAC  # type: ignore
    if m is not None and getattr(m, "ConcatKDFHash", None) is _REAL_CONCATKDF:
        m.ConcatKDFHash = _TappedConcatKDFHash  # type: ignore


install()


class KdfTap:
    """Logs every SP800-108 derivation made while active and enforces a call budget."""

    def __init__(self, budget: int = 256, record: bool = True) -> None:
        self.budget = budget
        self.record = record
        self.calls: list[dict] = []
        self.n = 0

    def __enter__(self) -> "KdfTap":
        _ACTIVE.append(self)
        return self

    def __exit__(self, *a: t.Any) -> None:
        _ACTIVE.remove(self)

    def reset(self) -> None:
        self.calls = []
        self.n = 0


@contextlib.contextmanager
def clock(module: t.Any, unix_ns: t.Union[int, t.Callable[[], int]]):
    """The wall clock as the library sees it.  The `time` name seen by `module` (e.g. dpapi_ng._client) is replaced by a fake
    whose time_ns() / time() return the given instant; the global time module is untouched.  So that the way the library reads
    the clock is not part of what the checks depend on, the same instant is also what `datetime.datetime.now()/utcnow()/today()`
    return inside the library's modules, and if `module` no longer has a `time` name (it reads the clock some other way) the
    functions of the global time module are replaced for the duration instead."""
    read = (lambda: unix_ns) if isinstance(unix_ns, int) else unix_ns
    with contextlib.ExitStack() as st:
        real = getattr(module, "time", None)
        if real is not None and hasattr(real, "time_ns"):
            fake = types.SimpleNamespace(**{k: getattr(real, k) for k in dir(real) if not k.startswith("__")})
            fake.time_ns = read
            fake.time = lambda: read() / 1e9
            module.time = fake
            st.callback(setattr, module, "time", real)
        else:
            st.enter_context(global_clock(read))
        st.enter_context(_virtual_datetime(read))
        yield


@contextlib.contextmanager
def _virtual_datetime(read_ns: t.Callable[[], int]):
    """datetime.datetime.now() / utcnow() / today() follow the virtual clock for the duration (reached through the datetime
    module by anyone, or through the class held by one of dpapi_ng's modules)."""
    import datetime as _dt

    real_cls = _dt.datetime

    class VirtualDatetime(real_cls):  # type: ignore
        @classmethod
        def now(cls, tz=None):  # noqa
            ns = int(read_ns())
            return cls.fromtimestamp(ns // 10**9, tz).replace(microsecond=(ns // 1000) % 10**6)

        @classmethod
        def utcnow(cls):  # noqa
            ns = int(read_ns())
            return cls.fromtimestamp(ns // 10**9, _dt.timezone.utc).replace(tzinfo=None, microsecond=(ns // 1000) % 10**6)

        @classmethod
        def today(cls):  # noqa
            return cls.now()

    # the class as reached through the datetime module (whoever imports it, whenever) ...
    undo: list[tuple] = [(_dt, "datetime", real_cls)]
    _dt.datetime = VirtualDatetime  # type: ignore
    # ... and where a module of the library holds the class itself (from datetime import datetime)
    for name, mod in list(sys.modules.items()):
        if not (name == "dpapi_ng" or name.startswith("dpapi_ng.")) or mod is None:
            continue
        for attr, val in list(vars(mod).items()):
            if val is real_cls:
                undo.append((mod, attr, val))
                setattr(mod, attr, VirtualDatetime)
    try:
        yield
    finally:
        for mod, attr, val in undo:
            setattr(mod, attr, val)


class StepMeter:
    """Counts line events executed in files under a path prefix; raises BudgetExceeded."""

    def __init__(self, prefix: str, budget: int) -> None:
        self.prefix = prefix
        self.budget = budget
        self.n = 0

    def _local(self, frame, event, arg):  # noqa
        if event == "line":
            self.n += 1
            if self.n > self.budget:
                raise BudgetExceeded(f"step budget {self.budget} exceeded")
        return self._local

    def _global(self, frame, event, arg):  # noqa
        if frame.f_code.co_filename.startswith(self.prefix):
            return self._local
        return None

    def __enter__(self) -> "StepMeter":
        self.n = 0
        sys.settrace(self._global)
        return self

    def __exit__(self, *a: t.Any) -> None:
        sys.settrace(None)


class Hang(BaseException):
    """A call into the library did not return within its wall-clock limit."""


@contextlib.contextmanager
def time_limit(seconds: float):
    """Wall-clock guard for one call into the library (main thread only): a busy loop that neither reads, derives
    keys nor yields to the event loop still ends, as Hang.  Nested guards keep the outer timer."""
    import signal

    if threading.current_thread() is not threading.main_thread():
        yield
        return

    def on_alarm(signum, frame):  # noqa
        raise Hang(f"no return within {seconds}s")

    old = signal.signal(signal.SIGALRM, on_alarm)
    prev = signal.setitimer(signal.ITIMER_REAL, seconds)
    try:
        yield
    finally:
        signal.setitimer(signal.ITIMER_REAL, 0)
        signal.signal(signal.SIGALRM, old)
        if prev[0] > 0:
            signal.setitimer(signal.ITIMER_REAL, prev[0])


class CountingReader(asyncio.StreamReader):
    """StreamReader that turns a coroutine spinning on reads after EOF (never yielding to the loop) into Hang."""

    budget = 5000

    def __init__(self, *a: t.Any, **k: t.Any) -> None:
        super().__init__(*a, **k)
        self.eof_reads = 0

    def _count(self) -> None:
        if self.at_eof():
            self.eof_reads += 1
            if self.eof_reads > self.budget:
                raise Hang("coroutine keeps reading after EOF without progress")

    async def read(self, n: int = -1) -> bytes:
        self._count()
        return await super().read(n)

    async def readexactly(self, n: int) -> bytes:
        self._count()
        return await super().readexactly(n)


@contextlib.contextmanager
def global_clock(read_ns: t.Callable[[], int]):
    """Replaces time.time_ns / time.time process-wide (every module sees it, whichever way it imported `time`):
    a frozen, coarse or stepping wall clock is ordinary host behaviour.  time.monotonic is left alone."""
    import time as _time

    real = (_time.time_ns, _time.time)
    _time.time_ns = lambda: int(read_ns())           # type: ignore
    _time.time = lambda: read_ns() / 1e9             # type: ignore
    try:
        yield
    finally:
        _time.time_ns, _time.time = real             # type: ignore
