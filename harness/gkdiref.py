"""Reference MS-GKDI key material built from the TLC-exported derivation graph."""
from __future__ import annotations

import json
import struct
import typing as t
import uuid

from . import evaluator as ev
from .core import Ctx, MachineryError, RUN
from .tlc import run_tlc

_GRAPH: t.Optional[list] = None
_GRAPH_LOCK = __import__("threading").Lock()


def graph(ctx: t.Optional[Ctx] = None) -> list[dict]:
    """Parent/KdfContext for all 1+32+32*32 nodes, exported by TLC from GkdiGraph.tla."""
    global _GRAPH
    with _GRAPH_LOCK:
        return _graph_locked(ctx)


def _graph_locked(ctx: t.Optional[Ctx] = None) -> list[dict]:
    global _GRAPH
    if _GRAPH is None:
        rundir = ctx.rundir if ctx else RUN / "shared"
        rundir.mkdir(parents=True, exist_ok=True)
        out = rundir / "gkdi_graph.json"
        res = run_tlc("ExportGkdi", "ExportGkdi.cfg", rundir=rundir, workers=1, env={"OUT_FILE": str(out)}, tag="export")
        if res.errors or not out.exists():
            raise MachineryError(f"graph export failed: {res.errors}\n{res.out[-1500:]}")
        _GRAPH = json.loads(out.read_text())
        if len(_GRAPH) != 1 + 32 + 32 * 32:
            raise MachineryError(f"graph export has {len(_GRAPH)} nodes")
    return _GRAPH


class KeySet:
    """All node keys for one (hash, root key, rkid, SD, L0)."""

    def __init__(self, h: str, root_key: bytes, rkid: uuid.UUID, sd: bytes, l0: int, ctx: t.Optional[Ctx] = None) -> None:
        self.h, self.root_key, self.rkid, self.sd, self.l0 = h, root_key, rkid, sd, l0
        self.tbl = ev.key_table(graph(ctx), h, root_key, rkid, sd, l0)
        self.rev = {v: k for k, v in self.tbl.items()}

    def key(self, *node: t.Any) -> bytes:
        return self.tbl[tuple(node)]

    def node_of(self, b: bytes) -> list:
        n = self.rev.get(bytes(b))
        return list(n) if n else ["?"]

    def l2(self, l1: int, l2: int) -> bytes:
        return self.tbl[("L2", l1, l2)]

    def l1(self, l1: int) -> bytes:
        return self.tbl[("L1", l1)]

    def shapes(self, a: int, b: int) -> list[dict]:
        """Envelope shapes at (a,b) as in GkdiGraph!Shapes (mirrored here only to *build*
        inputs; TraceGkdi re-checks WellShaped on every line)."""
        if b == 31:
            return [
                {"a": a, "b": b, "l1": ["L1", a], "l2": ["L2", a, b]},
                {"a": a, "b": b, "l1": ["L1", a], "l2": ["none"]},
            ]
        return [{"a": a, "b": b, "l1": ["L1", a - 1] if a > 0 else ["none"], "l2": ["L2", a, b]}]

    def node_bytes(self, n: list) -> bytes:
        return b"" if n[0] == "none" else self.tbl[tuple(n)]

    def parse_ctx(self, c: bytes) -> dict:
        rk = c[:16] == self.rkid.bytes_le
        if len(c) < 28:
            return {"rk": False, "cl0": -9, "cl1": -9, "cl2": -9, "sd": False}
        l0, l1, l2 = struct.unpack("<iii", c[16:28])
        rest = c[28:]
        sd = rest == self.sd and len(rest) > 0
        ok_tail = rest == b"" or rest == self.sd
        return {"rk": rk and ok_tail, "cl0": l0, "cl1": l1, "cl2": l2, "sd": sd}

    def abstract_calls(self, calls: list[dict]) -> list[dict]:
        out = []
        for c in calls:
            d = self.parse_ctx(c["context"] or b"")
            d.update(
                src=self.node_of(c["key"]),
                dst=self.node_of(c["out"]),
                lab=c["label"] == ev.KDS_SERVICE,
                len=c["length"],
                h=c["hash"] == self.h,
            )
            out.append(d)
        return out


def kdf_parameters(h: str) -> bytes:
    name = ev.utf16z(h)
    return b"\x00\x00\x00\x00\x01\x00\x00\x00" + struct.pack("<I", len(name)) + b"\x00\x00\x00\x00" + name
