"""Batch validation of recorded executions against a Trace*.tla module.

Protocol with the trace modules: they read ndjson from IOEnv.TRACE_FILE, evaluate the spec
operators on every line (or fold the spec's successor relation over every trace) and print
   <<"RESULT", stats-record, {<<id, {failing clause names}>>, ...}>>
The verdict is total: every line gets a (possibly empty) set of failing clauses.
"""
from __future__ import annotations

import concurrent.futures as cf
import pathlib
import typing as t

from .core import Ctx, MachineryError, write_ndjson
from .tlc import run_tlc


def validate(
    ctx: Ctx,
    module: str,
    cfg: str,
    rows: list[dict],
    *,
    chunk: int = 20000,
    parallel: int = 12,
    what: str = "",
    env: t.Optional[dict] = None,
    timeout: int = 3000,
    count_traces: bool = True,
    heap: str = "3g",
) -> tuple[dict[t.Any, list[str]], list[dict]]:
    """Returns ({id: [failing clauses]}, [stats per batch]).  ids must be unique ints/strings."""
    if not rows:
        return {}, []
    files = []
    for k in range(0, len(rows), chunk):
        p = ctx.rundir / f"{module}-{what or 'trace'}-{k // chunk:04d}.ndjson"
        write_ndjson(p, rows[k : k + chunk])
        files.append(p)

    def one(p: pathlib.Path):
        e = {"TRACE_FILE": str(p)}
        if env:
            e.update(env)
        return run_tlc(module, cfg, rundir=ctx.rundir, workers=1, env=e, timeout=timeout, tag=p.stem, heap=heap)

    bad: dict[t.Any, list[str]] = {}
    stats = []
    with cf.ThreadPoolExecutor(max_workers=min(parallel, len(files))) as ex:
        for p, res in zip(files, ex.map(one, files)):
            r = res.tagged("RESULT")
            if not r or res.errors:
                raise MachineryError(
                    f"trace validation run failed for {p.name} ({module}): errors={res.errors[:3]}\n{res.out[-2500:]}"
                )
            st, b = r[0][0], r[0][1]
            stats.append(st)
            for item in b:
                bad[item[0]] = sorted(item[1])
            ctx.cov["tlc_runs"].append(
                {"what": f"trace validation {what} {p.name}", "module": module, "lines": st.get("n"), "wall_s": round(res.wall, 2)}
            )
    if count_traces:
        ctx.traces(len(rows))
    return bad, stats


def selftest_expect_reject(ctx: Ctx, module: str, cfg: str, good: list[dict], corrupted: list[dict], what: str) -> None:
    """Binding demonstration: uncorrupted rows are accepted, every corrupted row is rejected."""
    bad, _ = validate(ctx, module, cfg, good, what=what + "-good", count_traces=False)
    if bad:
        raise MachineryError(f"selftest {what}: good rows rejected: {list(bad.items())[:3]}")
    bad, _ = validate(ctx, module, cfg, corrupted, what=what + "-corrupt", count_traces=False)
    missing = [r["id"] for r in corrupted if r["id"] not in bad]
    if missing:
        raise MachineryError(f"selftest {what}: corrupted rows accepted: {missing[:5]}")
