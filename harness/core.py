"""Shared plumbing for every check: context, verdicts, evidence, known findings.

Exit status contract (see DESIGN 4.5):
  0  property held on everything explored (KNOWN-FINDING lines allowed)
  1  at least one violation not listed in known_findings.json
  2  machinery failure (TLC missing, calibration failed, harness bug)
"""
from __future__ import annotations

import hashlib
import json
import os
import pathlib
import random
import sys
import time
import traceback
import typing as t

VERIF = pathlib.Path(__file__).resolve().parent.parent
REPO = pathlib.Path(os.environ.get("VERIF_REPO", "/repo"))
SPEC = VERIF / "spec"
RUN = pathlib.Path(os.environ.get("VERIF_RUN_DIR", VERIF / "run"))
EVIDENCE = pathlib.Path(os.environ.get("VERIF_EVIDENCE_DIR", VERIF / "evidence"))
REPLAYS = pathlib.Path(os.environ.get("VERIF_REPLAY_DIR", VERIF / "replays"))
KNOWN = VERIF / "known_findings.json"


class MachineryError(Exception):
    """Something in the checking machinery itself failed (exit 2)."""


def jsonable(x: t.Any) -> t.Any:
    if isinstance(x, (bytes, bytearray, memoryview)):
        return {"hex": bytes(x).hex()}
    if isinstance(x, dict):
        return {str(k): jsonable(v) for k, v in x.items()}
    if isinstance(x, (list, tuple, set, frozenset)):
        return [jsonable(v) for v in x]
    if isinstance(x, (str, int, float, bool)) or x is None:
        return x
    return repr(x)


class Ctx:
    def __init__(self, pid: str, tier: str, seed: int, level: str = "model_checking") -> None:
        self.pid = pid
        self.tier = tier
        self.seed = seed
        self.level = level
        self.t0 = time.time()
        self.rng = random.Random((seed << 8) ^ int(hashlib.sha1(pid.encode()).hexdigest()[:8], 16))
        self.rundir = RUN / pid
        self.rundir.mkdir(parents=True, exist_ok=True)
        for f in self.rundir.glob("*.ndjson"):
            f.unlink()
        self.violations: list[dict] = []
        self.known_hits: list[dict] = []
        self.drift: dict[str, int] = {}
        self.cov: dict[str, t.Any] = {
            "states": 0,
            "transitions": 0,
            "traces_validated_against_impl": 0,
            "evaluations": 0,
            "samples": [],
            "tlc_runs": [],
        }
        self.assumptions: list[str] = []
        self._distinct: set[str] = set()
        self._known = json.loads(KNOWN.read_text()) if KNOWN.exists() else {"findings": [], "fixed": []}
        self._nviol_files = 0
        self.viol_counts: dict[str, int] = {}

    # ---- tiers -----------------------------------------------------------
    @property
    def thorough(self) -> bool:
        return self.tier == "thorough"

    def pick(self, quick: t.Any, thorough: t.Any) -> t.Any:
        return thorough if self.thorough else quick

    # ---- coverage accounting ----------------------------------------------
    def count(self, n: int = 1) -> None:
        self.cov["evaluations"] += n

    def distinct(self, key: t.Any) -> None:
        """Register one distinct non-trivial case (hashed to keep memory small)."""
        self._distinct.add(hashlib.blake2b(repr(key).encode(), digest_size=8).hexdigest())

    def sample(self, s: t.Any, cap: int = 8) -> None:
        if len(self.cov["samples"]) < cap:
            self.cov["samples"].append(jsonable(s))

    def add_tlc(self, res: "t.Any", what: str) -> None:
        self.cov["states"] += res.distinct
        self.cov["transitions"] += res.generated
        self.cov["tlc_runs"].append(
            {"what": what, "module": res.module, "cfg": res.cfg, "distinct_states": res.distinct,
             "states_generated": res.generated, "depth": res.depth, "wall_s": round(res.wall, 2),
             "mode": res.mode}
        )

    def traces(self, n: int) -> None:
        self.cov["traces_validated_against_impl"] += n

    def note_drift(self, kind: str, n: int = 1) -> None:
        self.drift[kind] = self.drift.get(kind, 0) + n

    def assume(self, s: str) -> None:
        if s not in self.assumptions:
            self.assumptions.append(s)

    # ---- verdicts -----------------------------------------------------------
    def violation(self, key: str, clause: str, case: t.Any, detail: str = "") -> None:
        """Record a violation of a clause of the property statement.

        key   stable identifier of the failing input/call site/history (used to match
              known_findings.json); keep it specific.
        """
        for f in self._known.get("findings", []):
            if f.get("property") == self.pid and f.get("key") == key:
                if not any(h["key"] == key for h in self.known_hits):
                    self.known_hits.append({"key": key, "what": f.get("what", clause)})
                return
        self.viol_counts[key] = self.viol_counts.get(key, 0) + 1
        if self.viol_counts[key] > 1 or len(self.viol_counts) > 80:
            self.violations.append({"key": key, "clause": clause, "truncated": True})
            return
        rec = {"property": self.pid, "key": key, "clause": clause, "detail": detail[:2000], "case": jsonable(case)}
        d = REPLAYS / self.pid
        d.mkdir(parents=True, exist_ok=True)
        self._nviol_files += 1
        p = d / f"{self.tier}-{self.seed}-{self._nviol_files:03d}.json"
        p.write_text(json.dumps(rec, indent=1))
        rec["replay"] = str(p)
        self.violations.append(rec)

    def finish(self, rule: str, explanation: str = "", exhaustive: bool = False) -> int:
        wall = time.time() - self.t0
        cov = dict(self.cov)
        cov["distinct_nontrivial"] = len(self._distinct)
        cov["rule"] = rule
        if explanation:
            cov["explanation"] = explanation
        cov["exhaustive"] = exhaustive
        cov["drift"] = self.drift
        cov["known_findings_hit"] = self.known_hits
        if not cov["samples"]:
            cov["samples"] = ["(no sample recorded)"]
        ev = {
            "property_id": self.pid,
            "tier": self.tier,
            "seed": self.seed,
            "level": self.level,
            "coverage": cov,
            "assumptions": self.assumptions,
            "wall_s": round(wall, 2),
            "violations": len(self.violations),
        }
        EVIDENCE.mkdir(parents=True, exist_ok=True)
        (EVIDENCE / f"{self.pid}.json").write_text(json.dumps(ev, indent=1))
        for h in self.known_hits:
            print(f"KNOWN-FINDING: property={self.pid} {h['what']} [{h['key']}]")
        seen = set()
        for v in self.violations:
            if v.get("truncated"):
                continue
            if v["key"] in seen:
                continue
            seen.add(v["key"])
            print(f"VIOLATION property={self.pid} replay={v['replay']}")
            print(f"  clause: {v['clause']}  key: {v['key']}  occurrences: {self.viol_counts.get(v['key'], 1)}")
            if v.get("detail"):
                print("  " + v["detail"].replace("\n", "\n  ")[:600])
        print(
            f"[{self.pid}] tier={self.tier} seed={self.seed} states={cov['states']} "
            f"evaluations={cov['evaluations']} traces={cov['traces_validated_against_impl']} "
            f"distinct={cov['distinct_nontrivial']} violations={len(self.violations)} "
            f"known={len(self.known_hits)} drift={sum(self.drift.values())} wall={wall:.1f}s"
        )
        return 1 if self.violations else 0


def write_ndjson(path: pathlib.Path, rows: t.Iterable[t.Any]) -> int:
    n = 0
    with open(path, "w") as f:
        for r in rows:
            f.write(json.dumps(r, separators=(",", ":")))
            f.write("\n")
            n += 1
    return n


def exc_class(e: BaseException) -> str:
    return type(e).__module__ + "." + type(e).__name__


def main_wrapper(fn: t.Callable[[], int]) -> None:
    try:
        rc = fn()
    except MachineryError as e:
        print(f"MACHINERY-FAILURE: {e}", file=sys.stderr)
        traceback.print_exc()
        sys.exit(2)
    except Exception as e:  # noqa
        print(f"MACHINERY-FAILURE (unexpected {type(e).__name__}): {e}", file=sys.stderr)
        traceback.print_exc()
        sys.exit(2)
    sys.exit(rc)
