"""Peer faults at every step of the online conversation, driven through the public protect / unprotect API.

A scenario = (op, flavour, step, kind, cut): the reference DC behaves conformingly up to `step`, where the fault `kind`
happens (connection refused, connection ended after `cut` bytes of the reply, bind_nak, fault PDU, PDU of the wrong
type, endpoint mapper without a usable tower / with an error status, GetKey HRESULT, DNS failure).  Afterwards the same
call is repeated against a healthy DC *with the same KeyCache*.  The scenario set is emitted by TLC from
spec/OnlineFaults.tla; the observations are judged by spec/TraceFaults.tla.
"""
from __future__ import annotations

import asyncio
import typing as t
import uuid

from . import blobref, refdc, sdref, taps
from .core import MachineryError

SID = "S-1-5-21-2185496602-3367037166-1388177638-1103"
USER = f"{refdc.DOMAIN}\\{refdc.USER}"
STEP_OF = {(1, "bind_ack"): "bind1", (1, "response"): "eptmap", (1, "fault"): "eptmap",
           (2, "bind_ack"): "bind2", (2, "alter_resp"): "alter", (2, "response"): "getkey", (2, "fault"): "getkey"}


class FaultNet(refdc.Network):
    """Network whose connections can be refused and whose replies can end early."""

    def __init__(self, dc: refdc.DC, refuse: t.Optional[int] = None) -> None:
        super().__init__(dc)
        self.refuse = refuse
        self.opened: list[refdc.Connection] = []
        self.attempts = 0

    def accept(self, host: str, port: int) -> refdc.Connection:
        self.attempts += 1
        if self.refuse is not None and self.attempts == self.refuse:
            self.dc.transcript.append({"ev": "connect_refused", "host": host, "port": port})
            raise ConnectionRefusedError(111, "Connection refused (scripted)")
        c = super().accept(host, port)
        self.opened.append(c)
        return c

    async def open_connection(self, host: str, port: int = 0, **k: t.Any):  # type: ignore
        conn = self.accept(host, port)
        reader = taps.CountingReader()
        return reader, EofWriter(conn, reader, self)


class EofWriter(refdc.FakeWriter):
    def write(self, data: bytes) -> None:
        super().write(data)
        if getattr(self.conn, "eof_now", False):
            self.reader.feed_eof()


def _mangle_for(step: str, kind: str, cut: int, state: dict) -> t.Callable[[str, bytes, refdc.Connection], bytes]:
    def mangle(k: str, reply: bytes, c: refdc.Connection) -> bytes:
        here = STEP_OF.get((c.id if c.id <= 2 else 2, k))
        if here != step or state.get("done"):
            return reply
        state["done"] = True
        h = refdc.parse_header(reply)
        cid = h["call_id"]
        state["len"] = len(reply)
        if kind == "eof":
            c.eof_now = True  # type: ignore
            n = cut if cut >= 0 else max(0, len(reply) + cut)
            state["cut_at"] = min(n, max(0, len(reply) - 1))
            return reply[: state["cut_at"]]
        if kind == "nak":
            return refdc.finish_pdu(refdc.PT_BIND_NAK, 3, cid, refdc.bind_nak_body(0))
        if kind == "fault":
            return refdc.finish_pdu(refdc.PT_FAULT, 3, cid, refdc.fault_body(5))
        if kind == "wrongtype":
            other = refdc.PT_RESPONSE if k in ("bind_ack", "alter_resp") else refdc.PT_BIND_ACK
            body = refdc.response_body(b"\x00" * 16) if other == refdc.PT_RESPONSE else refdc.bind_ack_body([(0, 0, refdc.NDR64)])
            return refdc.finish_pdu(other, 3, cid, body)
        if kind == "no_towers":
            return refdc.finish_pdu(refdc.PT_RESPONSE, 3, cid, refdc.response_body(refdc.ept_map_response([], 0)))
        if kind == "no_tcp_floor":
            np = [refdc.uuid_floor(refdc.ISD_KEY), refdc.uuid_floor(refdc.NDR), refdc.floor(0x0B, b"", b"\x00\x00"),
                  refdc.floor(0x0F, b"", b"\\pipe\\lsass\x00"), refdc.floor(0x11, b"", b"\\\\DC01\x00")]
            return refdc.finish_pdu(refdc.PT_RESPONSE, 3, cid, refdc.response_body(refdc.ept_map_response([refdc.tower_octets(np)], 0)))
        if kind == "status":
            tw = refdc.tower_octets(refdc.tcp_tower(refdc.ISD_KEY, 49664))
            return refdc.finish_pdu(refdc.PT_RESPONSE, 3, cid, refdc.response_body(refdc.ept_map_response([tw], 0x16C9A0D6)))
        raise MachineryError(f"unknown fault kind {kind}")

    return mangle


def scenario(sc: dict) -> dict:
    """sc: {id, op, flavour, step, kind, cut, seed, hash, dns}  ->  observation row for TraceFaults."""
    import random

    import dpapi_ng

    rng = random.Random(sc["seed"])
    dc = refdc.DC()
    rkid = uuid.UUID(bytes=rng.randbytes(16))
    dc.add_root_key(rkid, refdc.RootKeyInfo(rng.randbytes(64), sc["hash"], *SECRET))
    dc.now = (361, 7, 9)
    sd = sdref.target_sd(SID)
    plain = rng.randbytes(24)
    named = (361, 5, 3)
    blob = blobref.make_blob(sc["hash"], dc.keyset(rkid, sd, named[0]).l2(named[1], named[2]), rkid, *named, SID, plain, rng.randbytes,
                             domain="verif.test", forest="verif.test")
    cache = dpapi_ng.KeyCache()
    kw: dict = dict(server="dc.verif.test", username=USER, password=refdc.PASSWORD, auth_protocol="ntlm", cache=cache)
    dns_fail = sc["step"] == "dns"
    if sc.get("dns") or dns_fail:
        kw["server"] = None
        if sc["op"] == "protect":
            kw["domain_name"] = "verif.test"

    def call() -> tuple[str, str]:
        if sc["op"] == "unprotect":
            out = dpapi_ng.ncrypt_unprotect_secret(blob, **kw) if sc["flavour"] == "sync" else asyncio.run(dpapi_ng.async_ncrypt_unprotect_secret(blob, **kw))
            return ("ok" if out == plain else "wrong"), ""
        out = (dpapi_ng.ncrypt_protect_secret(plain, SID, root_key_identifier=rkid, **kw) if sc["flavour"] == "sync"
               else asyncio.run(dpapi_ng.async_ncrypt_protect_secret(plain, SID, root_key_identifier=rkid, **kw)))
        try:
            info = dc.root_keys[rkid]
            pt, p = blobref.open_blob(out, sc["hash"], lambda kid: dc.keyset(kid["rkid"], sd, kid["l0"]).l2(kid["l1"], kid["l2"]), info.secret_alg, info.priv_len_bits)
            return ("ok" if pt == plain else "wrong"), ""
        except Exception as e:  # noqa
            return "wrong", type(e).__name__

    import dns.asyncresolver
    import dns.rdata
    import dns.rdataclass
    import dns.rdatatype
    import dns.resolver

    dns_state = {"fail": dns_fail, "kind": sc["kind"]}

    def srv_answer(q: t.Any, rdtype: t.Any = "A", *a: t.Any, **k: t.Any) -> list:
        if dns_state["fail"]:
            if dns_state["kind"] == "nxdomain":
                raise dns.resolver.NXDOMAIN()
            if dns_state["kind"] == "noanswer":
                raise dns.resolver.NoAnswer()
            return []
        return [dns.rdata.from_text(dns.rdataclass.IN, dns.rdatatype.SRV, "0 100 389 dc.verif.test.")]

    async def asrv_answer(q: t.Any, rdtype: t.Any = "A", *a: t.Any, **k: t.Any) -> list:
        return srv_answer(q, rdtype, *a, **k)

    o_res = (dns.resolver.resolve, dns.asyncresolver.resolve)
    dns.resolver.resolve, dns.asyncresolver.resolve = srv_answer, asrv_answer  # type: ignore
    row = {"id": sc["id"], "op": sc["op"], "flavour": sc["flavour"], "step": sc["step"], "kind": sc["kind"]}
    try:
        state: dict = {}
        refuse = {"connect1": 1, "connect2": 2}.get(sc["step"]) if sc["kind"] == "refused" else None
        saved_keys = dict(dc.root_keys)
        if sc["kind"] == "hresult":
            dc.root_keys.clear()          # the DC does not know the root key: GetKey fails with an HRESULT (sealed like any reply)
            state["done"] = True
        net = FaultNet(dc, refuse)
        net.on_connection = lambda c: setattr(c, "mangle", _mangle_for(sc["step"], sc["kind"], sc["cut"], state))
        try:
            with net, taps.time_limit(25):
                res, detail = call()
        except MachineryError:
            raise
        except taps.Hang:
            res, detail = "hang", ""
        except BaseException as e:  # noqa
            res, detail = "error", type(e).__name__
        injected = bool(state.get("done")) or (refuse is not None and net.attempts >= refuse) or dns_fail
        row.update(res=res, exc=detail, injected=injected, opened=len(net.opened), leaked=sum(1 for c in net.opened if not c.closed),
                   getkeys=len(dc.getkey_log), cut=state.get("cut_at", -1), replyLen=state.get("len", 0))
        # the same call again, healthy peer, same cache
        dc.root_keys.update(saved_keys)
        dns_state["fail"] = False
        dc.getkey_log.clear()
        net2 = FaultNet(dc, None)
        try:
            with net2, taps.time_limit(25):
                res2, detail2 = call()
        except MachineryError:
            raise
        except taps.Hang:
            res2, detail2 = "hang", ""
        except BaseException as e:  # noqa
            res2, detail2 = "error", type(e).__name__
        row.update(retry=res2, retryExc=detail2, retryGetkeys=len(dc.getkey_log), retryLeaked=sum(1 for c in net2.opened if not c.closed))
    finally:
        dns.resolver.resolve, dns.asyncresolver.resolve = o_res  # type: ignore
    return row


SECRET = ("ECDH_P256", 256, 256)


def run_scenarios(scs: list[dict], procs: int = 8) -> list[dict]:
    import concurrent.futures as cf
    import multiprocessing as mp
    import os

    refdc.ensure_ntlm_users()
    from . import gkdiref
    gkdiref.graph(None)
    n = max(1, min(procs, (os.cpu_count() or 2) - 2, int(os.environ.get("VERIF_PLAY_PROCS", str(procs)))))
    if n == 1 or len(scs) < 8:
        return [scenario(s) for s in scs]
    with cf.ProcessPoolExecutor(max_workers=n, mp_context=mp.get_context("fork")) as ex:
        return list(ex.map(scenario, scs, chunksize=4))


# ---- the check slice shared by C10 / C14 / C15 / C18 -------------------------------------------------------------
def prop_of(step: str, kind: str) -> str:
    if kind == "eof":
        return "C14"
    if step in ("bind1", "bind2", "alter"):
        return "C15"
    if step == "eptmap" and kind in ("no_towers", "no_tcp_floor", "status"):
        return "C18"
    return "EXT"


def check(ctx: t.Any, prop: str) -> None:
    """Model-check OnlineFaults, concretise its (step, kind) table for `prop`'s slice through the public API and judge
    the observations with TraceFaults.  Clauses named after `prop` are violations, all others are reported as drift."""
    from .tlc import require_actions, require_ok, run_tlc
    from .tracecheck import validate

    r = run_tlc("OnlineFaults", "MC_OnlineFaults.cfg", rundir=ctx.rundir, coverage=True, tag="faults")
    require_ok(r, "OnlineFaults model check")
    require_actions(r, ["Lookup", "StepOk", "StepFault", "Abort", "NextCall", "End"], "OnlineFaults")
    ctx.add_tlc(r, "OnlineFaults: every (step, fault kind) of the online conversation, DNS discovery, 2 auth legs, followed by a second call on the "
                   "same cache: FaultSurfaces, NothingStoredByFailedCall, NoLeak, RetryAsFresh, DcContacts, OneConnectionAtATime, Terminates")
    table = sorted({(c[0], c[1]) for c in r.tagged("CASE") if c[0] != "none"})
    if len(table) < 25:
        raise MachineryError(f"fault table emission too small: {table}")
    mine = [(s, k) for s, k in table if prop == "C10" or prop_of(s, k) == prop]
    rng = ctx.rng
    hashes = ["SHA256", "SHA512", "SHA1", "SHA384"]
    scs: list[dict] = []

    def add(op: str, fl: str, step: str, kind: str, cut: int, dns: bool) -> None:
        scs.append(dict(id=len(scs), op=op, flavour=fl, step=step, kind=kind, cut=cut, seed=ctx.seed * 1000003 + len(scs), hash=hashes[len(scs) % 4], dns=dns))

    # pass 1: every cell of the slice, both operations and flavours; EOF at the structural offsets
    base_cuts = [0, 1, 9, 15, 16, 17, 24, -2, -1]
    for step, kind in mine:
        for op in ("unprotect", "protect"):
            for fl in ("sync", "async"):
                cuts = [0]
                if kind == "eof":
                    cuts = base_cuts if prop == "C14" else [0, 16, -1]
                for cut in cuts:
                    add(op, fl, step, kind, cut, dns=(len(scs) % 3 == 0))
    rows = run_scenarios(scs)
    # pass 2 (C14): EOF at every / sampled byte offsets of each reply, lengths learnt in pass 1
    if prop == "C14":
        lens: dict[tuple, int] = {}
        for sc, row in zip(scs, rows):
            if sc["kind"] == "eof" and row.get("replyLen", 0) > 0:
                lens[(sc["op"], sc["flavour"], sc["step"])] = row["replyLen"]
        n0 = len(scs)
        for (op, fl, step), L in sorted(lens.items()):
            offs = list(range(L)) if ctx.thorough else sorted(set(rng.sample(range(L), min(L, 24))))
            for cut in offs:
                add(op, fl, step, "eof", cut, dns=False)
        rows += run_scenarios(scs[n0:])
    for sc, row in zip(scs, rows):
        ctx.distinct(("fault", sc["op"], sc["flavour"], sc["step"], sc["kind"], row.get("cut", 0)))
    ctx.count(len(rows))
    bad, _ = validate(ctx, "TraceFaults", "TraceFaults.cfg", rows, what="faults")
    for i, clauses in bad.items():
        row = rows[i]
        if any(c.startswith("MACHINERY") for c in clauses):
            if getattr(ctx, "violations", None):
                # the check has already found violations of the property on this tree: that the conversation no longer reaches
                # the scripted step is explained by them (on a tree where the property holds every fault is delivered)
                ctx.note_drift("fault_step_not_reached_on_a_tree_that_already_violates_the_property")
                continue
            raise MachineryError(f"fault scenario rejected for a machinery reason {clauses}: {row}")
        own = [c for c in clauses if c.startswith(prop + "_")]
        for c in clauses:
            if c not in own:
                ctx.note_drift("extended_behaviour:" + c)
        if own:
            # scripted end to end, so the outcome is a function of the scenario: confirm by re-execution
            again = scenario(scs[i])
            if any(again.get(k) != row.get(k) for k in ("res", "retry")):
                ctx.note_drift("outcome_not_reproducible_on_reexecution")
                continue
            ctx.violation(f"faults:{own[0]}:{row['step']}:{row['kind']}:{row['op']}:{row['flavour']}", ",".join(own), {"scenario": scs[i], "observed": row},
                          f"{row['op']} ({row['flavour']}) with peer fault {row['kind']} at step {row['step']} (cut {row.get('cut')}): result {row['res']} {row.get('exc', '')}, "
                          f"then the same call on a healthy peer with the same cache: {row['retry']} {row.get('retryExc', '')}")
    ctx.assume("peer faults are injected at the reference DC / scripted transport; 'promptly' = within the 25 s guard of one API call")


def selftest(ctx: t.Any) -> None:
    """Binding demonstration for TraceFaults: observed rows are accepted; the same rows with one recorded field
    corrupted (result of the faulty call, result of the second call, connection left open) are rejected."""
    from .tracecheck import selftest_expect_reject

    scs = [dict(id=i, op=op, flavour=fl, step=step, kind=kind, cut=cut, seed=77 + i, hash="SHA256", dns=False)
           for i, (op, fl, step, kind, cut) in enumerate([("unprotect", "sync", "bind2", "eof", 17), ("protect", "async", "eptmap", "status", 0),
                                                          ("unprotect", "async", "alter", "nak", 0), ("protect", "sync", "getkey", "fault", 0)])]
    good = run_scenarios(scs)
    bad = []
    for k, row in enumerate(good):
        for fld, val in (("res", "ok"), ("retry", "error"), ("leaked", 1), ("res", "hang")):
            r2 = dict(row)
            r2[fld] = val
            r2["id"] = 100 + len(bad)
            bad.append(r2)
    selftest_expect_reject(ctx, "TraceFaults", "TraceFaults.cfg", good, bad, "faults")
